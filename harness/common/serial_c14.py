"""C14 extension (session 3): serial-protocol code that was outside the first check.

(a) PKONE payloads: the real PKONEHardwarePlatform.process_received_message / receive_switch / receive_all_switches behind
    the real PKONESerialCommunicator._parse_msg (in-flight counter, send_ready) - stub machine with a recording switch
    controller, the platform's own __init__.
(b) OPP initialisation: the real OPPSerialCommunicator._identify_connection (readuntil framing, inventory, GET_GEN2_CFG,
    GET_VERS, initial input reads of several chained cards) against a simulated card chain whose replies arrive through a
    real asyncio.StreamReader in generated chunks; and the real OppHardwarePlatform.process_received_message dispatch on
    merged / corrupted / truncated init responses.
(c) FAST configuration-phase responses (ID: CH: SL: DL: SA: at boot, !B: XX:) through the real
    FastNetNeuronCommunicator.parse_incoming_raw_bytes.
(d) several send_and_wait_for_response_processed callers queued on the real communicator while one is awaited (FIFO).
Every function takes the ctx / rng / model of harness/corr/C14.py; the model side is MpfVerif.Model.Framing2.
"""
import asyncio
import logging
import re
from types import SimpleNamespace

from harness.common.shrink import ddmin
from harness.common.util import InfraError

HIGH_NOISE = [0x80, 0x9F, 0xBF, 0xFF, 0xA5]


class SwitchLog:
    def __init__(self):
        self.events = []
        self.table = {}

    def process_switch_by_num(self, num, state, platform, logical=False, timestamp=None):
        self.events.append((num, state))
        self.table[num] = state

    def process_switch_obj(self, obj, state, logical, timestamp=None):
        self.events.append((obj, state))


def stub_machine(section, cfg, loop=None):
    sc = SwitchLog()
    stops = []
    m = SimpleNamespace(switch_controller=sc, switches={},
                        config={section: {}, "hardware": {"driverboards": "gen2"}, "mpf": {"default_light_hw_update_hz": 50}},
                        config_validator=SimpleNamespace(validate_config=lambda name, c, *a, **k: dict(cfg)),
                        options={"production": False}, is_shutting_down=False, clock=SimpleNamespace(loop=loop),
                        stop=lambda *a, **k: stops.append(a), stops=stops)
    return m, sc


def chunkings(r, data, n=3):
    res = [[data], [bytes([b]) for b in data]]
    for _ in range(n):
        cuts = sorted(r.sample(range(1, len(data)), min(len(data) - 1, r.randint(1, 7)))) if len(data) > 1 else []
        res.append([data[i:j] for i, j in zip([0] + cuts, cuts + [len(data)])])
    return res


def corrupt(r, data, alphabet, k):
    data = bytearray(data)
    log = []
    for _ in range(k):
        if not data:
            break
        pos = r.randrange(len(data))
        how = r.choice(["rep", "rep", "ins", "del"])
        b = r.choice(alphabet)
        if how == "rep":
            data[pos] = b
        elif how == "ins":
            data.insert(pos, b)
        else:
            del data[pos]
        log.append([how, pos, b])
    return bytes(data), log


# =============================================================================================== (a) PKONE payloads
PKCFG = {"debug": False, "console_log": "none", "file_log": "none"}
PSW_RE = re.compile(rb"PSW([0-9])([0-9][0-9])([01])")
PSA_RE = re.compile(rb"PSA([0-9])([01]*)")


def make_pk2(inflight, read_task, ready):
    from mpf.platforms.pkone.pkone import PKONEHardwarePlatform
    from mpf.platforms.pkone.pkone_serial_communicator import PKONESerialCommunicator
    m, sc = stub_machine("pkone", PKCFG)
    p = PKONEHardwarePlatform(m)
    logging.disable(logging.CRITICAL)
    comm = PKONESerialCommunicator(p, "com", 1)
    p.controller_connection = comm
    comm.messages_in_flight = inflight
    comm.read_task = object() if read_task else None
    if not ready:
        comm.send_ready.clear()
    return comm, p, sc


def pk2_tok(ev):
    num, st = ev
    return "sw%d.%d=%s" % (num.board_address_id, num.switch_number, st)


def pk2_hw(p):
    out = {}
    for k, v in p.hw_switch_data.items():
        out.setdefault(k.board_address_id, {})[k.switch_number] = v
    return " ".join("%d:%s" % (b, "".join(str(out[b].get(i + 1, "?")) for i in range(max(out[b])))) for b in sorted(out)) or "-"


def pk2_run(chunks, init):
    comm, p, sc = make_pk2(*init)
    escapes = []
    per_chunk = []
    for c in chunks:
        n0 = len(sc.events)
        data = c
        for _ in range(len(c) + 3):
            try:
                comm._parse_msg(data)
                break
            except Exception as e:                      # the frame was consumed before dispatch: resume on the buffer
                escapes.append(type(e).__name__ + ": " + str(e)[:60])
                data = b""
        else:
            raise InfraError("PKONE parser does not drain")
        per_chunk.append(([pk2_tok(e) for e in sc.events[n0:]], bytes(comm.received_msg), comm.messages_in_flight,
                          comm.send_ready.is_set(), pk2_hw(p)))
    return sc, p, comm, escapes, per_chunk


def gen_pk2_frames(r):
    frames = []
    for _ in range(r.randint(3, 12)):
        k = r.random()
        b = r.choice([0, 0, 1, 2, 7])
        n = r.choice([1, 1, 5, 9, 10, 26, 35, r.randint(1, 35)])
        if k < 0.5:
            frames.append(("PSW%d%02d%d" % (b, n, r.randint(0, 1)), "sw"))
        elif k < 0.62:
            frames.append(("PSA%d" % b + "".join(r.choice("01") for _ in range(r.choice([35, 35, 8, 0]))), "sa"))
        elif k < 0.72:
            frames.append((r.choice(["PWD", "PWF", "PCNF11H1", "PCB4N", "PXX12", "PZZ1", "P", "PS", "XYZ00", "PWS"]), "other"))
        elif k < 0.77:
            frames.append(("", "empty"))
        else:
            frames.append((r.choice([
                "PSW", "PSW0", "PSW00", "PSW001", "PSW010", "PSW%d%02d" % (b, n),            # truncated
                "PSW%d%02d%d%d" % (b, n, r.randint(0, 1), r.randint(0, 9)),                     # too long
                "PSW%d%02d%d" % (b, n, r.randint(2, 9)),                                        # state not 0/1
                "PSWx011", "PSW0x11", "PSW01x1", "PSW001x", "PSW0:11", "PSW0,11",
                "PSA", "PSAx01", "PSA01x0", "PSA0012", "PSA0%s9" % ("01" * 5)]), "malformed"))
    return frames


PK_ALPHA = [ord(c) for c in "0123456789PSWAXE:,x"]


def pk2_expected(data):
    """the oracle's own reading of the byte stream: frames end at 'E'; only strictly well-formed PSW frames report a switch"""
    evs = []
    hw = {}
    nframes = 0
    for f in data.split(b"E")[:-1]:
        nframes += 1
        m = PSW_RE.fullmatch(f)
        if m:
            evs.append("sw%d.%d=%d" % (int(m.group(1)), int(m.group(2)), int(m.group(3))))
        m = PSA_RE.fullmatch(f)
        if m:
            for i, ch in enumerate(m.group(2)):
                hw[(int(m.group(1)), i + 1)] = int(chr(ch))
    return evs, hw, nframes


def pk2_fail_sig(data, init):
    sc, p, comm, escapes, _ = pk2_run([data], init)
    evs, hw, _ = pk2_expected(data)
    got = [pk2_tok(e) for e in sc.events]
    if escapes:
        return "pkone-payload-raises:" + escapes[0].split(":")[0]
    if got != evs:
        return "pkone-malformed-payload-changes-switch"
    if {(k.board_address_id, k.switch_number): v for k, v in p.hw_switch_data.items()} != hw:
        return "pkone-psa-hw-data-not-last-report"
    return None


def pk2_case(ctx, r, model, frames=None, ncorr=None):
    frames = frames if frames is not None else gen_pk2_frames(r)
    data = b"".join(f.encode() + b"E" for f, _ in frames)
    k = ncorr if ncorr is not None else r.choice([0, 0, 0, 1, 2])
    clog = []
    if k:
        data, clog = corrupt(r, data, PK_ALPHA + (HIGH_NOISE if r.random() < 0.1 else []), k)
    if not data:
        return
    init = (r.choice([0, 0, 1, 3, 11, 12, 14]), r.random() < 0.7, r.random() < 0.5)
    case = {"kind": "pk2", "data": data.hex(), "init": list(init), "corruptions": clog}
    ctx.count("pk2_streams")
    for _, kd in frames:
        ctx.count("pk2_" + kd)
    ctx.evaluated(case, True)
    results = [(chunks,) + pk2_run(chunks, init) for chunks in chunkings(r, data)]
    base = results[0]
    sig = pk2_fail_sig(data, init)
    if sig:
        parts = [x + b"E" for x in data.split(b"E")[:-1]]
        keep = ddmin(parts, lambda ps: pk2_fail_sig(b"".join(ps), init) == sig)
        ctx.fail(sig, dict(case, shrunk=b"".join(keep).hex()),
                 {"escapes": base[4][:3], "events": [pk2_tok(e) for e in base[1].events][:8],
                  "expected_events": pk2_expected(data)[0][:8]})
    # in-flight counter: one decrement per delimiter, never below zero; send_ready is never cleared by the reader
    # (whether an empty frame counts as an acknowledgement is the code's choice, tied by the model, not demanded here)
    _, _, nframes = pk2_expected(data)
    nonempty = sum(1 for f in data.split(b"E")[:-1] if f)
    comm = base[3]
    if not (max(0, init[0] - nframes) <= comm.messages_in_flight <= max(0, init[0] - nonempty)) or \
            (init[2] and not comm.send_ready.is_set()):
        ctx.fail("pkone-inflight-counter", case, {"in_flight": comm.messages_in_flight, "frames": nframes, "start": init[0]})
    for chunks, sc, p, comm, escapes, per_chunk in results[1:]:
        if [pk2_tok(e) for e in sc.events] != [pk2_tok(e) for e in base[1].events] or pk2_hw(p) != pk2_hw(base[2]) or \
                bytes(comm.received_msg) != bytes(base[3].received_msg) or \
                comm.messages_in_flight != base[3].messages_in_flight or \
                comm.send_ready.is_set() != base[3].send_ready.is_set() or len(escapes) != len(base[4]):
            ctx.fail("pkone-payload-chunking", dict(case, chunks=[c.hex() for c in chunks]),
                     {"got": [pk2_tok(e) for e in sc.events][:8], "one_chunk": [pk2_tok(e) for e in base[1].events][:8]})
            return
    if model is not None and not sig:
        for chunks, sc, p, comm, escapes, per_chunk in results[:3]:
            model.ask("pk2init %d %d %d" % (init[0], 1 if init[1] else 0, 1 if init[2] else 0))
            for c, (toks, buf, k2, ready, hw) in zip(chunks, per_chunk):
                ans = model.ask("pk2 " + c.hex()).split(" ")
                mt = [t for t in ans if t.startswith("sw")]
                tail = [t for t in ans if t.startswith(("buf=", "k=", "r="))]
                if not ctx.compare(dict(case, chunks=[x.hex() for x in chunks], what="pk2 chunk " + c.hex()),
                                   [toks, "buf=" + (buf.hex() or "-"), "k=%d" % k2, "r=%d" % (1 if ready else 0)],
                                   [mt] + tail):
                    return
            ctx.compare(dict(case, what="pk2 hw data"), "hw " + pk2_hw(p), model.ask("pk2hw"))
            for num, st in list(sc.table.items())[:6]:
                ctx.compare(dict(case, what="pk2 switch %s" % (num,)), str(st),
                            model.ask("pk2q %d %d" % (num.board_address_id, num.switch_number)))


def pk2_replay(ctx, case):
    data = bytes.fromhex(case.get("shrunk") or case["data"])
    init = tuple(case["init"])
    sig = pk2_fail_sig(data, init)
    if sig:
        ctx.fail(sig, case, {"events": [pk2_tok(e) for e in pk2_run([data], init)[0].events][:8],
                             "expected_events": pk2_expected(data)[0][:8]})
        return
    a = pk2_run([bytes.fromhex(case["data"])], init)
    b = pk2_run([bytes.fromhex(c) for c in case.get("chunks", [case["data"]])], init)
    if [pk2_tok(e) for e in a[0].events] != [pk2_tok(e) for e in b[0].events]:
        ctx.fail("pkone-payload-chunking", case, {})


# =============================================================================================== (b) OPP initialisation
OPPCFG = {"debug": False, "console_log": "none", "file_log": "none", "driverboards": "gen2", "ports": ["com1"],
          "chains": {}, "baud": 115200, "poll_hz": 100, "incand_update_hz": 30}
INP_WINGS = (1, 2, 6, 8)
MTX_WINGS = (4, 0x0a)
ALL_WINGS = [0, 0, 1, 2, 2, 3, 4, 5, 7, 0x0a, 0x0d]


def crc8_real(data):
    from mpf.platforms.opp.opp_rs232_intf import OppRs232Intf
    return OppRs232Intf.calc_crc8_whole_msg(data)[0]


class VLoop(asyncio.SelectorEventLoop):
    def __init__(self):
        super().__init__()
        self.vt = 0.0

    def time(self):
        return self.vt


def chain_reply(cards, msg):
    """what a chain of gen2 cards answers to one write of the communicator"""
    if msg == b"\xff":
        return b"\xff"
    if msg[:1] == b"\xf0":
        return b"\xf0" + bytes(c["addr"] for c in cards) + b"\xff"
    out = b""
    i = 0
    byaddr = {c["addr"]: c for c in cards}
    while i + 1 < len(msg) and msg[i] != 0xff:
        a, cmd = msg[i], msg[i + 1]
        c = byaddr.get(a)
        body = None
        if c is not None:
            if cmd == 0x0d:
                body = bytes([a, cmd]) + bytes(c["wings"])
            elif cmd == 0x02:
                body = bytes([a, cmd]) + bytes(c["vers"])
            elif cmd == 0x08:
                body = bytes([a, cmd]) + c["inp"].to_bytes(4, "big")
            elif cmd == 0x19:
                body = bytes([a, cmd]) + c["mtx"].to_bytes(8, "big")
        if body:
            out += body + bytes([crc8_real(body)])
        i += 11 if cmd == 0x19 else 7
    return out + b"\xff"


class FakeWriter:
    def __init__(self):
        self.log = []

    def write(self, msg):
        self.log.append(bytes(msg))


def make_opp_platform(loop=None):
    from mpf.platforms.opp.opp import OppHardwarePlatform
    class P(OppHardwarePlatform):
        def _parse_gen2_board(self, chain_serial, msg, read_input_msg):
            self.boards.append(bytes(msg))
            return super()._parse_gen2_board(chain_serial, msg, read_input_msg)

    m, sc = stub_machine("opp", OPPCFG, loop)
    P.boards = []
    p = P(m)
    p.boards = []
    logging.disable(logging.CRITICAL)
    return p, sc


def opp_init_run(cards, chunker):
    """the real _identify_connection against the simulated chain; replies are fed to a real StreamReader chunk by chunk"""
    from mpf.platforms.opp.opp_serial_communicator import OPPSerialCommunicator
    loop = VLoop()
    try:
        asyncio.set_event_loop(loop)
        p, sc = make_opp_platform(loop)
        comm = OPPSerialCommunicator(p, "com1", 115200, "com1")
        comm.reader = asyncio.StreamReader(limit=2 ** 16, loop=loop)
        w = FakeWriter()
        comm.writer = w
        task = loop.create_task(comm._identify_connection())
        seen = 0
        queue = []
        idle = 0

        def spin():
            for _ in range(4):
                loop.run_until_complete(asyncio.sleep(0))
        for _ in range(6000):
            spin()
            if task.done():
                break
            while seen < len(w.log):
                queue.extend(chunker(chain_reply(cards, w.log[seen])))
                seen += 1
            if queue:
                comm.reader.feed_data(queue.pop(0))
                idle = 0
            else:
                loop.vt += 0.015625
                idle += 1
                if idle > 12:
                    break
        res = {"done": task.done(), "err": None}
        if task.done():
            e = task.exception()
            res["err"] = (type(e).__name__ + ": " + str(e)[:100]) if e else None
        else:
            task.cancel()
            spin()
        res["inputs"] = sorted((c.addr, c.is_matrix, c.old_state if not isinstance(c.old_state, list) else -1)
                               for c in p.opp_inputs)
        res["vers"] = sorted(p.gen2_addr_arr.get("com1", {}).items())
        res["bad_crc"] = p.bad_crc["com1"]
        res["registered"] = "com1" in p.opp_connection
        res["carried"] = [bytes(comm.part_msg).hex(), comm._lost_synch]
        res["writes"] = len(w.log)
        return res
    finally:
        asyncio.set_event_loop(None)
        loop.close()


_FF_WINGS = {}


def ff_wings(addr):
    """wing configurations of a card whose GET_GEN2_CFG response has CRC byte 0xff (the EOM value)"""
    if addr not in _FF_WINGS:
        hits = []
        for w0 in ALL_WINGS:
            for w1 in ALL_WINGS:
                for w2 in ALL_WINGS:
                    for w3 in ALL_WINGS:
                        if crc8_real(bytes([addr, 0x0d, w0, w1, w2, w3])) == 0xff:
                            hits.append([w0, w1, w2, w3])
        _FF_WINGS[addr] = hits
    return _FF_WINGS[addr]


def gen_chain(r):
    n = r.choice([1, 1, 2, 2, 3, 4])
    addrs = sorted(r.sample(range(0x20, 0x28), n))
    cards = []
    for a in addrs:
        wings = [r.choice(ALL_WINGS) for _ in range(4)]
        if r.random() < 0.15 and ff_wings(a):
            wings = list(r.choice(ff_wings(a)))
        vers = r.choice([[2, 1, 0, 0], [2, 1, 0, 0], [2, 0, 0, 1], [0, 1, 2, 0], [2, 255, 0, 7]])
        inp = r.choice([0xffffffff, 0xffffffff, r.getrandbits(32), 0xffffffff ^ (1 << r.randrange(32)), 0])
        mtx = r.choice([0xffffffffffffffff, r.getrandbits(64), 0xffffffffffffffff ^ (1 << r.randrange(64))])
        cards.append({"addr": a, "wings": wings, "vers": vers, "inp": inp, "mtx": mtx})
    same = r.random() < 0.7
    if same:
        for c in cards:
            c["vers"] = cards[0]["vers"]
    return cards


def opp_init_expected(cards):
    inputs = []
    for c in cards:
        if any(w in INP_WINGS for w in c["wings"]):
            inputs.append((c["addr"], False, c["inp"]))
        if any(w in MTX_WINGS for w in c["wings"]):
            inputs.append((c["addr"], True, c["mtx"]))
    vers = [(c["addr"], int.from_bytes(bytes(c["vers"]), "big")) for c in cards]
    return sorted(inputs), sorted(vers)


def opp_init_sig(cards, chunker):
    res = opp_init_run(cards, chunker)
    inputs, vers = opp_init_expected(cards)
    if res["err"] or not res["done"]:
        return "opp-init-valid-response-rejected", res
    if res["inputs"] != inputs or res["vers"] != vers or res["bad_crc"] or not res["registered"]:
        return "opp-init-state-not-reported", res
    return None, res


def opp_init_case(ctx, r, model, cards=None):
    cards = cards if cards is not None else gen_chain(r)
    case = {"kind": "opp-init", "cards": cards}
    ctx.count("oppinit_chains")
    ctx.count("oppinit_cards", len(cards))
    ffcrc = any(crc8_real(bytes([c["addr"], 0x0d] + c["wings"])) == 0xff or
                crc8_real(bytes([c["addr"], 0x02] + c["vers"])) == 0xff for c in cards)
    if ffcrc:
        ctx.count("oppinit_crc_byte_is_eom")
    ctx.evaluated(case, len(cards) > 1 or ffcrc)
    seeds = [r.getrandbits(30) for _ in range(2)]

    def rnd_chunker(seed):
        import random
        rr = random.Random(seed)
        return lambda b: chunkings(rr, b, 1)[2] if len(b) > 1 else [b]
    chunkers = [("whole", lambda b: [b]), ("bytes", lambda b: [bytes([x]) for x in b])] + \
               [("random-%d" % s, rnd_chunker(s)) for s in seeds]
    base = None
    for name, ch in chunkers:
        sig, res = opp_init_sig(cards, ch)
        if sig:
            small = ddmin(cards, lambda cs: bool(cs) and opp_init_sig(cs, lambda b: [b])[0] == sig) \
                if opp_init_sig(cards, lambda b: [b])[0] == sig else cards
            ctx.fail(sig, dict(case, chunking=name, shrunk=small), {"result": res, "expected": opp_init_expected(cards)})
            return
        if base is None:
            base = res
        elif res != base:
            ctx.fail("opp-init-chunking", dict(case, chunking=name), {"got": res, "one_chunk": base})
            return
    if model is not None:
        # the framing of the three init replies (readuntil with the minimum length the code passes) and their decoding
        n = len(cards)
        cfg = chain_reply(cards, b"".join(bytes([c["addr"], 0x0d, 0, 0, 0, 0, 0]) for c in cards) + b"\xff")
        ver = chain_reply(cards, b"".join(bytes([c["addr"], 0x02, 0, 0, 0, 0, 0]) for c in cards) + b"\xff")
        ans = model.ask("oppru 255 %d %s" % (7 * n, (cfg + ver).hex()))
        ctx.compare(dict(case, what="readuntil cfg reply"), "%s|%s" % (cfg.hex(), ver.hex()), ans)
        ans = model.ask("oppinit reset")
        ans = model.ask("oppinit " + (b"\xf0" + bytes(c["addr"] for c in cards) + b"\xff").hex())
        ctx.compare(dict(case, what="inventory"), "inv " + ",".join(str(c["addr"]) for c in cards), ans)
        ans = model.ask("oppinit " + cfg.hex())
        ctx.compare(dict(case, what="cfg reply"), "cfg " + ",".join("%d:%s" % (c["addr"], bytes(c["wings"]).hex()) for c in cards) + " end=ok", ans)
        ans = model.ask("oppinit " + ver.hex())
        ctx.compare(dict(case, what="vers reply"), "vers " + ",".join("%d=%d" % (a, v) for a, v in opp_init_expected(cards)[1]) + " end=ok", ans)


class LostRec:
    def __init__(self):
        self.lost = 0

    def lost_synch(self):
        self.lost += 1


def opp_msg_run(cards, msgs, registered=True):
    """process_received_message on init-phase messages (the platform's init handlers); returns one observation per message.
    registered=False: as during _identify_connection, the connection is not in opp_connection yet"""
    p, sc = make_opp_platform()
    rec = LostRec()
    if registered:
        p.opp_connection["com1"] = rec
    boards = p.boards
    obs = []
    for msg in msgs:
        b0, c0, l0 = len(boards), p.bad_crc["com1"], rec.lost
        inv0 = p.gen2_addr_arr.get("com1")
        old0 = {(c.addr, c.is_matrix): c.old_state for c in p.opp_inputs}
        n_in = len(p.opp_inputs)
        try:
            p.process_received_message("com1", msg)
            err = None
        except AssertionError:
            err = "assert"
        except KeyError as e:
            if registered or e.args != ("com1",):
                err = "crash:KeyError"
            else:
                obs.append("keyerror")      # lost_synch() on a connection that is not registered yet
                break
        except Exception as e:
            err = "crash:" + type(e).__name__
        end = err or ("crc" if p.bad_crc["com1"] > c0 else "lost" if rec.lost > l0 else "ok")
        if err is None and (msg[:1] == b"\xf0" or ((msg[0] & 0xe0) == 0x20 and msg[1:2] == b"\xf0")):
            o = "inv " + ",".join(str(a) for a in p.gen2_addr_arr["com1"])
        elif err is None and (msg[:1] == b"\xff" or ((msg[0] & 0xe0) == 0x20 and msg[1:2] == b"\xff")):
            o = "eom"
        elif len(boards) > b0 or (len(msg) > 1 and msg[1] == 0x0d and (msg[0] & 0xe0) == 0x20):
            o = "cfg " + ",".join("%d:%s" % (b[0], b[2:6].hex()) for b in boards[b0:]) + " end=" + end
        elif len(msg) > 1 and msg[1] == 0x02 and (msg[0] & 0xe0) == 0x20:
            inv = p.gen2_addr_arr.get("com1", {})
            o = "vers " + ",".join("%d=%d" % (a, v) for a, v in inv.items() if v is not None) + " end=" + end
        elif len(msg) > 1 and msg[1] in (0x08, 0x19) and (msg[0] & 0xe0) == 0x20:
            ch = ["%d%s=%d" % (c.addr, "m" if c.is_matrix else "i", c.old_state) for c in p.opp_inputs[:n_in]
                  if old0[(c.addr, c.is_matrix)] != c.old_state]
            o = "inp " + ",".join(ch) + " end=" + end
        else:
            o = "illegal end=" + end
        obs.append(o)
        if not registered and "com1" not in p.gen2_addr_arr:
            break       # _identify_connection dies on gen2_addr_arr[chain_serial] right after such an inventory reply
    return obs, p, boards


def opp_msg_case(ctx, r, model):
    cards = gen_chain(r)
    inv = b"\xf0" + bytes(c["addr"] for c in cards) + b"\xff"
    cfg = chain_reply(cards, b"".join(bytes([c["addr"], 0x0d, 0, 0, 0, 0, 0]) for c in cards) + b"\xff")
    ver = chain_reply(cards, b"".join(bytes([c["addr"], 0x02, 0, 0, 0, 0, 0]) for c in cards) + b"\xff")
    kind = r.choice(["cfg", "cfg", "vers"])
    good = cfg if kind == "cfg" else ver
    mode = r.choice(["valid", "flip", "flip", "flip2", "truncate", "merge", "cmd"])
    msg = bytearray(good)
    hit = set()      # indices of the 7-byte frames that no longer are what the card sent
    if mode in ("flip", "flip2"):
        for _ in range(1 if mode == "flip" else 2):
            pos = r.randrange(0, len(msg) - 1)
            if pos // 7 in hit:
                continue      # CRC-8 promises single-byte / burst detection per frame: at most one damaged byte per frame
            v = msg[pos] ^ r.randrange(1, 256)
            if (pos == 0 and v in (0xf0, 0xff)) or (pos == 1 and v in (0x08, 0x19, 0xf0)):
                v = 0x41
            msg[pos] = v
            hit.add(pos // 7)
    elif mode == "truncate":
        pos = r.randrange(0, len(msg) - 1)
        n = r.randint(1, 7)
        del msg[pos:pos + n]
        hit.update(range(pos // 7, len(cards)))
        if not msg or msg[-1] != 0xff:
            msg.append(0xff)
    elif mode == "merge":
        msg = bytearray(good[:-1] + (ver if kind == "cfg" else cfg))
    elif mode == "cmd":
        msg[1] = r.choice([0x02, 0x0d, 0x00, 0x13, 0x0e])     # not the input-read commands (initial reads: opp_init_case)
        hit.add(0)
    msg = bytes(msg)
    case = {"kind": "opp-msg", "cards": cards, "which": kind, "mode": mode, "msg": msg.hex()}
    ctx.count("oppmsg_" + mode)
    ctx.evaluated(case, mode != "valid" or len(cards) > 1)
    msgs = [inv, msg] if kind == "cfg" else [inv, cfg, msg]
    obs, p, boards = opp_msg_run(cards, msgs)
    crash = [o for o in obs if "crash:" in o]
    if crash:
        ctx.fail("opp-init-message-crash", case, {"observations": obs})
        return
    # bad frame changes nothing: every board configured / version stored comes from a frame exactly as the card sent it
    # (a deletion shifts bytes between frames - CRC-8 promises nothing there, 1 in 256 passes: judged by the model only)
    sent_cfg = {bytes([c["addr"], 0x0d] + c["wings"]) for c in cards}
    if mode == "truncate":
        pass
    elif kind == "cfg":
        for b in boards:
            if b not in sent_cfg:
                ctx.fail("opp-init-corrupt-frame-accepted", case, {"board": b.hex(), "observations": obs})
                return
        if mode == "valid" and len(boards) != len(cards):
            ctx.fail("opp-init-state-not-reported", case, {"boards": [b.hex() for b in boards]})
            return
    else:
        want = dict(opp_init_expected(cards)[1])
        for a, v in p.gen2_addr_arr.get("com1", {}).items():
            if v is not None and want.get(a) != v:
                ctx.fail("opp-init-corrupt-frame-accepted", case, {"card": a, "version": v, "observations": obs})
                return
        if mode == "valid" and sorted(p.gen2_addr_arr["com1"].items()) != sorted(want.items()):
            ctx.fail("opp-init-state-not-reported", case, {"versions": dict(p.gen2_addr_arr["com1"])})
            return
    if model is not None:
        model.ask("oppinit reset")
        for m_, o in zip(msgs, obs):
            if not ctx.compare(dict(case, what="init message " + m_.hex()), o, model.ask("oppinit " + m_.hex())):
                return


def opp_init_replay(ctx, case):
    if case["kind"] == "opp-init":
        cards = case.get("shrunk") or case["cards"]
        for ch in (lambda b: [b], lambda b: [bytes([x]) for x in b]):
            sig, res = opp_init_sig(cards, ch)
            if sig:
                ctx.fail(sig, case, {"result": res, "expected": opp_init_expected(cards)})
                return
    else:
        ctx.fail("opp-init-message", case, {"note": "stream-level oracle; re-run ./check C14 with the same seed"})


# =============================================================================================== (c) FAST config phase
def make_fast_cfg():
    from mpf.platforms.fast.communicators.net_neuron import FastNetNeuronCommunicator

    class Spy(FastNetNeuronCommunicator):
        __slots__ = ["toks"]

        def _dispatch_incoming_msg(self, msg):
            if isinstance(msg, str) and msg in self.IGNORED_MESSAGES:
                self.toks.append("ign")
                return super()._dispatch_incoming_msg(msg)
            hdr = msg[:3]
            self.done_waiting.clear()
            q0 = self.send_queue.qsize()
            try:
                super()._dispatch_incoming_msg(msg)
            except ValueError:
                # ID: with three fields whose firmware field is not a version (packaging's syntax is not modelled)
                self.toks.append("idv" if hdr == "ID:" and len(msg[3:].split()) == 3 else "bad")
                raise
            except AssertionError:
                self.toks.append("assert")
                raise
            except Exception as e:
                self.toks.append("crash:" + type(e).__name__)
                raise
            if hdr not in self.message_processors:
                self.toks.append("unk")
            elif hdr == "ID:":
                self.toks.append("id")
            elif self.send_queue.qsize() > q0:
                self.toks.append(hdr[:2] + "w")
            else:
                self.toks.append(hdr[:2] + ("d" if self.done_waiting.is_set() else "n"))
            return None

    m, sc = stub_machine("fast", {})
    platform = SimpleNamespace(machine=m, debug=False, switches_initialized=False, hw_switch_data={},
                               new_switch_data=asyncio.Event(), io_boards={}, machine_type="neuron")
    comm = Spy(platform, "net", {"debug": False, "port": ["x"], "baud": 1, "io_loop": {}, "watchdog": None})
    logging.disable(logging.CRITICAL)
    comm.ignore_decode_errors = False
    comm.create_switches()
    comm.create_drivers()
    comm.toks = []
    return comm, sc, platform


def fcfg_run(chunks):
    comm, sc, platform = make_fast_cfg()
    escapes = []
    per_chunk = []
    for c in chunks:
        n0 = len(comm.toks)
        data = c
        for _ in range(len(c) + 3):
            try:
                comm.parse_incoming_raw_bytes(data)
                break
            except UnicodeDecodeError:
                comm.toks.append("und")
                escapes.append("und")
            except AssertionError:
                pass                                          # CH:F - a deliberate stop (wrong hardware configuration)
            except Exception as e:
                escapes.append("crash:" + type(e).__name__ + ": " + str(e)[:60])
            data = b""
        else:
            raise InfraError("FAST parser does not drain")
        per_chunk.append((comm.toks[n0:], bytes(comm.received_msg)))
    return comm, sc, escapes, per_chunk


def gen_fcfg_frames(r):
    frames = []
    for _ in range(r.randint(3, 12)):
        k = r.random()
        n = r.choice([0, 1, 0x0a, 0x2f, 0x30, 0x67, 0x68, r.randrange(0x70)])
        if k < 0.12:
            frames.append((r.choice(["ID:NET FP-CPU-2000  02.13", "ID:NET FP-CPU-2000 2.06", "ID:NET FP-CPU-2000 v2"]), "id"))
        elif k < 0.2:
            frames.append((r.choice(["CH:P", "CH:P", "CH:2000,FF", "CH:F"]), "ch"))
        elif k < 0.45:
            if r.random() < 0.3:
                frames.append(("SL:P", "sl"))
            else:
                f = ["%02X" % n if r.random() < 0.9 else "%02x" % n] + \
                    [r.choice(["00", "00", "01", "02", "0", "1A"]) for _ in range(3)]
                if r.random() < 0.5:
                    f[1:] = ["00", "00", "00"]
                frames.append(("SL:" + ",".join(f), "sl"))
        elif k < 0.7:
            if r.random() < 0.3:
                frames.append(("DL:P", "dl"))
            else:
                f = ["%02X" % n if r.random() < 0.9 else "%02x" % n] + \
                    [r.choice(["00", "00", "00", "81", "1"]) for _ in range(8)]
                if r.random() < 0.5:
                    f[1:] = ["00"] * 8
                frames.append(("DL:" + ",".join(f), "dl"))
        elif k < 0.78:
            frames.append((r.choice(["SA:0E," + "00" * 14, "SA:0E," + "FF" * 14, "!B:00", "!B:02", "XX:F", "XX:U", "WD:P",
                                     "\x11\x11!", "-L:0A", "/L:0B"]), "other"))
        elif k < 0.83:
            frames.append(("", "empty"))
        else:
            frames.append((r.choice([
                "ID:", "ID:NET", "ID:NET FP-CPU-2000", "ID:NET FP-CPU-2000 02.13 extra", "ID:NET FP-CPU-2000 zz",
                "SL:", "SL:00", "SL:00,01", "SL:00,01,02", "SL:00,01,02,03,04", "SL:G0,00,00,00", "SL:,00,00,00",
                "DL:", "DL:00", "DL:00,81,00,10,0A", "DL:" + ",".join(["00"] * 8), "DL:" + ",".join(["00"] * 10),
                "DL:G0" + ",00" * 8, "DL:" + ",00" * 8,
                "DL:00,81,00,10,0A,FF,00,00,00DL:01,81,00,10,0A,FF,00,00,00",      # the '\r' between two replies lost
                "SL:00,01,02,03SL:01,01,02,03", "CH:", "CH", "ID"]), "malformed"))
    return frames


FCFG_NOISE = [ord(c) for c in "0123456789GZq,:PDSL"] + [13]      # no blank: int(' 0A', 16) is legal Python


def fcfg_sig(escapes):
    for e in escapes:
        if e.startswith("crash"):
            return "fast-config-response-raises:" + e.split(":")[1]
    return "fast-undecodable-frame-raises" if escapes else None


def fcfg_case(ctx, r, model, frames=None, ncorr=None):
    frames = frames if frames is not None else gen_fcfg_frames(r)
    data = b"".join(f.encode("latin-1") + b"\r" for f, _ in frames)
    k = ncorr if ncorr is not None else r.choice([0, 0, 1, 1, 2])
    clog = []
    if k:
        data, clog = corrupt(r, data, FCFG_NOISE + (HIGH_NOISE if r.random() < 0.1 else []), k)
    if not data:
        return
    case = {"kind": "fast-cfg", "data": data.hex(), "corruptions": clog}
    ctx.count("fcfg_streams")
    for _, kd in frames:
        ctx.count("fcfg_" + kd)
    ctx.evaluated(case, True)
    results = [(chunks,) + fcfg_run(chunks) for chunks in chunkings(r, data)]
    base = results[0]
    failed = False
    for chunks, comm, sc, escapes, per_chunk in results:
        sig = fcfg_sig(escapes)
        if sig and not failed:
            failed = True
            small = data
            if sig != "fast-undecodable-frame-raises":
                parts = [x + b"\r" for x in data.split(b"\r")[:-1]]
                keep = ddmin(parts, lambda ps: fcfg_sig(fcfg_run([b"".join(ps)])[2]) == sig)
                small = b"".join(keep)
            ctx.fail(sig, dict(case, chunks=[c.hex() for c in chunks], shrunk=small.hex()),
                     {"escapes": escapes[:3], "decoded": comm.toks[:12]})
        if comm.toks != base[1].toks or bytes(comm.received_msg) != bytes(base[1].received_msg) or sc.events != base[2].events:
            ctx.fail("fast-config-chunking", dict(case, chunks=[c.hex() for c in chunks]),
                     {"got": comm.toks, "one_chunk": base[1].toks})
            return
    # the oracle's own reading: every frame between two '\r' is handled on its own, whatever came before it
    if not failed:
        want = []
        for f in data.split(b"\r")[:-1]:
            if f:
                want.append(fcfg_run([f + b"\r"])[0].toks)
        if [t for w in want for t in w] != base[1].toks:
            ctx.fail("fast-config-frame-lost", case, {"got": base[1].toks, "frame_by_frame": want})
            return
        if not clog:
            for (f, kd), w in zip([x for x in frames if x[0]], want):
                ok = {"id": ["id"], "ch": ["CHd", "assert"], "sl": ["SLd", "SLw", "SLn"], "dl": ["DLd", "DLw", "DLn"]}.get(kd)
                if ok and (len(w) != 1 or w[0] not in ok):
                    ctx.fail("fast-config-valid-response-not-processed", case, {"frame": f, "decoded": w})
                    return
    if model is not None and not failed:
        for chunks, comm, sc, escapes, per_chunk in results[:3]:
            model.ask("fcfginit")
            for c, (ptoks, buf) in zip(chunks, per_chunk):
                ans = model.ask("fcfg " + c.hex())
                impl = " ".join(["id" if t == "idv" else t for t in ptoks] + ["buf=" + (buf.hex() or "-")])
                if not ctx.compare(dict(case, chunks=[x.hex() for x in chunks], what="fast-cfg chunk " + c.hex()), impl, ans):
                    return


def fcfg_replay(ctx, case):
    data = bytes.fromhex(case.get("shrunk") or case["data"])
    for chunks in ([data], [bytes.fromhex(c) for c in case.get("chunks", [])] or [data]):
        comm, sc, escapes, _ = fcfg_run(chunks)
        s = fcfg_sig(escapes)
        if s:
            ctx.fail(s, case, {"escapes": escapes[:3], "decoded": comm.toks[:12]})
            return


# =============================================================================================== (d) several callers queued
def gate_run(ops):
    """several send_and_wait_for_response_processed callers on the real communicator + the real writer task.
    ops: ['call', k] | ['resp'] | ['forget', k]"""
    from harness.corr.C14 import make_fast
    loop = VLoop()
    try:
        asyncio.set_event_loop(loop)

        def spin():
            for _ in range(8):
                loop.run_until_complete(asyncio.sleep(0))
        comm, sc, platform = make_fast()
        w = FakeWriter()
        comm.writer = w
        wt = loop.create_task(comm._socket_writer())
        tasks = {}
        obs = []
        for op in ops:
            if op[0] == "call":
                tasks[op[1]] = loop.create_task(comm.send_and_wait_for_response_processed(
                    "CH:%04X,FF" % op[1], "CH:", timeout=1000, max_retries=0))
            elif op[0] == "forget":
                comm.send_and_forget("TL:%04X" % op[1])
            else:
                comm.parse_incoming_raw_bytes(b"CH:P\r")
            spin()
            written = [int(m[3:7], 16) for m in w.log]
            obs.append("written=%s fin=%s gate=%d" % (",".join(map(str, written)) or "-",
                                                      ",".join(str(k) for k in sorted(tasks) if tasks[k].done()) or "-",
                                                      1 if comm.no_response_waiting.is_set() else 0))
        errs = [repr(t.exception()) for t in tasks.values() if t.done() and not t.cancelled() and t.exception()]
        for t in list(tasks.values()) + [wt]:
            t.cancel()
        spin()
        return obs, [int(m[3:7], 16) for m in w.log], errs
    finally:
        asyncio.set_event_loop(None)
        loop.close()


def gate_case(ctx, r, model, ops=None):
    if ops is None:
        ops = []
        k = 0
        for _ in range(r.randint(3, 12)):
            x = r.random()
            if x < 0.5:
                k += 1
                ops.append(["call", k])
            elif x < 0.6:
                k += 1
                ops.append(["forget", k])
            else:
                ops.append(["resp"])
        ops += [["resp"]] * r.choice([0, 2, k + 1])
    case = {"kind": "gate", "ops": ops}
    ctx.count("gate_cases")
    ctx.evaluated(case, sum(1 for o in ops if o[0] == "call") >= 2)
    try:
        obs, written, errs = gate_run(ops)
    except Exception as e:
        ctx.fail("fast-gate-crash", case, {"error": repr(e)})
        return
    if errs:
        ctx.fail("fast-gate-crash", case, {"errors": errs[:3]})
        return
    # FIFO: what is on the port is a prefix-respecting subsequence of the hand-over order: same relative order, no duplicate
    order = [o[1] for o in ops if o[0] in ("call", "forget")]
    calls = [o[1] for o in ops if o[0] == "call"]
    if [x for x in written if x in calls] != calls[:len([x for x in written if x in calls])] or len(set(written)) != len(written) \
            or any(x not in order for x in written):
        ctx.fail("fast-gate-order", case, {"written": written, "handed_over": order})
        return
    # nothing is lost: with one response per caller (and one to spare) every command is on the port at the end
    nresp_tail = 0
    for o in reversed(ops):
        if o[0] != "resp":
            break
        nresp_tail += 1
    if nresp_tail >= len(calls) + 1 and sorted(written) != sorted(order):
        ctx.fail("fast-gate-command-lost", case, {"written": written, "handed_over": order})
        return
    if model is not None:
        model.ask("ginit")
        for op, o in zip(ops, obs):
            ans = model.ask("g" + op[0] + (" %d" % op[1] if len(op) > 1 else ""))
            if not ctx.compare(dict(case, what="gate after %r" % (op,)), o, ans):
                return


def gate_replay(ctx, case):
    obs, written, errs = gate_run(case["ops"])
    calls = [o[1] for o in case["ops"] if o[0] == "call"]
    got = [x for x in written if x in calls]
    if errs:
        ctx.fail("fast-gate-crash", case, {"errors": errs[:3]})
    elif got != calls[:len(got)] or len(set(written)) != len(written):
        ctx.fail("fast-gate-order", case, {"written": written})
