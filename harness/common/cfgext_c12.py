"""C12 extension (session 3): the non-scalar validators and recursive section validation on the REAL ConfigValidator.

  ext_matrix      every extended validator (x_or_token, event strings, int_from_hex, color, kivycolor, gain, template_*,
                  machine(<collection>), dict, list, subconfig) x a value matrix, twice (table order, then shuffled:
                  history independence), oracle = declared type, correspondence = Lean `xitem`
  ext_citems      item types list / set / dict / event_handler over the extended validators (device lists, lists of
                  subconfigs, typed dicts), Lean `xcitem`
  deep_sections   every section of the real spec with generated *nested* sources (subconfig, nested list-of-dict
                  sections, all item types), unknown / omitted / ill-typed entries planted at random depth; oracle = complete,
                  typed, no unknown key at every depth, provided keys kept, spec unchanged; Lean `xsec`
  valid_in        ConfigProcessor._check_sections: a section is accepted in a machine / mode config iff __valid_in__ lists it
"""
import ast
import copy

from harness.corr import C12 as base

MACHINE_CONFIG = """
switches:
  s1:
    number: 1
  s2:
    number: 2
  s_long_name:
    number: 3
coils:
  c1:
    number: 1
  c2:
    number: 2
lights:
  l1:
    number: 1
    subtype: led
  l2:
    number: 2
    subtype: led
"""

NAN = float("nan")


# ---------------------------------------------------------------------------------------------------------------------
# tokens

def ttok(v):
    """a YAML tree as the Lean driver reads it (Polish notation, ','-separated); None if not expressible"""
    if isinstance(v, (list, tuple)):
        parts = [ttok(x) for x in v]
        return None if any(p is None for p in parts) else ",".join(["L%d" % len(parts)] + parts)
    if isinstance(v, dict):
        parts = []
        seen = set()
        for k, x in v.items():
            kt = base.tok(k)
            xt = ttok(x)
            if kt in ("L", "D", "O") or xt is None or isinstance(k, float):
                return None
            if not isinstance(k, str):
                return None                     # 1 / True / 1.0 collide as dict keys: outside the model
            seen.add(kt)
            parts += [kt, xt]
        return ",".join(["D%d" % (len(parts) // 2)] + parts)
    t = base.tok(v)
    return None if t in ("L", "D", "O") else t


class Canon:
    """canonical text of a validated result tree (same format as the Lean driver's showT)"""

    def __init__(self, machine, env):
        from mpf.core.config_validator import RuntimeToken
        from mpf.core import placeholder_manager as pm
        self.RuntimeToken = RuntimeToken
        self.pm = pm
        self.dev = {}
        for coll, names in env.items():
            c = getattr(machine, coll, None)
            for n in names:
                try:
                    self.dev[id(c[n])] = (coll, n)
                except Exception:
                    pass

    def __call__(self, v):
        pm = self.pm
        if isinstance(v, self.RuntimeToken):
            return "k" + (v.token.encode().hex() or "-")
        if isinstance(v, pm.NativeTypeTemplate):
            return "tn:" + base.tok(v.value)
        for cls, kind in ((pm.FloatTemplate, "float"), (pm.IntTemplate, "int"), (pm.BoolTemplate, "bool"),
                          (pm.StringTemplate, "str"), (pm.TextTemplate, "text")):
            if isinstance(v, cls):
                return "te%s:%s" % (kind, base.tok(v.text))
        if id(v) in self.dev and not isinstance(v, (str, int, float, bool, type(None), list, dict, tuple, set)):
            c, n = self.dev[id(v)]
            return "v.%s" % (n.encode().hex() or "-")      # the same object may sit in two collections (playfield)
        if isinstance(v, tuple) and len(v) == 3 and all(type(x) is int for x in v):
            return "c%d.%d.%d" % tuple(v)
        if isinstance(v, list):
            return "".join(["L%d" % len(v)] + ["," + self(x) for x in v])
        if isinstance(v, (set, frozenset)):
            return "".join(["L%d" % len(v)] + sorted("," + self(x) for x in v))
        if isinstance(v, dict):
            return "".join(["D%d" % len(v)] + sorted("," + self(k) + "," + self(x) for k, x in v.items()))
        t = base.tok(v)
        return "?" if t in ("L", "D", "O") else t


def show_res(canon, res):
    if res[0] != "ok":
        return "reject" if res[0] == "reject" else "raise"
    return "ok " + canon(res[1])


def syn_ok(text):
    try:
        ast.parse(str(text), mode="eval")
        return True
    except SyntaxError:
        return False
    except Exception:
        return None


def syn_flag(tree):
    """the verdicts of Python's expression parser for every text in a source tree, as the driver's syn argument"""
    bad = set()

    def walk(v):
        if isinstance(v, str):
            if syn_ok(v) is not True:
                bad.add(v)
        elif isinstance(v, (list, tuple)):
            for x in v:
                walk(x)
        elif isinstance(v, dict):
            for k, x in v.items():
                walk(k)
                walk(x)
    walk(tree)
    if not bad:
        return "1"
    return "b:" + ",".join(sorted(b.encode().hex() or "-" for b in bad))


def env_of(machine, spec):
    """device names per machine(<collection>) used anywhere in the spec"""
    import re
    colls = set()

    def walk(d):
        for k, v in d.items():
            if isinstance(v, dict):
                walk(v)
            elif isinstance(v, (list, tuple)) and len(v) == 3:
                colls.update(re.findall(r"machine\((\w+)\)", v[1]))
    for sec, d in spec.items():
        if isinstance(d, dict):
            walk(d)
    env = {}
    for c in sorted(colls):
        section = getattr(machine, c, [])
        try:
            env[c] = sorted(n for n in (section.keys() if hasattr(section, "keys") else section) if isinstance(n, str))
        except TypeError:
            env[c] = []
    return env


def env_line(env):
    return "env " + " ".join("%s=%s" % (c, ",".join(n.encode().hex() or "-" for n in ns)) for c, ns in env.items())


# ---------------------------------------------------------------------------------------------------------------------
# oracle: declared types of the extended validators

def split_validator(vd):
    b, _, p = vd.partition("(")
    return b, (p[:-1] if p else None)


def one_ok(o, vd, item, out, depth=0):
    """is `out` a value of validator `vd`'s declared type?  None = fine, else a reason.  `o` = Oracle (machine, spec)"""
    b, param = split_validator(vd)
    if b.endswith("_or_token") and isinstance(out, o.RuntimeToken):
        if not (isinstance(item, str) and item.startswith("(") and item.endswith(")") and out.token == item[1:-1]):
            return "a runtime token for a non-token item"
        return None
    if b.endswith("_or_token"):
        b = b[:-len("_or_token")]
        vd = b + ("(%s)" % param if param is not None else "")
    if b == "boolean":
        b = vd = "bool"
    if b in base.SCALAR:
        return base.has_type(vd, item, out)
    none_item = item is None or (isinstance(item, str) and item.lower() == "none")
    if b in ("event_handler", "event_posted"):
        return None if (out is None and none_item) or type(out) is str else "not a str: %r" % (out,)
    if b == "int_from_hex":
        return None if type(out) is int and out <= 255 else "not an int <= 255: %r" % (out,)
    if b == "color":
        if isinstance(out, tuple) and len(out) == 3 and all(type(x) is int for x in out):
            if not all(0 <= x <= 255 for x in out):
                o.ctx.count("obs_color_component_outside_0_255")
            return None
        return "not a 3-component colour: %r" % (out,)
    if b == "kivycolor":
        if out is None or isinstance(out, str):
            return None
        if isinstance(out, list) and all(isinstance(x, (int, float)) and not isinstance(x, bool) for x in out):
            if len(out) != 4:
                o.ctx.count("obs_kivycolor_not_4_components")
            elif not all(0 <= x <= 1 for x in out):
                o.ctx.count("obs_kivycolor_component_outside_0_1")
            return None
        return "not a colour list: %r" % (out,)
    if b == "gain":
        if out is None:
            return None if none_item else "None for a non-None item"
        if type(out) is not float:
            return "not a float: %r" % (out,)
        if out != out:
            o.ctx.count("obs_gain_nan")
            return None
        return None if 0.0 <= out <= 1.0 else "gain outside [0, 1]: %r" % (out,)
    if b.startswith("template_"):
        if out is None:
            return None if none_item else "None for a non-None item"
        pm = o.pm
        kind = b[len("template_"):]
        if isinstance(out, pm.NativeTypeTemplate):
            v = out.value
            good = {"float": type(v) is float, "secs": type(v) is float, "int": type(v) is int, "ms": type(v) is int,
                    "bool": type(v) is bool, "str": type(v) is str}.get(kind, False)
            return None if good else "constant template of the wrong type: %r" % (v,)
        want = {"float": (pm.FloatTemplate,), "secs": (pm.FloatTemplate,), "int": (pm.IntTemplate,), "ms": (pm.IntTemplate,),
                "bool": (pm.BoolTemplate,), "str": (pm.StringTemplate, pm.TextTemplate)}.get(kind, ())
        return None if isinstance(out, want) else "not a %s template: %r" % (kind, out)
    if b == "machine":
        if out is None:
            return None if none_item else "None for a non-None item"
        section = getattr(o.machine, param, None)
        try:
            return None if isinstance(item, str) and item in section and section[item] is out else \
                "not the device %r of %s: %r" % (item, param, out)
        except Exception:
            return "not a device of %s: %r" % (param, out)
    if b == "subconfig":
        if out == {} and none_item:
            return None
        names = param.split(",")
        return o.section_ok(names, item, out, depth + 1)
    if b == "dict":
        return None if isinstance(out, dict) else "not a dict: %r" % (out,)
    if b == "list":
        return None if isinstance(out, list) else "not a list: %r" % (out,)
    return None


class Oracle:
    def __init__(self, ctx, machine):
        from mpf.core.config_validator import RuntimeToken
        from mpf.core import placeholder_manager as pm
        self.ctx = ctx
        self.machine = machine
        self.RuntimeToken = RuntimeToken
        self.pm = pm
        self.spec = machine.config_validator.get_config_spec()

    def walk(self, name):
        d = self.spec
        for p in name.split(":"):
            d = d[p]
        return d

    def merged(self, names):
        m = {}
        for n in reversed(names):
            m.update(self.walk(n))
        return m

    def item_ok(self, parts, item, out, depth):
        itype, vd, _ = parts
        if itype == "single":
            return one_ok(self, vd, item, out, depth)
        if itype in ("list", "set"):
            if itype == "list" and type(out) is not list:
                return "not a list: %r" % (out,)
            if itype == "set" and type(out) is not set:
                return "not a set: %r" % (out,)
            if itype == "list" and isinstance(item, list) and len(out) != len(item):
                return "list of %d elements came back with %d" % (len(item), len(out))
            outs = list(out)
            for i, e in enumerate(outs):
                src = item[i] if (itype == "list" and isinstance(item, list)) else (None if e is None else "x")
                if isinstance(e, self.RuntimeToken):
                    src = "(%s)" % e.token
                if split_validator(vd)[0] == "machine" and e is not None:
                    src = getattr(e, "name", "x")
                why = one_ok(self, vd, src, e, depth)
                if why:
                    return "element %d: %s" % (i, why)
            return None
        if itype in ("dict", "event_handler"):
            if type(out) is not dict:
                return "not a dict: %r" % (out,)
            kv, vv = vd.split(":", 1)
            for k, v in out.items():
                ksrc = None if k is None else (getattr(k, "name", "x") if split_validator(kv)[0] == "machine" else "x")
                why = one_ok(self, kv, ksrc, k, depth)
                if why:
                    return "key %r: %s" % (k, why)
                vsrc = None if v is None else "x"
                if isinstance(item, dict):
                    cands = [x for kk, x in item.items() if kk == k or str(kk) == str(k)]
                    if cands:
                        vsrc = cands[0]
                if isinstance(v, self.RuntimeToken):
                    vsrc = "(%s)" % v.token
                if split_validator(vv)[0] == "machine" and v is not None:
                    vsrc = getattr(v, "name", "x")
                why = one_ok(self, vv, vsrc, v, depth)
                if why:
                    return "entry %r: %s" % (k, why)
            if isinstance(item, dict) and len(out) > len(item):
                return "dict grew"
            return None
        return None

    def section_ok(self, names, src, out, depth=0):
        """a returned section: dict, every non-ignored spec key present and typed (recursively), no key the spec does not
        know, no provided key dropped"""
        if depth > 12:
            return None
        if type(out) is not dict and not isinstance(out, dict):
            return "section result is not a dict: %r" % (out,)
        spec = self.merged(names)
        for k, v in spec.items():
            if k.startswith("_") or v == "ignore":
                continue
            if k not in out:
                return "spec key %s:%s missing" % (names[0], k)
            if isinstance(v, dict):
                if type(out[k]) is not list:
                    return "nested section %s:%s is not a list" % (names[0], k)
                srcs = src.get(k) if isinstance(src, dict) else None
                for i, e in enumerate(out[k]):
                    s_i = srcs[i] if isinstance(srcs, list) and i < len(srcs) else {}
                    why = self.section_ok([names[0] + ":" + k], s_i, e, depth + 1)
                    if why:
                        return why
                continue
            provided = isinstance(src, dict) and k in src
            item = src[k] if provided else (None if v[2].lower() == "none" else v[2])
            why = self.item_ok(v, item, out[k], depth)
            if why:
                return "%s:%s (%s|%s): %s" % (names[0], k, v[0], v[1], why)
        if "__allow_others__" not in spec:
            for k in out:
                if k not in spec:
                    if isinstance(k, str) and k[:1] == "_":
                        self.ctx.count("obs_underscore_key_kept_unvalidated")
                    else:
                        return "unknown key %r kept in %s" % (k, names[0])
        if isinstance(src, dict):
            for k in src:
                if k not in out:
                    return "provided key %r dropped from %s" % (k, names[0])
        return None


def sig_of(why, vd=None):
    """failure signature: the input class, not the instance"""
    if why.startswith("unknown key"):
        return "deep:unknown-key-accepted"
    if "missing" in why and why.startswith("spec key"):
        return "deep:spec-key-missing"
    if why.startswith("provided key"):
        return "deep:provided-key-dropped"
    if vd:
        return "ill-typed:" + split_validator(vd)[0]
    import re
    m = re.search(r"\((\w+)\|([^)(:]+)", why)
    if not m:
        return "deep:ill-typed"
    return "ill-typed:%s" % m.group(2) if m.group(1) == "single" else "ill-typed:%s|%s" % (m.group(1), m.group(2))


# ---------------------------------------------------------------------------------------------------------------------
# (c)(d) validator x value matrix

EXT_VALIDATORS = ["color", "color_or_token", "kivycolor", "gain", "int_from_hex", "event_handler", "event_posted", "boolean",
                  "template_float", "template_int", "template_bool", "template_secs", "template_ms", "template_str",
                  "template_float_or_token", "int_or_token", "int_or_token(0,10)", "float_or_token", "float_or_token(0,1)",
                  "num_or_token", "bool_or_token", "ms_or_token", "secs_or_token", "dict", "list",
                  "machine(switches)", "machine(coils)", "machine(lights)", "machine(playfields)", "machine(shows)",
                  "machine(no_such_collection)", "subconfig(coil_overwrites)", "subconfig(sound_ducking)",
                  "subconfig(lights,device)", "subconfig(credits_switches)"]
EXT_VALUES = [None, "", "none", "None", True, False, 0, 1, 5, 16, 255, 256, 123456, -1, 2.5, 0.5, 0.0, 1.0, NAN, float("inf"),
              float("-inf"), "red", "Red", "off", "white", "ff0000", "FF00aa", "#ff0000", "f00", "ff00001", "ff000080",
              "ff0000800", "gggggg", "255,0,0", "255, 0, 0", " 1 , 2 , 3 ", "1,2", "1,2,3,4", "300,0,0", "-1,0,0", "1.5,2,3",
              "a,b,c", "none,1,2", "1,none,2", "1_0,2,3", "0x10,1,1", "0", "16", "2", "-1", "0.5", "1.5", "1e-1", "1e3", "nan", "-inf", "inf", "-infinity",
              "-3db", "-6 dB", "0db", "6 db", "3.5DB", "nandb", "infdb", "db", "x", "ev", "ev{a==1}", "ev.2", "ev|2s",
              "ev{x>1}.3|1s", "ev{a==1, b==2}", "a, b", "ff", "FF", "0x1f", "0X1F", "1ff", "-ff", "1_0", "0x_1f", "_1", "1__0", "g", " ff ",
              "(tok)", "()", "(", ")(", "(a", "a)", "(machine.x)", "{x}", "a+1", "1 +", "current_player.x", "True", "yes",
              "1 if x else 2", "1s", "100ms", "1.5s", "2m", "s1", "S1", "s3", "c1", "l1", "playfield", " s1", "s1,s2",
              "s_long_name", [], [1, 2], ["s1"], [255, 0, 0], {}, {"a": 1}, {"a": "x", "b": [1]}, {"pulse_ms": 5},
              {"pulse_ms": "1s", "recycle": "yes"}, {"pulse_ms": "abc"}, {"zz_unknown": 1}, {"_private": 1},
              {"target": "t", "delay": 1}, {"number": 5}, {"switch": "s1", "type": "money", "value": 1}, {"switch": "s9", "value": 1},
              {"hold_power": 0.5, "pulse_ms": None}, {1: 2}]


def ext_matrix(ctx, cv, model, canon, o, VP, r):
    pairs = [(vd, i) for vd in EXT_VALIDATORS for i in range(len(EXT_VALUES))]
    second = list(pairs)
    r.shuffle(second)
    first = {}
    for rnd, order in enumerate((pairs, second)):
        for vd, idx in order:
            item = EXT_VALUES[idx]
            tt = ttok(item)
            case = {"kind": "xitem", "validator": vd, "item": tt if tt is not None else repr(item)}
            res = base.outcome(lambda: cv.validate_item(copy.deepcopy(item), vd, VP))
            shown = show_res(canon, res)
            b = split_validator(vd)[0]
            if rnd == 0:
                ctx.evaluated(case, True, sample=len(ctx.samples) < 8)
                first[(vd, idx)] = shown
            else:
                ctx.evaluated(dict(case, order="shuffled"), True, sample=False)
                if shown != first[(vd, idx)] and "?" not in shown:
                    ctx.fail("history-dependent:%s" % b, case, {"first": first[(vd, idx)], "later": shown})
                continue
            ctx.count("xvalidator_" + b)
            ctx.count("xitem_" + res[0].split(":")[0])
            if res[0] == "ok":
                why = one_ok(o, vd, item, res[1])
                if why:
                    ctx.fail(sig_of(why, vd), case, {"returned": repr(res[1])[:200], "why": why})
            elif res[0].startswith("raise"):
                ctx.count("non_config_error_" + res[0])
            if model is not None and tt is not None:
                s = syn_ok(item) if isinstance(item, str) else True
                if s is None:
                    ctx.count("unmodelled_xitem")
                    continue
                ans = model.ask("xitem %d %s %s" % (1 if s else 0, vd, tt))
                if ans == "unmodelled" or "?" in shown:
                    ctx.count("unmodelled_xitem")
                else:
                    ctx.compare(case, shown, ans)


XC_JOBS = [
    ("list", "machine(switches)", [None, "", "s1", "s1, s2", "s1,s3", "s1,,s2", ["s1", "s2"], ["s1", "c1"], [], ["s1", "s1"], "none", 5, [None], {"a": 1}]),
    ("set", "machine(switches)", [None, "s1", "s1, s2", "s1,s1", ["s2"], ["s1", "zz"], [], [["s1"]], [{"a": 1}]]),
    ("list", "machine(coils)", ["c1", "c1,c2", ["c2", "c1"], "s1"]),
    ("list", "subconfig(coil_overwrites)", [None, [], [{}], [{"pulse_ms": 5}, {"recycle": True}], [{"pulse_ms": 5}, {"zz": 1}], {"pulse_ms": 5},
                                           [None], ["none"], [[]], "a", [{"pulse_ms": "x"}], [{"_p": 1}]]),
    ("list", "subconfig(credits_switches)", [[{"switch": "s1", "value": 1}], [{"switch": "s1"}], [{"switch": "s1", "value": 1, "type": "money"}, {"switch": "s2", "value": "0.5"}],
                                            [{"switch": "nope", "value": 1}]]),
    ("list", "color", ["red", "red, blue", ["red", "00ff00"], ["1,2,3"], "1,2,3", [], ["Red"]]),
    ("list", "event_handler", ["a, b", "a{x==1, y==2}, b", ["a", "b{c}"], "", None, ["a", ""], "a,,b", 5]),
    ("list", "event_posted", ["a, b", "a{x}", ["a|1s"], None]),
    ("list", "template_int", ["1, a", [1, "2", "x+1"], [2.5], None]),
    ("list", "int_or_token", ["1,(t)", [1, "(t)", "x"], ["(t)"]]),
    ("list", "gain", [["0.5", "-3db", "x"], "0.5, 2", None]),
    ("dict", "str:machine(switches)", [None, {}, {"a": "s1"}, {"a": "s1", "b": "s9"}, {"a": None}, "None", [1], {"a": ["s1"]}]),
    ("dict", "machine(switches):str", [{"s1": "a"}, {"s9": "a"}, {"s1": "a", "s2": 5}]),
    ("dict", "str:subconfig(coil_overwrites)", [{"a": {"pulse_ms": 5}}, {"a": {"zz": 1}}, {"a": None, "b": {}}, {"a": "x"}, {"a": {"pulse_ms": 5}, "b": {"hold_power": 0.5}}]),
    ("dict", "str:color", [{"a": "red"}, {"a": "nope"}, {"a": "ff0000", "b": "1,2,3"}]),
    ("dict", "str:template_float", [{"a": "1.5"}, {"a": "x*2", "b": 3}, {"a": [1]}]),
    ("dict", "int:int_or_token", [{1: "(t)"}, {"1": 5, "2": "(x)"}, {"a": 1}]),
    ("dict", "str:gain", [{"a": "0.5", "b": "-inf"}, {"a": 2}]),
    ("event_handler", "event_handler:ms", [None, "None", "", "a", "a, b", "a{x==1}, b", ["a", "b"], {"a": 0}, {"a": "1s", "b": 250}, {"a": "x"},
                                         {"a{c}": "2s"}, 5, [["a"]], [{"a": 1}], ["a", "a"], "a|1s", "none", {"a": None}, {"a": 1.5}, True]),
]


def ext_citems(ctx, cv, model, canon, o, VP):
    for itype, vd, items in XC_JOBS:
        for item in items:
            tt = ttok(item)
            case = {"kind": "xcitem", "itype": itype, "validator": vd, "item": tt if tt is not None else repr(item)}
            res = base.outcome(lambda: cv.validate_config_item([itype, vd, "None"], VP, copy.deepcopy(item)))
            ctx.evaluated(case, True, sample=len(ctx.samples) < 10)
            ctx.count("xcitem_" + itype)
            ctx.count("xcitem_res_" + res[0].split(":")[0])
            if res[0] == "ok":
                why = o.item_ok([itype, vd, "None"], item, res[1], 0)
                if why:
                    ctx.fail("ill-typed:%s|%s" % (itype, vd.split("(")[0]), case, {"returned": repr(res[1])[:200], "why": why})
            shown = show_res(canon, res)
            if model is not None and tt is not None:
                ans = model.ask("xcitem %s %s %s %s" % (syn_flag(item), itype, vd, tt))
                if ans == "unmodelled" or "?" in shown:
                    ctx.count("unmodelled_xcitem")
                else:
                    if itype == "set" and ans.startswith("ok L"):
                        parts = ans[3:].split(",")
                        ans = "ok " + parts[0] + "".join(sorted("," + p for p in parts[1:]))
                    ctx.compare(case, shown, ans)


# ---------------------------------------------------------------------------------------------------------------------
# (a)(b) deep sections

GOOD = {
    "int": [0, 1, 5, "7", "1_0"], "float": [0.5, 1, "0.25", "1e-1"], "num": [1, 2.5, "3"], "bool": [True, False, "yes", "off", "Enable"],
    "boolean": [True, "no"], "str": ["x", 5, "a b"], "lstr": ["Ab"], "ms": [100, "1s", "250ms", "1.5s"], "secs": [1, "500ms", "2s", 0.5],
    "pow2": [2, 16, "8"], "bool_int": [True, "no"], "event_handler": ["ev_a", "ev_b{x==1}", "ev_c.2", "ev_d|1s"],
    "event_posted": ["ev_p", "ev_q{y}"], "int_from_hex": ["ff", "1f", 10], "color": ["red", "00ff00", "1,2,3", "white"],
    "kivycolor": ["red", "ff0000", "255,0,0,255"], "gain": ["0.5", 1, "-3db", "-inf"], "template_float": [1.5, "2", "x*2"],
    "template_int": [1, "2", "x+1"], "template_bool": [True, "x>1"], "template_secs": ["1s", 2, "x"], "template_ms": ["100ms", 5, "x"],
    "template_str": ["text", "{a.b}", "(x)"], "dict": [{}, {"a": 1}, None], "list": ["a,b", ["a"], None],
}
BAD = [None, "", "abc", -1, 2.5, NAN, [1, 2], {"a": 1}, True, "1,2", "(tok)", "zz", 10 ** 6, "1e3", " "]


class DeepGen:
    def __init__(self, r, o, env):
        self.r = r
        self.o = o
        self.env = env
        self.planted = []

    def scalar(self, vd, good):
        r = self.r
        b, param = split_validator(vd)
        if not good:
            return r.choice(BAD)
        if b.endswith("_or_token"):
            if r.random() < 0.25:
                return "(tok%d)" % r.randint(0, 3)
            b = b[:-len("_or_token")]
        if b == "enum":
            vals = param.split(",")
            v = r.choice(vals)
            return v.upper() if r.random() < 0.2 else v
        if b == "machine":
            names = self.env.get(param, [])
            return r.choice(names) if names else None
        if b in ("int", "float", "num") and param:
            lo, hi = param.split(",")
            lo_v = 0.0 if lo == "NONE" else float(lo)
            hi_v = lo_v + 10 if hi == "NONE" else float(hi)
            if lo == "NONE":
                lo_v = hi_v - 10
            if b == "int":
                import math
                a, c = math.ceil(lo_v), math.floor(hi_v)
                return r.choice([a, c, r.randint(a, c)]) if a <= c else a
            return r.choice([lo_v, hi_v, (lo_v + hi_v) / 2])
        if b in GOOD:
            return r.choice(GOOD[b])
        return "x"

    def one(self, vd, good, depth):
        b, param = split_validator(vd)
        if b == "subconfig":
            if not good:
                return self.r.choice([5, "x", [1], {"zz_unknown": 1}])
            if depth >= 4:
                return None
            return self.section(param.split(","), depth + 1)
        return self.scalar(vd, good)

    def item(self, parts, good, depth):
        r = self.r
        itype, vd, _ = parts
        if itype == "single":
            return self.one(vd, good, depth)
        if itype in ("list", "set"):
            n = r.choice([0, 1, 1, 2, 3]) if itype == "list" else r.choice([0, 1])
            els = [self.one(vd, good or r.random() < 0.5, depth) for _ in range(n)]
            b = split_validator(vd)[0]
            if els and all(isinstance(e, str) and "," not in e and "{" not in e and e.strip() == e and e for e in els) and r.random() < 0.4 \
                    and b != "subconfig":
                return ", ".join(els)
            if not good and r.random() < 0.3:
                return r.choice([{"a": 1}, "a,,b", [""], 5])
            return els
        if itype == "dict":
            kv, vv = vd.split(":", 1)
            if not good and r.random() < 0.4:
                return r.choice([[1], "x", 5])
            d = {}
            for i in range(r.choice([0, 1, 2])):
                k = self.one(kv, True, depth)
                if not isinstance(k, str) or k.lower() == "none":
                    k = "k%d" % i
                d[k] = self.one(vv, good or r.random() < 0.5, depth)
            return d if d or r.random() < 0.7 else None
        if itype == "event_handler":
            if not good:
                return r.choice([{"ev": "abc"}, [["a"]], {"ev": [1]}])
            c = r.random()
            if c < 0.4:
                return ", ".join("ev%d" % i for i in range(r.randint(1, 3)))
            if c < 0.6:
                return ["ev%d" % i for i in range(r.randint(0, 2))]
            return {"ev%d" % i: r.choice([0, "1s", 250, None]) for i in range(r.randint(0, 2))}
        return None

    def section(self, names, depth, p_bad=0.0, p_opt=0.35):
        r = self.r
        spec = self.o.merged(names)
        src = {}
        for k, v in spec.items():
            if k.startswith("__"):
                continue
            if v == "ignore":
                if r.random() < 0.1:
                    src[k] = r.choice([1, {"free": "form"}, [1, 2]])
                continue
            if isinstance(v, dict):
                if r.random() < 0.3 and depth < 4:
                    src[k] = [self.section([names[0] + ":" + k], depth + 1, p_bad) for _ in range(r.randint(0, 2))]
                continue
            required = v[2] == ""
            if required or r.random() < p_opt:
                good = r.random() >= p_bad
                if not good:
                    self.planted.append(("bad", depth, names[0], k))
                src[k] = self.item(v, good, depth)
        return src

    def nested_dicts(self, src, path=()):
        """all (path, dict) inside a generated source that are themselves sections (values of subconfig / nested keys)"""
        out = [(path, src)]
        return out


def reachable_sections(o, names, seen=None):
    seen = set() if seen is None else seen
    for n in names:
        if n in seen:
            continue
        seen.add(n)
        try:
            d = o.walk(n)
        except Exception:
            continue
        for k, v in d.items():
            if isinstance(v, dict):
                reachable_sections(o, [n + ":" + k], seen)
            elif isinstance(v, (list, tuple)) and len(v) == 3 and "subconfig(" in v[1]:
                import re
                for m in re.findall(r"subconfig\(([^)]*)\)", v[1]):
                    reachable_sections(o, m.split(","), seen)
    return seen


def plant(r, o, src, names, kind):
    """plant an unknown key / drop a required key somewhere inside the nested source; returns a description or None.
    Walks only through dict values of subconfig keys and list elements of nested / list|subconfig keys, so the planted
    spot is validated against a known section."""
    spots = []

    def walk(d, ns, depth):
        spec = o.merged(ns)
        spots.append((d, ns, depth, spec))
        for k, v in spec.items():
            if k not in d or k.startswith("_") or v == "ignore":
                continue
            if isinstance(v, dict):
                if isinstance(d[k], list):
                    for e in d[k]:
                        if isinstance(e, dict):
                            walk(e, [ns[0] + ":" + k], depth + 1)
                continue
            b, param = split_validator(v[1].split(":")[-1] if v[0] == "dict" else v[1])
            if b != "subconfig":
                continue
            sub = param.split(",")
            vals = [d[k]] if v[0] == "single" else (d[k] if isinstance(d[k], list) else (list(d[k].values()) if isinstance(d[k], dict) else []))
            for e in vals:
                if isinstance(e, dict):
                    walk(e, sub, depth + 1)
    walk(src, names, 0)
    deep = [s for s in spots if s[2] > 0] or spots
    d, ns, depth, spec = r.choice(deep)
    if kind == "unknown":
        if "__allow_others__" in spec:
            return None
        key = r.choice(["zz_unknown_key", "colour", "Enabled", "number "])
        if key in spec:
            return None
        d[key] = r.choice([1, "x", {"a": 1}])
        return {"plant": "unknown", "depth": depth, "section": ns[0], "key": key}
    if kind == "underscore":
        d["_private_note"] = 1
        return {"plant": "underscore", "depth": depth, "section": ns[0]}
    if kind == "omit":
        reqs = [k for k, v in spec.items() if isinstance(v, (list, tuple)) and len(v) == 3 and v[2] == "" and k in d]
        if not reqs:
            return None
        key = r.choice(reqs)
        del d[key]
        return {"plant": "omit", "depth": depth, "section": ns[0], "key": key}
    return None


def deep_sections(ctx, cv, model, canon, o, env, r, n):
    spec_all = o.spec
    tops = [s for s, d in spec_all.items() if isinstance(d, dict) and not s.startswith("_")]
    # sections that use subconfig / nested sections come round more often
    rich = [s for s in tops if any(isinstance(v, dict) or (isinstance(v, (list, tuple)) and "subconfig(" in v[1])
                                   for k, v in spec_all[s].items())]
    ctx.notes["deep_sections_total"] = len(tops)
    ctx.notes["deep_sections_with_subconfig_or_nested"] = len(rich)
    closure = {s: sorted(reachable_sections(o, [s])) for s in tops}
    for i in range(n):
        sec = tops[i % len(tops)] if i < len(tops) else (r.choice(rich) if r.random() < 0.7 else r.choice(tops))
        g = DeepGen(r, o, env)
        mode = r.random()
        p_bad = 0.0 if mode < 0.55 else 0.08
        src = g.section([sec], 0, p_bad=p_bad, p_opt=r.choice([0.15, 0.4, 0.8]))
        planted = None
        c = r.random()
        if c < 0.15:
            planted = plant(r, o, src, [sec], "unknown")
        elif c < 0.25:
            planted = plant(r, o, src, [sec], "omit")
        elif c < 0.30:
            planted = plant(r, o, src, [sec], "underscore")
        tt = ttok(src)
        case = {"kind": "xsec", "section": sec, "source": tt if tt is not None else repr(src)[:400]}
        if planted:
            case["planted"] = planted
        before = {s: copy.deepcopy(o.walk(s)) for s in closure[sec]}
        res = base.outcome(lambda: cv.validate_config(sec, copy.deepcopy(src), sec))
        depth = tt.count(",D") if tt else 0
        ctx.evaluated(case, True, sample=len(ctx.samples) < 14 and depth > 0)
        ctx.count("xsec_" + res[0].split(":")[0])
        ctx.count("xsec_nested_dicts_%s" % ("0" if depth == 0 else "1-2" if depth <= 2 else "3+"))
        if planted:
            ctx.count("xsec_planted_%s_depth%s" % (planted["plant"], min(planted["depth"], 3)))
        if res[0].startswith("raise"):
            ctx.count("non_config_error_" + res[0])
        for s in closure[sec]:
            if o.walk(s) != before[s]:
                ctx.fail("spec-modified", case, {"section": s})
                break
        if res[0] == "ok":
            ctx.count("xsec_ok_nested_%s" % ("0" if depth == 0 else "1-2" if depth <= 2 else "3+"))
            why = o.section_ok([sec], src, res[1])
            if why:
                ctx.fail(sig_of(why), case, {"why": why})
            elif planted and planted["plant"] == "unknown":
                ctx.fail("deep:unknown-key-accepted", case, {"planted": planted})
            elif planted and planted["plant"] == "omit":
                ctx.fail("deep:missing-required-accepted", case, {"planted": planted})
        if model is not None and tt is not None:
            shown = "reject" if res[0] != "ok" else "ok " + canon(res[1])
            ans = model.ask("xsec %s %s %s" % (syn_flag(src), sec, tt))
            if ans == "raise":
                ans = "reject"
            if ans == "unmodelled" or "?" in shown:
                ctx.count("unmodelled_xsec")
            else:
                ctx.count("xsec_compared")
                ctx.compare(case, shown, ans)


# ---------------------------------------------------------------------------------------------------------------------
# (e) __valid_in__

def valid_in(ctx, model, o):
    from mpf.core.config_processor import ConfigProcessor
    cp = ConfigProcessor(False, False)
    spec = o.spec
    for sec, d in spec.items():
        if not isinstance(d, dict):
            continue
        for ct in ("machine", "mode"):
            for ignore_unknown in (False, True):
                case = {"kind": "valid_in", "section": sec, "config_type": ct, "ignore_unknown": ignore_unknown}
                res = base.outcome(lambda: cp._check_sections(spec, {sec: {}}, ct, "verif.yaml", ignore_unknown))
                ctx.evaluated(case, True, sample=False)
                listed = ct in [x.strip() for x in str(d.get("__valid_in__", "")).split(",")]
                ctx.count("valid_in_%s_%s" % (ct, res[0].split(":")[0]))
                if res[0] == "ok" and not listed:
                    ctx.fail("valid-in:section-accepted-where-not-valid", case, {"valid_in": d.get("__valid_in__")})
                if model is not None and ":" not in sec:
                    ans = model.ask("validin %s %s" % (ct, sec))
                    if ans == "no-section":
                        ctx.count("unmodelled_valid_in")
                    else:
                        ctx.compare(case, "ok" if res[0] == "ok" else "reject", ans)
    for name in ("zz_no_such_section", "Switches", "switch"):
        for ignore_unknown in (False, True):
            case = {"kind": "valid_in", "section": name, "config_type": "machine", "ignore_unknown": ignore_unknown}
            res = base.outcome(lambda: cp._check_sections(spec, {name: {}}, "machine", "verif.yaml", ignore_unknown))
            ctx.evaluated(case, True, sample=False)
            if res[0] == "ok" and not ignore_unknown:
                ctx.fail("valid-in:unknown-section-accepted", case, {})


def run_ext(ctx, model, n_deep):
    from mpf.core.config_validator import ValidationPath
    from harness.common.vmachine import VMachine
    vm = VMachine(MACHINE_CONFIG).start()
    try:
        cv = vm.machine.config_validator
        o = Oracle(ctx, vm.machine)
        env = env_of(vm.machine, o.spec)
        env["no_such_collection"] = []
        canon = Canon(vm.machine, env)
        ctx.notes["machine_collections"] = {c: len(ns) for c, ns in env.items() if ns}
        if model is not None:
            if model.ask(env_line(env)) != "ok":
                raise RuntimeError("lean driver refused the env line")
        VP = ValidationPath(ValidationPath(None, "verif"), "item")
        ext_matrix(ctx, cv, model, canon, o, VP, ctx.rng("xmatrix"))
        ext_citems(ctx, cv, model, canon, o, VP)
        deep_sections(ctx, cv, model, canon, o, env, ctx.rng("deep"), n_deep)
        valid_in(ctx, model, o)
    finally:
        vm.stop()


# ---------------------------------------------------------------------------------------------------------------------
# replay

def untree(tt):
    """inverse of ttok"""
    toks = tt.split(",")

    def go(i):
        t = toks[i]
        if t[0] == "L" and t[1:].isdigit():
            out = []
            i += 1
            for _ in range(int(t[1:])):
                v, i = go(i)
                out.append(v)
            return out, i
        if t[0] == "D" and t[1:].isdigit():
            out = {}
            i += 1
            for _ in range(int(t[1:])):
                k, i = go(i)
                v, i = go(i)
                out[k] = v
            return out, i
        return base.untok(t), i + 1
    v, i = go(0)
    return v


def _item_of(c, key):
    try:
        return untree(c[key])
    except Exception:
        return eval(c[key], {"nan": NAN, "inf": float("inf")})      # the repr fallback of inexpressible items (harness data only)


def replay_ext(ctx, c):
    from mpf.core.config_validator import ValidationPath
    from harness.common.vmachine import VMachine
    vm = VMachine(MACHINE_CONFIG).start()
    try:
        cv = vm.machine.config_validator
        o = Oracle(ctx, vm.machine)
        VP = ValidationPath(ValidationPath(None, "verif"), "item")
        if c["kind"] == "xitem":
            item = _item_of(c, "item")
            res = base.outcome(lambda: cv.validate_item(copy.deepcopy(item), c["validator"], VP))
            if res[0] == "ok":
                why = one_ok(o, c["validator"], item, res[1])
                if why:
                    ctx.fail(sig_of(why, c["validator"]), c, {"returned": repr(res[1])[:200], "why": why})
        elif c["kind"] == "xcitem":
            item = _item_of(c, "item")
            res = base.outcome(lambda: cv.validate_config_item([c["itype"], c["validator"], "None"], VP, copy.deepcopy(item)))
            if res[0] == "ok":
                why = o.item_ok([c["itype"], c["validator"], "None"], item, res[1], 0)
                if why:
                    ctx.fail("ill-typed:%s|%s" % (c["itype"], c["validator"].split("(")[0]), c, {"why": why})
        elif c["kind"] == "xsec":
            src = _item_of(c, "source")
            res = base.outcome(lambda: cv.validate_config(c["section"], copy.deepcopy(src), c["section"]))
            if res[0] == "ok":
                why = o.section_ok([c["section"]], src, res[1])
                planted = c.get("planted") or {}
                if why:
                    ctx.fail(sig_of(why), c, {"why": why})
                elif planted.get("plant") == "unknown":
                    ctx.fail("deep:unknown-key-accepted", c, {"planted": planted})
                elif planted.get("plant") == "omit":
                    ctx.fail("deep:missing-required-accepted", c, {"planted": planted})
        elif c["kind"] == "valid_in":
            from mpf.core.config_processor import ConfigProcessor
            res = base.outcome(lambda: ConfigProcessor(False, False)._check_sections(
                o.spec, {c["section"]: {}}, c["config_type"], "verif.yaml", c["ignore_unknown"]))
            d = o.spec.get(c["section"])
            if res[0] == "ok" and isinstance(d, dict):
                if c["config_type"] not in [x.strip() for x in str(d.get("__valid_in__", "")).split(",")]:
                    ctx.fail("valid-in:section-accepted-where-not-valid", c, {})
            elif res[0] == "ok" and not c["ignore_unknown"]:
                ctx.fail("valid-in:unknown-section-accepted", c, {})
    finally:
        vm.stop()
