"""C18 extension: state machine devices (mpf/devices/state_machine.py) as a fourth kind of block.

The text of C18 names counters, accruals and sequences; a state machine is therefore compared against its Lean model
(lean/MpfVerif/Model/StateMachine.lean, `sm ...` lines of the C18 driver) and counted, but never reported through
ctx.fail.  Real device: machine-wide, owned by a non-game mode, or owned by a game mode (persist_state, 1-3 players,
ball drains, extra balls, game end + second game).  Observed after every op: the current state, every player's stored state
(`state_machine_<name>` player variable) and every posted events_when_started / events_when_stopped /
events_when_transitioning event, in posting order.
"""
from harness.common.util import InfraError

NAME = "sm"
TICK = 0.125


def gen_cfg(r, where=None):
    n = r.choice([2, 3, 3, 4])
    n_ev = r.choice([1, 2, 2, 3])
    where = where or r.choice(["machine", "machine", "mode", "game", "game"])
    cfg = {"kind": "state_machine", "where": where, "n": n, "n_ev": n_ev, "start": r.randrange(n) if r.random() < 0.3 else 0,
           "on": [r.random() < 0.6 for _ in range(n)], "off": [r.random() < 0.6 for _ in range(n)], "trans": [],
           "persist": where == "game" and r.random() < 0.8, "players": r.choice([1, 2, 2, 3]) if where == "game" else 1}
    for _ in range(r.choice([1, 2, 3, 3, 4, 5])):
        src = sorted(r.sample(range(n), r.choice([1, 1, 1, 2, n])))
        evs = [r.randrange(n_ev) for _ in range(r.choice([1, 1, 1, 2]))]        # the same event twice is possible
        cfg["trans"].append({"src": src, "tgt": r.randrange(n), "events": evs, "post": r.random() < 0.6})
    if r.random() < 0.4 and cfg["trans"]:
        # two transitions on one event out of one state (the second handler survives the first one's state change)
        t = r.choice(cfg["trans"])
        cfg["trans"].append({"src": [t["src"][0]], "tgt": r.randrange(n), "events": [t["events"][0]], "post": r.random() < 0.6})
    if r.random() < 0.3 and cfg["trans"]:
        # a chain on one event: the target state has its own transition on the same event (must NOT run in the same dispatch)
        t = r.choice(cfg["trans"])
        cfg["trans"].append({"src": [t["tgt"]], "tgt": r.randrange(n), "events": [t["events"][0]], "post": True})
    return cfg


def gen_ops(r, cfg, n):
    ops = []
    where = cfg["where"]
    loaded = where != "mode"
    if not loaded:
        ops.append(["load"])
        loaded = True
    while len(ops) < n:
        x = r.random()
        if x < 0.7 or where == "machine":
            ops.append(["ev", r.randrange(cfg["n_ev"] + 1) if r.random() < 0.1 else r.randrange(cfg["n_ev"])])
        elif where == "game" and x < 0.85:
            ops.append(["drain", "xb"] if r.random() < 0.25 else ["drain"])
        elif where == "game" and x < 0.9:
            ops.append(["newgame"])
        else:
            ops.append(["unload"] if loaded else ["load"])
            loaded = not loaded
            if not loaded and r.random() < 0.4:
                ops.append(["ev", r.randrange(cfg["n_ev"])])       # an event while the owning mode is not running
            if not loaded and (where == "game" or r.random() < 0.6):
                ops.append(["load"])
                loaded = True
    if where == "game" and not loaded:
        ops.append(["load"])
    return ops


def yaml_of(cfg):
    L = ["state_machines:", "  %s:" % NAME, "    starting_state: st%d" % cfg["start"]]
    if cfg["persist"]:
        L.append("    persist_state: true")
    L.append("    states:")
    for i in range(cfg["n"]):
        L += ["      st%d:" % i, "        label: state %d" % i]
        if cfg["on"][i]:
            L.append("        events_when_started: %s_st%d_on" % (NAME, i))
        if cfg["off"][i]:
            L.append("        events_when_stopped: %s_st%d_off" % (NAME, i))
    L.append("    transitions:")
    for j, t in enumerate(cfg["trans"]):
        L += ["      - source: %s" % ", ".join("st%d" % i for i in t["src"]), "        target: st%d" % t["tgt"],
              "        events: %s" % ", ".join("%s_e%d" % (NAME, k) for k in t["events"])]
        if t["post"]:
            L.append("        events_when_transitioning: %s_tr%d" % (NAME, j))
    return "\n".join(L) + "\n"


def model_cfg_line(cfg):
    b = lambda x: "1" if x else "0"
    tr = " ".join("%s>%d:%s:%s" % (",".join(map(str, t["src"])), t["tgt"], ",".join(map(str, t["events"])), b(t["post"]))
                  for t in cfg["trans"])
    return ("sm cfg %d %d %s %s %s %s %s" % (cfg["n"], cfg["start"], b(cfg["persist"]), b(cfg["where"] == "machine"),
                                            "".join(b(x) for x in cfg["on"]), "".join(b(x) for x in cfg["off"]), tr)).rstrip()


class RealSM:
    def __init__(self, cfg):
        from harness.common.vmachine import VMachine, BootError
        self.cfg = cfg
        body, where = yaml_of(cfg), cfg["where"]

        def build():
            if where == "mode":
                return VMachine("modes:\n  - m1\n", modes={"m1": "mode:\n  start_events: m1_start\n  stop_events: m1_stop\n"
                                                               "  game_mode: false\n" + body})
            if where == "game":
                main = ("modes:\n  - m1\ngame:\n  balls_per_game: 60\n  max_players: 4\nswitches:\n  s_start:\n"
                        "    number: 1\n    tags: start\n")
                return VMachine(main, modes={"m1": "mode:\n  start_events: ball_started, m1_start\n  stop_events: m1_stop\n"
                                                   "  priority: 200\n" + body}, game=True)
            return VMachine(body)
        self.vm = build()
        for attempt in range(3):
            try:
                self.vm.start()
                break
            except BootError as e:
                if "Start took more than" not in str(e) or attempt == 2:
                    raise InfraError("boot failed: %s" % e)
                self.vm = build()
        self.vm.align()
        m = self.vm.machine
        self.dev = m.state_machines[NAME]
        self.log = []
        self.next_player = None
        for i in range(cfg["n"]):
            m.events.add_handler("%s_st%d_on" % (NAME, i), self._make("on:%d" % i))
            m.events.add_handler("%s_st%d_off" % (NAME, i), self._make("off:%d" % i))
        for j in range(len(cfg["trans"])):
            m.events.add_handler("%s_tr%d" % (NAME, j), self._make("tr:%d" % j))
        if where == "game":
            def _add_ball(**kwargs):
                m.playfield.balls += 1
                m.playfield.available_balls += 1
            m.playfield.add_ball = _add_ball
            m.ball_controller.num_balls_known = 3
            self.start_game()

    def _make(self, text):
        def handler(**kwargs):
            self.log.append(text)
        return handler

    def settle(self, cond=None):
        for _ in range(8):
            self.vm.run()
        if cond is not None:
            for _ in range(40):
                if cond():
                    break
                self.vm.run()
            for _ in range(8):
                self.vm.run()

    def start_game(self):
        m = self.vm.machine
        for _ in range(self.cfg["players"]):
            self.vm.hit_switch("s_start", 1)
            self.vm.hit_switch("s_start", 0)
            self.settle()
        self.settle(lambda: m.game is not None and m.modes["m1"].active)
        self.vm.advance(TICK)
        self.settle()
        if m.game is None or len(m.game.player_list) != self.cfg["players"] or not m.modes["m1"].active:
            raise InfraError("game with %d players did not start" % self.cfg["players"])

    def idx(self, name):
        if name is None or name == 0:
            return "-"
        return name[2:] if isinstance(name, str) and name.startswith("st") else "?%r" % (name,)

    def observe(self):
        d = self.dev
        loaded = d.player is not None or d._state is not None if self.cfg["where"] != "machine" else True
        line = "st=%s" % (self.idx(d.state) if loaded else "-")
        if self.cfg["persist"]:
            g = self.vm.machine.game
            out = []
            for p in range(4):
                v = None
                if g is not None and p < len(g.player_list) and g.player_list[p].is_player_var("state_machine_%s" % NAME):
                    v = g.player_list[p]["state_machine_%s" % NAME]
                out.append(self.idx(v))
            line += " s=" + "/".join(out)
        evs = "".join(" " + e for e in self.log)
        self.log = []
        return line + " |" + evs

    def op(self, op):
        vm, m = self.vm, self.vm.machine
        name = op[0]
        self.next_player = None
        try:
            if name == "ev":
                vm.post("%s_e%d" % (NAME, op[1]))
                vm.run()
            elif name == "load":
                vm.post("m1_start")
                vm.run()
                self.settle()
                if not m.modes["m1"].active:
                    raise InfraError("mode m1 did not start")
            elif name == "unload":
                vm.post("m1_stop")
                vm.run()
                self.settle()
                if m.modes["m1"].active:
                    raise InfraError("mode m1 did not stop")
            elif name == "drain":
                if len(op) > 1:
                    m.game.player.extra_balls += 1
                for _ in range(m.game.balls_in_play):
                    r = vm.tc.post_relay_event_with_params("ball_drain", balls=1)
                    m.playfield.balls -= r["balls"]
                    m.playfield.available_balls -= r["balls"]
                self.settle(lambda: m.game is not None and m.game.player is not None and m.modes["m1"].active)
                vm.advance(TICK)
                self.settle()
                if m.game is None or m.game.player is None or not m.modes["m1"].active:
                    raise InfraError("no next ball after drain")
                self.next_player = m.game.player.index
            elif name == "newgame":
                m.game.end_game()
                self.settle()
                vm.advance(TICK)
                self.settle()
                if m.game is not None or m.modes["m1"].active:
                    raise InfraError("game did not end")
                m.playfield.balls = m.playfield.available_balls = 0
                self.start_game()
            else:
                raise InfraError("unknown sm op %r" % (op,))
        except InfraError:
            raise
        except BaseException as e:
            cause = e
            while getattr(cause, "__cause__", None) is not None:
                cause = cause.__cause__
            self.log = []
            return "crash %s" % type(cause).__name__
        return self.observe()

    def close(self):
        self.vm.stop()


def model_lines(cfg, op, env, next_player):
    name = op[0]
    if name == "ev":
        return ["sm ev %d" % op[1]]
    if name == "unload":
        return ["sm stop"]
    if name == "load":
        return ["sm start %d" % env["cur"]]
    if name == "drain":
        want = env["cur"] if len(op) > 1 else (env["cur"] + 1) % cfg["players"]
        env["rotation_ok"] = next_player is None or next_player == want
        env["cur"] = want
        return ["sm stop", "sm start %d" % want]
    if name == "newgame":
        env["cur"] = 0
        return ["sm stop", "sm newgame", "sm start 0"]
    raise InfraError("unknown sm op %r" % (op,))


def merge(lines):
    if len(lines) == 1:
        return lines[0]
    if any(" |" not in l for l in lines):
        return " / ".join(lines)
    return lines[-1].split(" |")[0] + " |" + "".join(l.split(" |", 1)[1] for l in lines)


def run_case(ctx, model, cfg, ops, sample=True):
    """one state-machine case: implementation vs model after every op (comparison and counters only)"""
    case = {"cfg": cfg, "ops": ops}
    real = RealSM(cfg)
    flags = set()
    try:
        if model is not None:
            a = model.ask(model_cfg_line(cfg))
            if not a.startswith("ok"):
                raise InfraError("model rejected sm cfg: %r -> %r" % (cfg, a))
            if cfg["where"] == "game":
                model.ask("sm start 0")
        first = real.observe()
        env = {"cur": 0, "rotation_ok": True}
        if model is not None:
            ctx.compare(dict(case, at=-1), first.split(" |")[0], model.ask("sm ev 99").split(" |")[0])
        for i, op in enumerate(ops):
            before = first.split(" |")[0] if i == 0 else impl.split(" |")[0]
            impl = real.op(op)
            lines = model_lines(cfg, op, env, real.next_player)
            if not env["rotation_ok"]:
                raise InfraError("player rotation differs from the harness's expectation")
            if op[0] == "ev":
                evs = impl.split(" |", 1)[1].split() if " |" in impl else []
                n_tr = sum(1 for t in cfg["trans"] for k in t["events"] if k == op[1])
                if not evs and impl.split(" |")[0] == before:
                    flags.add("event-ignored" if n_tr else "event-unknown")
                else:
                    flags.add("transition")
                cur = before.split()[0][3:]
                if cur.isdigit():
                    hits = [t for t in cfg["trans"] for k in t["events"] if k == op[1] and int(cur) in t["src"]]
                    if len(hits) > 1:
                        flags.add("several-handlers-on-one-event")
                        if any(int(cur) not in t["src"] or hits[0]["tgt"] not in t["src"] for t in hits[1:]):
                            flags.add("obs:state_machine_stale_handler_transition_from_non_source_state")
            elif op[0] in ("load", "drain") and cfg["persist"] and " |" in impl and not impl.split(" |", 1)[1].strip():
                flags.add("state-restored")
            if op[0] == "newgame":
                flags.add("second-game")
            if impl.startswith("crash"):
                flags.add("crash")
            if model is not None:
                ctx.compare(dict(case, at=i, op=op), impl, merge([model.ask(l) for l in lines]))
            if impl.startswith("crash"):
                break
    finally:
        real.close()
    ctx.evaluated(case, bool(flags & {"transition", "state-restored"}), sample=sample)
    for op in ops:
        ctx.count("sm_op_" + op[0])
    for f in flags:
        ctx.count("observed_outside_property_" + f[4:] if f.startswith("obs:") else "sm_branch_" + f)
    ctx.count("kind_state_machine")
    ctx.count("sm_where_" + cfg["where"])


CORPUS = [
    # two transitions on one event out of st0: both handlers run, the second one from st1 (not one of its sources)
    ({"kind": "state_machine", "where": "machine", "n": 3, "n_ev": 2, "start": 0, "on": [True, True, True], "off": [True, True, True],
      "trans": [{"src": [0], "tgt": 1, "events": [0], "post": True}, {"src": [0], "tgt": 2, "events": [0], "post": True},
                {"src": [1, 2], "tgt": 0, "events": [1], "post": False}], "persist": False, "players": 1},
     [["ev", 1], ["ev", 0], ["ev", 0], ["ev", 1], ["ev", 2]]),
    # a chain st0 -e0-> st1 -e0-> st2 advances one state per event; the event listed twice in one transition
    ({"kind": "state_machine", "where": "mode", "n": 3, "n_ev": 1, "start": 0, "on": [True, False, True], "off": [False, True, True],
      "trans": [{"src": [0], "tgt": 1, "events": [0], "post": True}, {"src": [1], "tgt": 2, "events": [0, 0], "post": True}],
      "persist": False, "players": 1},
     [["ev", 0], ["load"], ["ev", 0], ["ev", 0], ["unload"], ["ev", 0], ["load"], ["ev", 0]]),
    # persist_state: each player keeps his state over balls, an extra ball, and loses it with the game
    ({"kind": "state_machine", "where": "game", "n": 3, "n_ev": 2, "start": 0, "on": [True, True, False], "off": [True, False, True],
      "trans": [{"src": [0], "tgt": 1, "events": [0], "post": True}, {"src": [1], "tgt": 2, "events": [0], "post": False},
                {"src": [0, 1, 2], "tgt": 0, "events": [1], "post": True}], "persist": True, "players": 2},
     [["ev", 0], ["drain"], ["ev", 0], ["ev", 0], ["drain"], ["ev", 0], ["drain", "xb"], ["unload"], ["ev", 1], ["load"],
      ["drain"], ["newgame"], ["ev", 0], ["drain"], ["ev", 1]]),
]


def run(ctx, model, n):
    for cfg, ops in CORPUS:
        run_case(ctx, model, cfg, ops)
    for i in range(n):
        r = ctx.rng("sm", i)
        cfg = gen_cfg(r)
        run_case(ctx, model, cfg, gen_ops(r, cfg, r.randint(6, 22)))
