"""C16 support, conditional event handlers: `event{condition}` handlers and conditional config-player entries on a real machine.

A *group* is one generated machine config (variable_player / event_player entries keyed `cevN{condition}` machine-wide, in the
non-game mode m1 (priority 300) and in the game mode m2 (priority 200), each variable_player entry with per-variable
`var{condition}` items and each event_player entry with `target{condition}` items); a *case* of the group is: an idempotent
pre-state, plain handlers registered with `add_handler("cevN{condition}", callback, priority, **handler_kwargs)` whose callbacks
change machine variables / the setting / player variables / the counter (value, enabled) and may return a dict (relay) or False
(boolean), and one post (post / post_relay / post_boolean / post_queue) with kwargs.

Observation: at post time every RegisteredHandler of the event is replaced (in the harness process) by a copy whose callback
records a snapshot of all readable locations on entry and on exit, the kwargs it got and its result.  Expression trees, rendering,
model tokens and the CPython oracle are those of tmpl_c16.
"""
from harness.common.tmpl_c16 import (ABSENT, FLOATS, INTS, STRS, cpython, expected_out, render)
from harness.common.util import InfraError

CLOCS = ["machine.a", "machine.b", "machine.n0", "machine.n1", "settings.s1", "current_player.p", "current_player.score",
         "device.counters.c1.value", "device.counters.c1.enabled"]
EVENTS = ["cev0", "cev1"]
TARGETS = ["fired_0", "fired_1", "fired_2", "fired_3"]
KW = ["x", "y", "z"]
POSTS = ["post", "post", "relay", "relay", "queue", "boolean"]

BASE = """
modes:
  - m1
  - m2
settings:
  s1:
    label: s1
    values:
      0: zero
      1: one
      2: two
    default: 0
    key_type: int
    sort: 1
counters:
  c1:
    count_events: c1_count
    starting_count: 0
"""
MODE_HEAD = {"m1": "mode:\n  start_events: start_m1\n  stop_events: stop_m1\n  game_mode: false\n  priority: 300\n",
             "m2": "mode:\n  start_events: start_m2\n  stop_events: stop_m2\n  priority: 200\n"}


# ---------------------------------------------------------------------------------------------------------------------
# generators
# ---------------------------------------------------------------------------------------------------------------------
def loc_tree(r, loc):
    p = loc.split(".")
    e = ("v", p[0])
    for i, name in enumerate(p[1:]):
        if p[0] in ("machine", "current_player") and r.random() < 0.2:
            e = ("x", e, ("k", name))
        else:
            e = ("a", e, name)
    return e


def gen_leaf(r, locs):
    x = r.random()
    if x < 0.5:
        return loc_tree(r, r.choice(locs))
    if x < 0.7:
        return ("v", r.choice(KW + (["q"] if r.random() < 0.1 else [])))
    if x < 0.9:
        return ("k", r.choice([0, 1, 1, 2, 3, -1]))
    return ("k", r.choice([True, False, None, "a", "ab", "", 1.5, 0.0]))


def gen_cond(r, locs, budget=None):
    """a condition biased to compare a changeable location / kwarg with a small constant"""
    budget = r.choice([1, 2, 2, 2, 3, 4]) if budget is None else budget
    x = r.random()
    if budget <= 1:
        if x < 0.25:
            return gen_leaf(r, locs)          # truthiness of a value
        a = loc_tree(r, r.choice(locs)) if r.random() < 0.75 else ("v", r.choice(KW))
        if r.random() < 0.15:
            a = ("o", r.choice(["Add", "Sub", "Mult", "Mod"]), a, ("k", r.choice([1, 2, -1])))
        return ("c", r.choice(["Eq", "Eq", "Eq", "NotEq", "Lt", "Gt", "LtE", "GtE"]), a,
                ("k", r.choice([0, 0, 1, 1, 2, 3])) if r.random() < 0.85 else gen_leaf(r, locs))
    if x < 0.12:
        return ("u", "Not", gen_cond(r, locs, budget - 1))
    if x < 0.85:
        return ("l", r.choice(["And", "Or"]), gen_cond(r, locs, budget // 2), gen_cond(r, locs, budget - budget // 2))
    if x < 0.93:
        return ("?", gen_cond(r, locs, 1), gen_cond(r, locs, 1), gen_cond(r, locs, 1))
    return ("c", r.choice(["Eq", "Lt", "Gt"]), ("o", r.choice(["Add", "Sub"]), gen_leaf(r, locs), gen_leaf(r, locs)), gen_leaf(r, locs))


def gen_pool(r):
    """the 2-3 conditions of a group; all handlers draw from them (identical strings share one template object)"""
    locs = r.sample(CLOCS, r.choice([1, 2, 2, 3]))
    if r.random() < 0.5 and "machine.a" not in locs:
        locs.append("machine.a")
    pool = []
    while len(pool) < r.choice([1, 2, 2, 3]):
        c = gen_cond(r, locs)
        if c not in pool:
            pool.append(c)
    return pool, locs


def gen_act(r, locs, game):
    """an action of a plain handler, biased to a location the conditions read"""
    loc = r.choice(locs) if r.random() < 0.8 else r.choice(CLOCS)
    p = loc.split(".")
    if p[0] == "machine":
        return ("mvar", p[1], r.choice([0, 1, 1, 2, 3]) if p[1] in ("n0", "n1") or r.random() < 0.8 else
                r.choice(["a", "", None, 1.5, True]))
    if p[0] == "settings":
        return ("setting", "s1", r.choice([0, 1, 2]))
    if p[0] == "current_player":
        if not game:
            return ("mvar", "a", r.choice([0, 1, 2]))
        return ("pvar", p[1], r.choice([0, 1, 2, 3]) if p[1] == "score" or r.random() < 0.8 else r.choice(["a", 1.5]))
    if p[3] == "value":
        return ("counter", r.choice([0, 1, 2, 3]))
    return ("cen", r.random() < 0.5)


def gen_group(r):
    pool, locs = gen_pool(r)
    entries = []
    used = set()
    for _ in range(r.choice([2, 3, 4, 5, 6])):
        sec = r.choice(["vp", "vp", "ep"])
        where = r.choice(["g", "m1", "m2"])
        ev = r.choice(EVENTS if r.random() < 0.3 else EVENTS[:1])
        cond = r.choice(pool) if r.random() < 0.9 else None
        prio = r.choice([0, 0, 0, 1, 5, 150])
        key = (sec, where, event_key(ev, prio, cond))
        if key in used:
            continue
        used.add(key)
        items = []
        if sec == "vp":
            seen = set()
            for _ in range(r.choice([1, 1, 2, 3])):
                lp = [l for l in locs if l.startswith("machine.") or (where == "m2" and l.startswith("current_player."))]
                loc = r.choice(lp) if lp and r.random() < 0.8 else r.choice(["machine.a", "machine.b", "machine.n0", "machine.n1"])
                var = loc.split(".")[1]
                if var in seen:
                    continue
                seen.add(var)
                player = loc.startswith("current_player.")
                if var in ("n0", "n1", "score") and r.random() < 0.6:
                    action, val = ("add" if player else "add_machine"), r.choice([1, 1, 2, -1])
                else:
                    action, val = ("set" if player else "set_machine"), r.choice([0, 1, 1, 2, 3])
                items.append([var, r.choice(pool) if r.random() < 0.5 else None, action, val])
        else:
            ok = [c for c in pool if bare(c) is not None]
            for t in r.sample(TARGETS, r.choice([1, 2])):
                items.append([t, r.choice(ok) if ok and r.random() < 0.7 else None])
        entries.append({"sec": sec, "where": where, "ev": ev, "prio": prio, "cond": cond, "items": items})
    return {"entries": entries, "pool": pool, "locs": locs}


def gen_case(r, group):
    pool, locs = group["pool"], group["locs"]
    game = r.random() < 0.6
    pre = [("game", game), ("mode", "m1", r.random() < 0.8), ("mode", "m2", r.random() < 0.8)]
    for v in ("a", "b", "n0", "n1"):
        pre.append(("mvar", v, r.choice([0, 0, 1, 1, 2]) if r.random() < 0.85 else r.choice(["a", None, 1.5, True])))
    pre.append(("setting", "s1", r.choice([0, 1, 2])))
    pre.append(("counter", r.choice([0, 0, 1, 2])))
    pre.append(("cen", r.random() < 0.7))
    if game:
        pre.append(("pvar", "p", r.choice([0, 0, 1, 2, "a"])))
        pre.append(("pvar", "score", r.choice([0, 0, 1, 2])))
    ev = r.choice(EVENTS if r.random() < 0.3 else EVENTS[:1])
    kind = r.choice(POSTS)
    handlers = []
    for _ in range(r.choice([0, 1, 2, 2, 3, 3, 4])):
        cond = r.choice(pool) if r.random() < 0.9 else None
        if r.random() < 0.08:
            cond = gen_cond(r, locs)
        h = {"prio": r.choice([1, 1, 2, 5, 100, 250, 301, 301, 400]), "cond": cond, "kw": {}, "acts": [], "ret": None}
        if r.random() < 0.15:
            h["kw"] = {r.choice(KW): r.choice([0, 1, 2])}
        for _ in range(r.choice([0, 1, 1, 1, 2])):
            h["acts"].append(gen_act(r, locs, game))
        if kind == "relay" and r.random() < 0.7:
            h["ret"] = {r.choice(KW): r.choice([0, 0, 1, 2, 3]) for _ in range(r.choice([1, 1, 2]))}
        elif kind == "boolean" and r.random() < 0.3:
            h["ret"] = False
        handlers.append(h)
    kwargs = {k: r.choice([0, 1, 1, 2, 3]) for k in KW if r.random() < 0.7}
    return {"pre": pre, "handlers": handlers, "post": {"ev": ev, "kind": kind, "kwargs": kwargs}}


# ---------------------------------------------------------------------------------------------------------------------
# config text
# ---------------------------------------------------------------------------------------------------------------------
def cond_text(c):
    return render(c, "mpf")


def bare(c):
    """the condition without any parenthesis, or None when precedence would change its meaning (event_player takes a target
    containing `(` for a dynamic event name and drops the condition)"""
    from harness.common.tmpl_c16 import CMP
    k = c[0]
    if k == "k":
        return repr(c[1]) if not (isinstance(c[1], (int, float)) and not isinstance(c[1], bool) and c[1] < 0) else None
    if k == "v":
        return c[1]
    if k == "a":
        b = bare(c[1])
        return None if b is None or c[1][0] not in ("v", "a", "x") else b + "." + c[2]
    if k == "x":
        b, i = bare(c[1]), bare(c[2])
        return None if b is None or i is None or c[1][0] not in ("v", "a", "x") or c[2][0] != "k" else "%s[%s]" % (b, i)
    if k == "c" and c[2][0] in "kvax" and c[3][0] in "kvax":
        a, b = bare(c[2]), bare(c[3])
        return None if a is None or b is None else "%s %s %s" % (a, CMP[c[1]], b)
    if k == "l" and c[2][0] in "ckvax" and c[3][0] in "ckvax":
        a, b = bare(c[2]), bare(c[3])
        return None if a is None or b is None else "%s %s %s" % (a, c[1].lower(), b)
    if k == "u" and c[1] == "Not" and c[2][0] in "ckvax":
        a = bare(c[2])
        return None if a is None else "not " + a
    return None


def event_key(ev, prio, cond):
    return ev + (".%d" % prio if prio else "") + ("{%s}" % cond_text(cond) if cond is not None else "")


def yq(s):
    return '"' + s.replace("\\", "\\\\").replace('"', '\\"') + '"'


def section_text(entries, sec):
    name = {"vp": "variable_player", "ep": "event_player"}[sec]
    out = ""
    for e in entries:
        if e["sec"] != sec:
            continue
        out += "  %s:\n" % yq(event_key(e["ev"], e["prio"], e["cond"]))
        for it in e["items"]:
            if sec == "vp":
                out += "    %s:\n      action: %s\n      int: %d\n" % (
                    yq(it[0] + ("{%s}" % cond_text(it[1]) if it[1] is not None else "")), it[2], it[3])
            else:
                out += "    - %s\n" % yq(it[0] + ("{%s}" % bare(it[1]) if it[1] is not None else ""))
    return (name + ":\n" + out) if out else ""


def config_of(group):
    cfg = BASE
    modes = {}
    for where in ("g", "m1", "m2"):
        es = [e for e in group["entries"] if e["where"] == where]
        text = section_text(es, "vp") + section_text(es, "ep")
        if where == "g":
            cfg += text
        else:
            modes[where] = MODE_HEAD[where] + text
    return cfg, modes


# ---------------------------------------------------------------------------------------------------------------------
# the real machine
# ---------------------------------------------------------------------------------------------------------------------
class CondReal:
    def __init__(self, group):
        from harness.common.vmachine import VMachine
        self.group = group
        cfg, modes = config_of(group)
        self.vm = VMachine(cfg, modes=modes, game=True).start()
        self.m = m = self.vm.machine
        self.broken = False
        self.vm.align(1.0)

        def _add_ball(**kwargs):
            m.playfield.balls += 1
            m.playfield.available_balls += 1
        m.playfield.add_ball = _add_ball
        m.ball_controller.num_balls_known = 3
        self.fired = []
        for t in TARGETS:
            m.events.add_handler(t, self._fired, target=t)
        self.by_key = {}
        for e in group["entries"]:
            self.by_key[(e["sec"], e["where"], event_key(e["ev"], e["prio"], e["cond"]))] = e

    def _fired(self, target, **kwargs):
        self.fired.append(target)

    def settle(self):
        for _ in range(6):
            self.vm.run()

    def close(self):
        self.vm.stop()

    # -- state ---------------------------------------------------------------------------------------------------------
    def do(self, op):
        """one action (pre-state or handler action); executed synchronously, nothing is run on the loop"""
        m = self.m
        k = op[0]
        if k == "mvar":
            m.variables.set_machine_var(op[1], op[2])
        elif k == "setting":
            m.settings.set_setting_value(op[1], op[2])
        elif k == "pvar":
            if m.game and m.game.player:
                m.game.player[op[1]] = op[2]
        elif k == "counter":
            m.counters["c1"].event_jump(value=m.placeholder_manager.build_int_template(str(op[1])))
        elif k == "cen":
            (m.counters["c1"].enable if op[1] else m.counters["c1"].disable)()
        else:
            raise InfraError("cond op %r" % (op,))

    def pre(self, ops):
        m, vm = self.m, self.vm
        for op in ops:
            if op[0] == "game":
                if op[1] and not m.game:
                    vm.tc.hit_and_release_switch("s_start")
                    vm.advance(1)
                elif not op[1] and m.game:
                    m.game.end_game()
                    vm.advance(1)
                    m.playfield.balls = 0
                    m.playfield.available_balls = 0
            elif op[0] == "mode":
                if m.modes[op[1]].active != op[2]:
                    vm.post(("start_" if op[2] else "stop_") + op[1])
                    vm.advance(0.125)
            else:
                self.do(op)
            self.settle()

    def snapshot(self):
        m = self.m
        vals = {}
        for n in ("a", "b", "n0", "n1"):
            vals["machine." + n] = m.variables.get_machine_var(n)
        vals["settings.s1"] = m.settings.get_setting_value("s1")
        pl = m.game.player if m.game else None
        for n in ("p", "score"):
            vals["current_player." + n] = pl.vars.get(n, 0) if pl else ABSENT
        c = m.counters["c1"]
        vals["device.counters.c1.value"] = c.value
        vals["device.counters.c1.enabled"] = c.enabled
        return {"vals": vals, "objs": ["device.counters", "device.counters.c1"]}

    # -- one post ------------------------------------------------------------------------------------------------------
    def describe(self, h):
        """which generated handler is this RegisteredHandler?  -> (hid, description)"""
        cb = getattr(h.callback, "_c16_orig", h.callback)
        desc = getattr(cb, "_c16_plain", None)
        if desc is not None:
            return "p%d" % desc[0], ("plain", desc[1])
        owner = getattr(cb, "__self__", None)
        sec = {"VariablePlayer": "vp", "EventPlayer": "ep"}.get(type(owner).__name__)
        if sec is None or "calling_context" not in h.kwargs:
            raise InfraError("foreign handler on a generated event: %r" % (h,))
        mode = h.kwargs.get("mode")
        where = mode.name if mode else "g"
        e = self.by_key[(sec, where, h.kwargs["calling_context"])]
        return "%s:%s:%s" % (sec, where, h.kwargs["calling_context"]), (sec, e)

    def run_case(self, case):
        """-> observation dict (JSON-able apart from the ABSENT marker)"""
        m, ev = self.m, case["post"]["ev"]
        self.pre(case["pre"])
        keys = []
        log = []
        for i, h in enumerate(case["handlers"]):
            def cb(_h=h, **kwargs):
                for a in _h["acts"]:
                    self.do(a)
                return dict(_h["ret"]) if isinstance(_h["ret"], dict) else _h["ret"]
            cb._c16_plain = (i, h)
            keys.append(m.events.add_handler(event_key(ev, 0, h["cond"]), cb, priority=h["prio"], **h["kw"]))
        order = []
        lst = m.events.registered_handlers.get(ev, [])
        for j, h in enumerate(list(lst)):
            hid, desc = self.describe(h)
            order.append({"hid": hid, "prio": h.priority, "desc": desc, "hkw": {k: v for k, v in h.kwargs.items() if k in KW}})
            if getattr(h.callback, "_c16_orig", None) is None:
                lst[j] = h._replace(callback=self._wrap(h.callback, hid, log))
            else:
                h.callback._c16_log[0] = (hid, log)
        env0 = self.snapshot()
        del self.fired[:]
        done = []
        crashed = None
        try:
            kind, kw = case["post"]["kind"], dict(case["post"]["kwargs"])
            if kind == "post":
                m.events.post(ev, **kw)
            elif kind == "relay":
                m.events.post_relay(ev, callback=lambda **k: done.append({x: k[x] for x in KW if x in k}), **kw)
            elif kind == "boolean":
                m.events.post_boolean(ev, callback=lambda **k: done.append(k.get("ev_result", True)), **kw)
            else:
                m.events.post_queue(ev, callback=lambda **k: done.append(True), **kw)
            self.settle()
        except BaseException as ex:
            crashed = type(ex).__name__
            self.broken = True
        obs = {"order": order, "env0": env0, "log": log, "fired": list(self.fired), "env1": None if crashed else self.snapshot(),
               "crashed": crashed, "done": done}
        try:
            m.events.remove_handlers_by_keys(keys)
        except BaseException:
            self.broken = True
        return obs

    def _wrap(self, orig, hid, log):
        cell = [(hid, log)]

        def wrapped(**kwargs):
            hid_, log_ = cell[0]
            rec = {"hid": hid_, "in": self.snapshot(), "kw": {k: kwargs[k] for k in KW if k in kwargs}, "out": None, "res": None}
            log_.append(rec)
            res = orig(**kwargs)
            rec["out"] = self.snapshot()
            rec["res"] = res if (res is False or res is None) else ({k: res[k] for k in res} if isinstance(res, dict) else "other")
            return res
        wrapped._c16_orig = orig
        wrapped._c16_log = cell
        if hasattr(orig, "relative_priority"):
            wrapped.relative_priority = orig.relative_priority
        return wrapped


# ---------------------------------------------------------------------------------------------------------------------
# the specification of one verdict: CPython's value of the condition text on given values
# ---------------------------------------------------------------------------------------------------------------------
def verdict(cond, env, params):
    """-> True / False / "crash" / "unmodelled" (BoolTemplate.evaluate: bool(value), the default False, or AssertionError)"""
    if cond is None:
        return True
    py, _, raw = cpython(render(cond, "strict"), dict(env, params=params), False)
    out = expected_out(py, False)
    if out in ("crash", "unmodelled"):
        return out
    if out == "default":
        return False
    return bool(raw)


def apply_item(vals, it):
    """effect of one variable_player item on the values"""
    var, _, action, val = it
    loc = ("current_player." if action in ("set", "add") else "machine.") + var
    if action in ("set", "set_machine"):
        vals[loc] = val
    else:
        old = vals.get(loc)
        vals[loc] = (0 if old is None else old) + val
