"""Physical world for the C06 (game lifecycle) check: a REAL trough -> plunger -> playfield with the real ball devices, ball
controller, ball_saves, multiballs and the real tilt mode under a real Game mode.

The world part (balls as tokens in device slots / loose on the playfield / in transit; coil pulses intercepted at the
virtual platform's driver objects; switches fed through switch_controller.process_switch; the stepping loop that stops
at every world event and at every timer of the real loop) is copied from harness/common/ballworld.py (C04/C05, read-only
for C06) and cut down to what the game needs: one topology, every eject physically succeeds.
All times are multiples of GRID (1/16 s, float-exact).
"""
import heapq

from . import util
from .vmachine import VMachine, BootError  # noqa: F401

GRID = 0.0625
SLOTS = 4


def build_config(case):
    """case: bpg, maxp, balls (in the trough at boot), wait_empty, save{n, active, hurry, grace}, mb{count, shoot}, tilt{warn,
    settle}"""
    sw = ["s_t%d" % i for i in range(SLOTS)] + ["s_plunger"]
    lines = ["modes:", "  - tilt",
             "machine_vars:", "  c06_bpg:", "    initial_value: %d" % case["bpg"], "    value_type: int", "    persist: false",
             "game:", "  balls_per_game: machine.c06_bpg", "  max_players: %d" % case["maxp"],
             "  wait_for_empty_playfields_on_ball_start: %s" % ("true" if case.get("wait_empty", True) else "false"),
             "  allow_start_with_loose_balls: true",
             "playfields:", "  playfield:", "    default_source_device: plunger", "    tags: default",
             "    enable_ball_search: false", "switches:",
             "  s_start:", "    number: 30", "    tags: start",
             "  s_tilt:", "    number: 31", "    tags: tilt",
             "  s_tilt_warning:", "    number: 32", "    tags: tilt_warning",
             "  s_slam_tilt:", "    number: 33", "    tags: slam_tilt"]
    for i, s in enumerate(sw):
        lines += ["  %s:" % s, "    number: %d" % (i + 1)]
    lines += ["coils:"]
    for i, c in enumerate(["c_trough", "c_plunger"]):
        lines += ["  %s:" % c, "    number: %d" % (i + 1), "    default_pulse_ms: 20"]
    common = ["    eject_timeouts: 2000ms", "    ball_missing_timeouts: 20000ms", "    confirm_eject_type: target"]
    lines += ["ball_devices:",
              "  trough:", "    ball_switches: %s" % ", ".join(sw[:SLOTS]), "    eject_coil: c_trough",
              "    tags: trough, home, drain", "    eject_targets: plunger"] + common
    lines += ["  plunger:", "    ball_switches: s_plunger", "    eject_coil: c_plunger", "    eject_targets: playfield"] + common
    sv = case["save"]
    lines += ["ball_saves:", "  save:", "    balls_to_save: %d" % sv["n"], "    active_time: %ss" % sv["active"],
              "    hurry_up_time: %dms" % sv["hurry"], "    grace_period: %dms" % sv["grace"],
              "    enable_events: %s" % ("ball_started, ev_save_on" if sv.get("auto") else "ev_save_on"),
              "    early_ball_save_events: ev_save_early", "    disable_events: ball_will_end, ev_save_off",
              "    only_last_ball: %s" % ("true" if sv.get("last") else "false")]
    mb = case["mb"]
    lines += ["multiballs:", "  mb:", "    ball_count: %d" % mb["count"], "    ball_count_type: %s" % mb["type"],
              "    shoot_again: %dms" % mb["shoot"], "    start_events: ev_mb_start", "    stop_events: ev_mb_stop",
              "    add_a_ball_events: ev_mb_add", "    add_a_ball_shoot_again: %dms" % mb["shoot"]]
    lines += ["virtual_platform_start_active_switches: %s" % ", ".join(sw[:case["balls"]])]
    return "\n".join(lines) + "\n"


def tilt_mode_config(case):
    t = case["tilt"]
    return ("tilt:\n  tilt_events: ev_tilt\n  tilt_warning_events: ev_tilt_warning\n  tilt_slam_tilt_events: ev_slam_tilt\n"
            "  multiple_hit_window: 0\n  settle_time: %dms\n  warnings_to_tilt: %d\n" % (t["settle"], t["warn"]))


TOPO = {
    "trough": {"switches": ["s_t%d" % i for i in range(SLOTS)], "coil": "c_trough", "exit": "plunger"},
    "plunger": {"switches": ["s_plunger"], "coil": "c_plunger", "exit": "pf"},
}


class World:
    def __init__(self, run, balls, timing):
        self.run = run
        self.slots = {d: [None] * len(t["switches"]) for d, t in TOPO.items()}
        self.kick = {d: None for d in TOPO}
        self.loose = []
        self.transit = []
        self.q = []
        self.seq = 0
        self.timing = timing
        self.history = []
        self.nballs = 0
        for i in range(balls):
            self.slots["trough"][i] = self.nballs
            self.nballs += 1

    def now(self):
        return self.run.vm.now()

    def at(self, dt, fn, *args):
        assert dt >= GRID - 1e-12 and abs(dt / GRID - round(dt / GRID)) < 1e-9, dt
        self.seq += 1
        heapq.heappush(self.q, (self.now() + dt, self.seq, fn, args))

    def next_time(self):
        return self.q[0][0] if self.q else None

    def occupancy(self, d):
        return sum(1 for b in self.slots[d] if b is not None)

    def heading_to(self, d):
        n = sum(1 for x in self.transit if x["dst"] == d)
        for s, k in self.kick.items():
            if k is not None and k[2] == d:
                n += 1
        return n

    def note(self, *a):
        self.history.append([round(self.now() / GRID)] + list(a))

    def switch(self, name, state):
        self.run.vm.machine.switch_controller.process_switch(name, state, logical=True)

    def pulse(self, d):
        self.note("pulse", d)
        occ = [i for i, b in enumerate(self.slots[d]) if b is not None]
        if not occ or self.kick[d] is not None:
            return
        slot = max(occ)
        self.kick[d] = (slot, self.slots[d][slot], TOPO[d]["exit"])
        self.at(self.timing["leave"], self._leave, d)

    def _leave(self, d):
        slot, ball, dst = self.kick[d]
        self.kick[d] = None
        self.slots[d][slot] = None
        tr = {"ball": ball, "src": d, "dst": dst}
        self.transit.append(tr)
        self.note("left", d, ball)
        self.switch(TOPO[d]["switches"][slot], 0)
        self.at(self.timing["transit"], self._arrive, tr)

    def _arrive(self, tr):
        self.transit.remove(tr)
        self.enter(tr["dst"], tr["ball"], tr["src"])

    def enter(self, dst, ball, src):
        if dst == "pf":
            self.loose.append(ball)
            self.note("on_pf", ball, src)
            return True
        free = [i for i, b in enumerate(self.slots[dst]) if b is None]
        if not free:
            self.loose.append(ball)
            self.note("bounced_to_pf", dst, ball, src)
            return False
        self.slots[dst][free[0]] = ball
        self.note("entered", dst, ball, src)
        self.switch(TOPO[dst]["switches"][free[0]], 1)
        return True

    def drain(self, n=1):
        """n loose balls roll into the trough at the same instant; returns how many did"""
        done = 0
        for _ in range(n):
            if not self.loose:
                break
            if self.occupancy("trough") + self.heading_to("trough") >= SLOTS:
                break
            ball = self.loose.pop(0)
            self.enter("trough", ball, "pf")
            done += 1
        return done

    def new_ball(self):
        """a ball MPF does not know about appears on the playfield (stuck ball freed, a ball put in by hand)"""
        if self.nballs >= SLOTS:
            return False
        self.loose.append(self.nballs)
        self.nballs += 1
        self.note("new_ball_on_pf")
        return True

    def run_due(self):
        n = 0
        while self.q and self.q[0][0] <= self.now() + 1e-12:
            _, _, fn, args = heapq.heappop(self.q)
            fn(*args)
            n += 1
        return n

    def moving(self):
        return bool(self.transit) or any(k is not None for k in self.kick.values()) or bool(self.q)


class Run:
    def __init__(self, case, timing):
        self.case = case
        self.vm = VMachine(build_config(case), modes={"tilt": tilt_mode_config(case)})
        self.world = None
        self.timing = timing

    def start(self):
        self.vm.start()
        m = self.vm.machine
        self.world = World(self, self.case["balls"], self.timing)
        for d, t in TOPO.items():
            hw = m.coils[t["coil"]].hw_driver

            def mk(d, f):
                def g(*a, **k):
                    self.world.pulse(d)
                    return f(*a, **k)
                return g
            hw.pulse = mk(d, hw.pulse)
        self.vm.align(GRID)
        return self

    def next_loop_timer(self):
        best = None
        for h in self.vm.tc.loop._scheduled:
            if not h._cancelled and (best is None or h._when < best):
                best = h._when
        return best

    def settle(self):
        loop = self.vm.tc.loop
        for _ in range(100000):
            self.vm.run()
            if loop._ready:
                continue
            lt = self.next_loop_timer()
            if lt is not None and lt <= self.vm.now():
                continue
            if self.world.run_due():
                continue
            return
        raise util.InfraError("loop does not settle")

    def advance(self, dt):
        """advance virtual time by dt, stopping at every world event and every loop timer"""
        t_end = self.vm.now() + dt
        self.settle()
        while True:
            now = self.vm.now()
            if now >= t_end - 1e-12:
                break
            nxt = t_end
            w = self.world.next_time()
            if w is not None and w < nxt:
                nxt = w
            lt = self.next_loop_timer()
            if lt is not None and now < lt < nxt:
                nxt = lt
            self.vm.advance(max(0.0, nxt - now))
            self.settle()

    def stop(self):
        self.vm.stop()
