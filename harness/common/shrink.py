"""ddmin over an op list: smallest sub-list on which `fails(ops)` still returns True (re-running the real code)."""


def ddmin(ops, fails, max_tests=400):
    ops = list(ops)
    n = 2
    tests = 0
    while len(ops) >= 2 and tests < max_tests:
        chunk = max(1, len(ops) // n)
        subsets = [ops[i:i + chunk] for i in range(0, len(ops), chunk)]
        reduced = False
        for i in range(len(subsets)):
            cand = [x for j, s in enumerate(subsets) if j != i for x in s]
            tests += 1
            try:
                bad = bool(cand) and fails(cand)
            except Exception:
                bad = False
            if bad:
                ops = cand
                n = max(n - 1, 2)
                reduced = True
                break
            if tests >= max_tests:
                break
        if not reduced:
            if n >= len(ops):
                break
            n = min(len(ops), n * 2)
    return ops
