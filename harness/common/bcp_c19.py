"""C19: a real MPF machine with the real BCP stack (Bcp, BcpTransportManager, BcpInterface, BcpServer, BCPClientSocket)
talking to in-memory sockets.

    bm = BcpMachine(n_out=2).start()        # n_out outgoing connections "local_display", "c1", .. (BCPClientSocket, MockQueueSocket)
    bm.socks["c1"].recv_queue.append(b"...")  # bytes arriving from the remote side, one element per read
    bm.run()                                 # let the loop run (virtual time)
    bm.sent("c1")                            # bytes MPF wrote to that socket so far (drains the queue)
    bm.connect_incoming()                    # a client connecting to MPF's BCP server later -> (client object, socket)
    bm.close("c1")                           # the remote side closes: EOF on the next read
    bm.loop_errors                           # exceptions that escaped into the event loop (the machine would die on them)
    bm.stop()

Built like harness/common/vmachine.py (MpfTestCase scaffolding, virtual platform, TimeTravelLoop, private TMPDIR); kept
separate because the BCP test set-up needs `_mock_loop` (sockets must be mocked before the machine boots) and a config
patch, which VMachine does not expose.
"""
import os
import shutil
import tempfile

from . import util

CONFIG = """#config_version=6
bcp:
    connections:
%s
switches:
    s_a:
        number: 1
    s_b:
        number: 2
"""

CONN = """        %s:
            host: localhost
            port: %d
            type: mpf.core.bcp.bcp_socket_client.BCPClientSocket
            required: True
            exit_on_close: False
"""


class BcpMachine:
    def __init__(self, n_out=2):
        util.ensure_repo_mpf()
        base = util.private_tmp()
        self.dir = tempfile.mkdtemp(prefix="bcp-", dir=base)
        os.makedirs(os.path.join(self.dir, "config"))
        self.n_out = n_out
        with open(os.path.join(self.dir, "config", "config.yaml"), "w") as f:
            f.write(CONFIG % "".join(CONN % (self.name(i), self.port(i)) for i in range(n_out)))
        self.socks = {}
        self.server = None
        self.tc = None
        self.machine = None
        self.loop_errors = []
        self._sent = {}

    @staticmethod
    def name(i):
        """mpfconfig.yaml already defines the connection `local_display` (localhost:5050); it is our first client"""
        return "local_display" if i == 0 else "c%d" % i

    @staticmethod
    def port(i):
        return 5050 if i == 0 else 5060 + i

    def start(self):
        from mpf.tests.MpfTestCase import MpfTestCase
        from mpf.tests.loop import MockQueueSocket, MockServer
        bm = self

        class ResetSocket(MockQueueSocket):
            """answers MPF's `reset` like a media controller does (MpfTestCase machines wait for reset_complete)"""

            def __init__(self, loop):
                super().__init__(loop)
                self.eof = False
                self.auto_reset = True

            def send(self, data):
                if self.auto_reset and data == b'reset\n':
                    self.recv_queue.append(b'reset_complete\n')
                    return len(data)
                return super().send(data)

            def read_ready(self):
                return bool(self.recv_queue) or self.eof

            def recv(self, size):
                if self.recv_queue:
                    return self.recv_queue.pop(0)
                return b''

        self.ResetSocket = ResetSocket

        class _TC(MpfTestCase):
            def __init__(self):
                super().__init__("runTest")
                del self.machine_config_patches['bcp']

            def runTest(self):
                pass

            def get_machine_path(self):
                return bm.dir

            def get_absolute_machine_path(self):
                return bm.dir

            def get_config_file(self):
                return "config.yaml"

            def get_use_bcp(self):
                return True

            def _mock_loop(self):
                for i in range(bm.n_out):
                    s = ResetSocket(self.loop)
                    bm.socks[bm.name(i)] = s
                    self.clock.mock_socket("localhost", bm.port(i), s)
                bm.server = MockServer(self.loop)
                self.clock.mock_server("127.0.0.1", 5051, bm.server)

            def _exception_handler(self, loop, context):
                bm.loop_errors.append(repr(context.get("exception") or context.get("message")))
                super()._exception_handler(loop, context)

        for attempt in (0, 1, 2):
            self.tc = _TC()
            try:
                self.tc.setUp()
                break
            except BaseException as e:
                wall_limit = "Start took more than" in str(e)
                self._cleanup()
                if wall_limit and attempt < 2:
                    self.socks = {}
                    continue
                shutil.rmtree(self.dir, ignore_errors=True)
                raise util.InfraError("BCP machine did not boot: %s: %s" % (type(e).__name__, e)) from e
        self.machine = self.tc.machine
        return self

    def client(self, name):
        return self.machine.bcp.transport.get_named_client(name)

    def connect_incoming(self):
        """a remote client connects to MPF's BCP server; returns (BCPClientSocket created by BcpServer, socket)"""
        s = self.ResetSocket(self.tc.loop)
        before = list(self.machine.bcp.transport.get_all_clients())
        self.tc.loop.run_until_complete(self.server.add_client(s))
        new = [c for c in self.machine.bcp.transport.get_all_clients() if c not in before]
        if len(new) != 1:
            raise util.InfraError("incoming BCP connection did not register exactly one transport")
        name = "in%d" % sum(1 for k in self.socks if k.startswith("in"))
        self.socks[name] = s
        return new[0], name

    def run(self, dt=0.0078125):
        """advance virtual time; an exception escaping MPF is returned (and recorded), not raised"""
        try:
            self.tc.advance_time_and_run(dt)
            return None
        except BaseException as e:   # noqa
            self.loop_errors.append("raised:" + repr(e))
            return e

    def sent(self, name):
        q = self.socks[name].send_queue
        out = self._sent.setdefault(name, bytearray())
        while not q.empty():
            out += q.get_nowait()
        return bytes(out)

    def close(self, name):
        self.socks[name].eof = True

    def _cleanup(self):
        try:
            if self.tc is not None and getattr(self.tc, "machine", None) is not None:
                self.tc.machine.stop()
        except BaseException:
            pass
        try:
            if self.tc is not None and getattr(self.tc, "loop", None) is not None and not self.tc.loop.is_closed():
                self.tc.loop.close(ignore_running_tasks=True)
        except BaseException:
            pass
        try:
            self.tc.restore_sys_path()
        except BaseException:
            pass

    def stop(self):
        try:
            if self.tc is not None:
                try:
                    if getattr(self.tc, "machine", None) is not None:
                        self.tc.machine._do_stop()
                except BaseException:
                    pass
                try:
                    self.tc.restore_sys_path()
                except BaseException:
                    pass
                try:
                    from asyncio import events
                    events.set_event_loop(None)
                    if not self.tc.loop.is_closed():
                        self.tc.loop.close(ignore_running_tasks=True)
                except BaseException:
                    pass
        finally:
            shutil.rmtree(self.dir, ignore_errors=True)
            self.tc = None
            self.machine = None
