"""Line-protocol client of the Lean model driver (one op per line in, one canonical line out)."""
import fcntl
import os
import subprocess

from .util import LEAN_DIR, InfraError



def driver_exe(prop_id):
    return os.path.join(LEAN_DIR, ".lake", "build", "bin", "drv_" + prop_id.lower())


class lake_lock:
    """Serialise lake invocations in this workspace (parallel checks share .lake)."""

    def __enter__(self):
        os.makedirs(os.path.join(LEAN_DIR, ".lake"), exist_ok=True)
        self.f = open(os.path.join(LEAN_DIR, ".lake", "verif.lock"), "w")
        fcntl.flock(self.f, fcntl.LOCK_EX)
        return self

    def __exit__(self, *a):
        fcntl.flock(self.f, fcntl.LOCK_UN)
        self.f.close()


def run_lake(args, timeout=3000):
    with lake_lock():
        p = subprocess.run(["lake"] + args, cwd=LEAN_DIR, stdout=subprocess.PIPE, stderr=subprocess.STDOUT,
                           text=True, timeout=timeout)
    return p.returncode, p.stdout


def driver_cmd(prop_id, args=()):
    """The compiled model driver of a property (lean/Drivers/<ID>.lean -> .lake/build/bin/drv_<id>)."""
    exe = driver_exe(prop_id)
    if os.path.exists(exe) and os.environ.get("VERIF_DRIVER", "exe") == "exe":
        return [exe] + list(args)
    return ["lake", "env", "lean", "--run", "Drivers/%s.lean" % prop_id] + list(args)


class LeanProc:
    """A long-lived model process.  ask() is synchronous; batch() pipes many lines at once."""

    def __init__(self, model, args=()):
        self.model = model
        self.p = subprocess.Popen(driver_cmd(model, args), cwd=LEAN_DIR, stdin=subprocess.PIPE, stdout=subprocess.PIPE,
                                  stderr=subprocess.PIPE, text=True, bufsize=1)
        self.lines = 0

    def ask(self, line):
        assert "\n" not in line
        try:
            self.p.stdin.write(line + "\n")
            self.p.stdin.flush()
            out = self.p.stdout.readline()
        except BrokenPipeError:
            out = ""
        if out == "":
            err = self.p.stderr.read()
            raise InfraError("lean driver %s died on %r: %s" % (self.model, line[:200], err[-2000:]))
        self.lines += 1
        return out.rstrip("\n")

    def close(self):
        try:
            self.p.stdin.close()
            self.p.wait(timeout=20)
        except Exception:
            self.p.kill()


def batch(model, lines, timeout=3000, args=()):
    """Run the driver once over all lines; returns the output lines (must be 1:1)."""
    inp = "".join(l + "\n" for l in lines)
    p = subprocess.run(driver_cmd(model, args), cwd=LEAN_DIR, input=inp, stdout=subprocess.PIPE, stderr=subprocess.PIPE,
                       text=True, timeout=timeout)
    out = p.stdout.split("\n")
    if out and out[-1] == "":
        out.pop()
    if p.returncode != 0 or len(out) != len(lines):
        raise InfraError("lean driver %s: rc=%s, %d lines in, %d out; stderr=%s"
                         % (model, p.returncode, len(lines), len(out), p.stderr[-2000:]))
    return out
