"""Custom mode code for the C07 harness (mode config `code: harness.common.modecode_c07.C07Mode`): a Mode subclass whose
mode_start registers a handler, a switch handler and a delay on the mode, and whose mode_stop (called inside _finish_stop,
before the cleanup) registers more and posts events.  Everything goes through Real.act so that it is logged."""
from mpf.core.mode import Mode


class C07Mode(Mode):

    def mode_start(self, **kwargs):
        from harness.corr.C07 import Rec
        r = Rec.cur
        if r is not None and self.name in r.names and not r.calib:
            r.L.append(("hook", -1))
            for a in (["addh", self.name], ["addsw", self.name], ["delay", self.name, 6]):
                r.act(a)

    def mode_stop(self, **kwargs):
        from harness.corr.C07 import Rec
        r = Rec.cur
        if r is not None and self.name in r.names and not r.calib:
            r.L.append(("hook", -2))
            for a in (["addh", self.name], ["delay", self.name, 2], ["addsw", self.name], ["ev", "u_" + self.name],
                      ["ev", "cnt_" + self.name]):
                r.act(a)
