"""C08, second stream: the OTHER entry points that can actuate a coil, each driven through its own code on a real machine —
ball-device ejectors (pulse / hold / enable: eject_one_ball with jam and retry pulse times, ball_search), software flipper
activation (sw_flip / sw_release, dual-wound and single-wound), coil_player (every action, with max_wait_ms), DualWoundCoil,
DigitalOutput, the driver-light platform (a light on a coil: set_brightness -> enable(hold_power) / disable), flipper and
autofire hardware rules (platform_controller).  Every command reaching any platform driver (and every rule handed to the
platform) is logged with its time stamp and checked by the same oracle as the main stream (harness/corr/C08.py check_log)
against the limits of the coil it is for."""
import asyncio
import sys

from harness.common.vmachine import VMachine

COILS = ["c_eject", "c_hold", "c_en", "c_fm", "c_fh", "c_fs", "c_l", "c_dm", "c_dh", "c_af"]


def yv(v):
    return "true" if v is True else "false" if v is False else str(v)


def gen_limits(r, kind):
    """limits of one coil; `kind` says what the device using it needs in order to load (hold coils must allow holding)"""
    c = {}
    if r.random() < 0.6:
        c["max_pulse_ms"] = r.choice([10, 20, 30, 50, 100])
    if r.random() < 0.6:
        c["default_pulse_ms"] = r.choice([v for v in [5, 10, 20, 30] if v <= c.get("max_pulse_ms", 999)])
    if r.random() < 0.4:
        c["max_pulse_power"] = r.choice([0.25, 0.5, 1.0])
        c["default_pulse_power"] = r.choice([v for v in [0.125, 0.25, 0.5, 1.0] if v <= c["max_pulse_power"]])
    if kind == "hold":
        k = r.random()
        if k < 0.4:
            c["allow_enable"] = True
        elif k < 0.7:
            c["max_hold_power"] = r.choice([0.25, 0.5, 1.0])
        else:
            c["default_hold_power"] = r.choice([0.125, 0.25, 0.5])
        if r.random() < 0.4 and "default_hold_power" not in c:
            c["default_hold_power"] = r.choice([v for v in [0.125, 0.25, 0.5] if v <= c.get("max_hold_power", 1.0)])
        if r.random() < 0.4:
            c["max_hold_duration"] = r.choice([0.25, 0.5, 1, 2])
    elif kind == "maybe" and r.random() < 0.5:
        c["allow_enable"] = True
    return c


def gen_entry_case(r):
    lim = {"c_eject": gen_limits(r, "pulse"), "c_hold": gen_limits(r, "hold"), "c_en": gen_limits(r, "hold"),
           "c_fm": gen_limits(r, "pulse"), "c_fh": gen_limits(r, "hold"), "c_fs": gen_limits(r, "hold"),
           "c_l": gen_limits(r, "hold"), "c_dm": gen_limits(r, "pulse"), "c_dh": gen_limits(r, "hold"),
           "c_af": gen_limits(r, "pulse")}
    dev = {"jam": r.choice([None, [5], [5, 10], [60], [200]]), "retry": r.choice([None, [40], [15, 25], [120], [300]]),
           "times": r.choice([None, None, [10], [10, 20], [150]]), "retries": r.choice([1, 2, 4]),
           "max_wait": r.choice([0, 100, 200, 1000]), "en_time": r.choice([[50], [100, 200], [500]]),
           "release": r.choice([100, 500, 1000]),
           "player": {"pulse": {"action": "pulse", **({"pulse_ms": r.choice([5, 10, 40, 120, 300])} if r.random() < 0.6 else {}),
                                **({"pulse_power": r.choice([0.25, 0.5, 1.0])} if r.random() < 0.4 else {}),
                                **({"max_wait_ms": r.choice([100, 1000])} if r.random() < 0.5 else {})},
                      "on": {"action": r.choice(["on", "enable"]),
                             **({"hold_power": r.choice([0.25, 0.5, 1.0])} if r.random() < 0.5 else {}),
                             **({"pulse_ms": r.choice([5, 10, 60])} if r.random() < 0.4 else {})},
                      "off": {"action": r.choice(["off", "disable"])}},
           "player_coil": r.choice(["c_eject", "c_hold", "c_fs", "c_l"]),
           "af_over": ({"pulse_ms": r.choice([5, 10, 60, 200])} if r.random() < 0.5 else {})}
    ops = []
    for _ in range(r.randint(3, 10)):
        k = r.random()
        if k < 0.2:
            ops.append(["eject_pulse", r.random() < 0.4, r.choice([1, 1, 2, 3, 4, 5]), r.choice([1, 2, 3])])
        elif k < 0.27:
            ops.append(["eject_hold"])
        elif k < 0.32:
            ops.append(["hold_switch", r.choice([0, 1])])
        elif k < 0.4:
            ops.append(["eject_enable", r.choice([1, 2, 3])])
        elif k < 0.5:
            ops.append(["search", r.choice(["bd_pulse", "bd_hold", "bd_en", "f_dual", "f_single"]), r.choice([1, 2, 3]), r.choice([0, 1])])
        elif k < 0.6:
            ops.append(["flip", r.choice(["f_dual", "f_single"]), r.choice(["sw_flip", "sw_release", "enable", "disable"])])
        elif k < 0.7:
            ops.append(["player", r.choice(["pulse", "on", "off"])])
        elif k < 0.76:
            ops.append(["light", r.choice([0, 64, 128, 255])])
        elif k < 0.82:
            ops.append(["do", r.choice(["pulse", "enable", "disable"]), r.choice([5, 10, 100, 300])])
        elif k < 0.88:
            ops.append(["dw", r.choice(["pulse", "enable", "disable"]), r.choice([None, 5, 40, 300]), r.choice([None, 0.5])])
        elif k < 0.92:
            ops.append(["autofire", r.choice(["enable", "disable"])])
        else:
            ops.append(["advance", r.choice([1, 1, 2, 4, 8])])
    if r.random() < 0.08:
        # a long retry pulse keeps the PSU busy for longer than the enable ejector's enable time
        lim["c_en"] = {"allow_enable": True}
        lim["c_eject"] = {"default_pulse_ms": 20}
        dev.update(max_wait=1000, en_time=[50], retry=[120], retries=1, jam=None, times=None)
        ops = [["eject_pulse", False, 3, 1], ["eject_enable", 1], ["advance", r.choice([2, 8])]] + ops[:3]
    return {"limits": lim, "dev": dev, "ops": ops}


def build_config(case):
    lim, dev = case["limits"], case["dev"]
    out = ["switches:"]
    for i, n in enumerate(["s_b1", "s_b2", "s_h1", "s_e1", "s_flip", "s_flip2", "s_af"]):
        out += ["  %s:" % n, "    number: %d" % (10 + i)]
    out += ["coils:"]
    for i, n in enumerate(COILS):
        out += ["  %s:" % n, "    number: %d" % (20 + i)]
        for k, v in lim[n].items():
            out.append("    %s: %s" % (k, yv(v)))

    def lst(v):
        return ", ".join("%dms" % x for x in v)
    out += ["playfields:", "  playfield:", "    default_source_device: None", "    tags: default",
            "ball_devices:",
            "  bd_pulse:", "    ball_switches: s_b1, s_b2", "    eject_coil: c_eject", "    eject_targets: playfield",
            "    eject_timeouts: 1s", "    ball_search_order: 1",
            "    eject_coil_max_wait_ms: %dms" % dev["max_wait"], "    retries_before_increasing_pulse: %d" % dev["retries"]]
    if dev["jam"]:
        out.append("    eject_coil_jam_pulse: " + lst(dev["jam"]))
    if dev["retry"]:
        out.append("    eject_coil_retry_pulse: " + lst(dev["retry"]))
    if dev["times"]:
        out += ["    ejector:", "      class: mpf.devices.ball_device.pulse_coil_ejector.PulseCoilEjector",
                "      eject_times: " + lst(dev["times"])]
    out += ["  bd_hold:", "    ball_switches: s_h1", "    hold_coil: c_hold", "    hold_switches: s_h1",
            "    hold_coil_release_time: %dms" % dev["release"], "    eject_targets: playfield", "    eject_timeouts: 1s",
            "    ball_search_order: 2",
            "  bd_en:", "    ball_switches: s_e1", "    eject_coil: c_en", "    eject_coil_enable_time: " + lst(dev["en_time"]),
            "    eject_coil_max_wait_ms: %dms" % dev["max_wait"], "    eject_targets: playfield", "    eject_timeouts: 1s",
            "    ball_search_order: 3",
            "flippers:",
            "  f_dual:", "    main_coil: c_fm", "    hold_coil: c_fh", "    activation_switch: s_flip", "    ball_search_order: 4",
            "  f_single:", "    main_coil: c_fs", "    activation_switch: s_flip2", "    ball_search_order: 5",
            "dual_wound_coils:", "  dw:", "    main_coil: c_dm", "    hold_coil: c_dh",
            "digital_outputs:", "  do1:", "    number: 40", "    type: driver",
            "lights:", "  l1:", "    number: c_l", "    platform: drivers", "    subtype: matrix",
            "autofire_coils:", "  af:", "    coil: c_af", "    switch: s_af", "    enable_events: af_on",
            "    disable_events: af_off", "    ball_search_order: 0"]
    if dev["af_over"]:
        out.append("    coil_overwrite:")
        for k, v in dev["af_over"].items():
            out.append("      %s: %s" % (k, yv(v)))
    out += ["coil_player:"]
    for ev, d in dev["player"].items():
        out += ["  play_%s:" % ev, "    %s:" % dev["player_coil"]]
        for k, v in d.items():
            out.append("      %s: %s" % (k, yv(v)))
    return "\n".join(out) + "\n"


RULES = ("set_pulse_on_hit_rule", "set_pulse_on_hit_and_release_rule", "set_pulse_on_hit_and_enable_and_release_rule",
         "set_delayed_pulse_on_hit_rule", "set_pulse_on_hit_and_release_and_disable_rule",
         "set_pulse_on_hit_and_enable_and_release_and_disable_rule")


class EntryRun:
    def __init__(self, case):
        self.case = case
        self.vm = VMachine(build_config(case))
        self.logs = {}
        self.cur = "boot"
        self.dead = False

    def start(self):
        self.vm.start()
        m = self.vm.machine
        vm = self.vm
        by_hw = {}
        for name in COILS:
            coil = m.coils[name]
            log = self.logs[name] = []
            by_hw[id(coil.hw_driver)] = log
            for meth in ("pulse", "enable", "timed_enable", "disable"):
                def mk(meth, f, log):
                    def g(*a, **k):
                        caller = sys._getframe(1).f_code.co_name
                        log.append([meth, round(vm.now() * 1000), [list(x) if isinstance(x, tuple) else x for x in a],
                                    "pulse" if caller == "_pulse_now" else "enable" if caller == "_enable_now" else self.cur])
                        return f(*a, **k)
                    return g
                setattr(coil.hw_driver, meth, mk(meth, getattr(coil.hw_driver, meth), log))
        do = m.digital_outputs["do1"]
        self.do_log = []
        for meth in ("pulse", "enable", "disable"):
            def mk2(meth, f):
                def g(*a, **k):
                    self.do_log.append([meth, round(vm.now() * 1000), [list(x) if isinstance(x, tuple) else x for x in a], self.cur])
                    return f(*a, **k)
                return g
            setattr(do.hw_driver, meth, mk2(meth, getattr(do.hw_driver, meth)))
        plat = m.coils["c_fm"].platform
        for n in RULES:
            if hasattr(plat, n):
                def mk3(n, f):
                    def g(*a, **k):
                        for x in a:
                            if hasattr(x, "pulse_settings") and id(x.hw_driver) in by_hw:
                                by_hw[id(x.hw_driver)].append(
                                    ["rule", round(vm.now() * 1000), [list(x.pulse_settings) if x.pulse_settings else None,
                                                                      list(x.hold_settings) if x.hold_settings else None], self.cur])
                        return f(*a, **k)
                    return g
                setattr(plat, n, mk3(n, getattr(plat, n)))
        self.vm.align()
        return self

    def _await(self, coro):
        self.vm.tc.loop.run_until_complete(asyncio.wait_for(coro, 1))

    def do(self, op):
        m = self.vm.machine
        k = op[0]
        self.cur = k
        try:
            if k == "advance":
                self.vm.advance(op[1] / 8.0)
            elif k == "eject_pulse":
                self._await(m.ball_devices["bd_pulse"].ejector.eject_one_ball(op[1], op[2], op[3]))
            elif k == "eject_hold":
                self._await(m.ball_devices["bd_hold"].ejector.eject_one_ball(False, 1, 1))
            elif k == "hold_switch":
                self.vm.hit_switch("s_h1", op[1])
            elif k == "eject_enable":
                self._await(m.ball_devices["bd_en"].ejector.eject_one_ball(
                    False, 1, min(op[1], len(self.case["dev"]["en_time"]))))
            elif k == "search":
                d = (m.ball_devices if op[1].startswith("bd") else m.flippers)[op[1]]
                if op[1].startswith("bd"):
                    d.ejector.ball_search(op[2], op[3])
                else:
                    d._ball_search(op[2], op[3])
            elif k == "flip":
                getattr(m.flippers[op[1]], op[2])()
            elif k == "player":
                m.events.post("play_" + op[1])
            elif k == "light":
                m.lights["l1"].color([op[1]] * 3)
            elif k == "do":
                d = m.digital_outputs["do1"]
                d.pulse(op[2]) if op[1] == "pulse" else d.enable() if op[1] == "enable" else d.disable()
            elif k == "dw":
                d = m.dual_wound_coils["dw"]
                if op[1] == "pulse":
                    kw = {}
                    if op[2] is not None:
                        kw["milliseconds"] = op[2]
                    if op[3] is not None:
                        kw["power"] = op[3]
                    d.pulse(**kw)
                else:
                    getattr(d, op[1])()
            elif k == "autofire":
                m.events.post("af_on" if op[1] == "enable" else "af_off")
            self.vm.run()
            return "ok"
        except BaseException as e:
            # a refusal raised through device glue / the event loop: the machine may be unusable afterwards
            self.dead = k in ("advance", "player", "autofire", "hold_switch", "light")
            if not self.dead:
                try:
                    self.vm.run()
                except BaseException:
                    self.dead = True
            return "refused:" + type(e).__name__

    def stop(self):
        self.vm.stop()
