"""Boot a real MPF machine in-process, the way mpf/tests/MpfTestCase.py does (virtual platform, TimeTravelLoop).

    vm = VMachine(config_yaml, modes={"m1": "mode:\\n  ..."}, shows={"s1": "- time: 0\\n  ..."}, game=False)
    vm.start()                      # raises BootError (config rejected / crash during init)
    vm.machine                      # the real MachineController
    vm.advance(0.125)               # virtual time; dyadic steps are float-exact
    vm.now()                        # loop time
    vm.stop()

Traps (see DESIGN.md 1.2): the site-packages copy of mpf (guarded by util.ensure_repo_mpf), game modes that silently do
not start without a game (use game=True for MpfFakeGameTestCase scaffolding and call vm.start_game()), handlers must be
declared with **kwargs, a private TMPDIR for the <hash>.mpf_cache files.
"""
import os
import shutil
import tempfile

from . import util


class BootError(Exception):
    pass


class VMachine:
    _stopped = 0

    def __init__(self, config_yaml, modes=None, shows=None, game=False, platform="virtual", extra_files=None,
                 mock_data=None, use_bcp=False):
        util.ensure_repo_mpf()
        base = util.private_tmp()
        self.dir = tempfile.mkdtemp(prefix="m-", dir=base)
        os.makedirs(os.path.join(self.dir, "config"))
        if not config_yaml.lstrip().startswith("#config_version"):
            config_yaml = "#config_version=6\n" + config_yaml
        with open(os.path.join(self.dir, "config", "config.yaml"), "w") as f:
            f.write(config_yaml)
        for name, text in (modes or {}).items():
            d = os.path.join(self.dir, "modes", name, "config")
            os.makedirs(d)
            if not text.lstrip().startswith("#config_version"):
                text = "#config_version=6\n" + text
            with open(os.path.join(d, name + ".yaml"), "w") as f:
                f.write(text)
        for name, text in (shows or {}).items():
            d = os.path.join(self.dir, "shows")
            os.makedirs(d, exist_ok=True)
            if not text.lstrip().startswith("#show_version"):
                text = "#show_version=6\n" + text
            with open(os.path.join(d, name + ".yaml"), "w") as f:
                f.write(text)
        for rel, text in (extra_files or {}).items():
            p = os.path.join(self.dir, rel)
            os.makedirs(os.path.dirname(p), exist_ok=True)
            with open(p, "w") as f:
                f.write(text)
        self.game = game
        self.platform = platform
        self.tc = None
        self.machine = None
        self._mock_data = mock_data
        self._use_bcp = use_bcp

    def start(self):
        from mpf.tests.MpfTestCase import MpfTestCase
        from mpf.tests.MpfFakeGameTestCase import MpfFakeGameTestCase
        base = MpfFakeGameTestCase if self.game else MpfTestCase
        vm = self

        class _TC(base):
            def __init__(self):
                super().__init__("runTest")

            def runTest(self):
                pass

            def get_machine_path(self):
                return vm.dir

            def get_absolute_machine_path(self):
                return vm.dir

            def get_config_file(self):
                return "config.yaml"

            def get_platform(self):
                return vm.platform

            def get_use_bcp(self):
                return vm._use_bcp

            def _get_mock_data(self):
                return vm._mock_data if vm._mock_data is not None else super()._get_mock_data()

        for attempt in (0, 1, 2):
            self.tc = _TC()
            try:
                self.tc.setUp()
                break
            except BaseException as e:  # config errors, asserts during init
                wall_limit = "Start took more than" in str(e)     # MpfTestCase's wall-clock boot limit (loaded host)
                try:
                    self._cleanup_loop()
                finally:
                    if not wall_limit or attempt == 2:
                        shutil.rmtree(self.dir, ignore_errors=True)
                if wall_limit and attempt < 2:
                    continue                                        # not a property of the configuration: retry
                if wall_limit:
                    raise util.InfraError("machine boot exceeded the scaffolding's wall-clock limit three times") from e
                raise BootError("%s: %s" % (type(e).__name__, e)) from e
        self.machine = self.tc.machine
        return self

    # -- time -------------------------------------------------------------------------------------------------------
    def now(self):
        return self.tc.loop.time()

    def advance(self, dt):
        """Advance virtual time by dt seconds, running everything that becomes due.  Exceptions escaping MPF callbacks
        are re-raised here (MpfTestCase semantics)."""
        self.tc.advance_time_and_run(dt)

    def advance_to(self, t):
        d = t - self.now()
        if d < 0:
            raise util.InfraError("advance_to into the past")
        self.advance(d)

    def run(self):
        self.tc.advance_time_and_run(0)

    def align(self, grid=0.125):
        """Move the clock to the next multiple of `grid` (init leaves it at an odd instant)."""
        import math
        t = self.now()
        nxt = math.ceil(t / grid - 1e-9) * grid
        if nxt > t:
            self.tc.loop.run_until_complete(__import__("asyncio").sleep(nxt - t))
            # TimeTravelLoop lands exactly on the timer's deadline; make the clock itself exact
            self.tc.loop.set_time(nxt) if hasattr(self.tc.loop, "set_time") and abs(self.now() - nxt) < 1e-9 else None
        return self.now()

    # -- conveniences -----------------------------------------------------------------------------------------------
    def post(self, event, **kwargs):
        self.machine.events.post(event, **kwargs)

    def hit_switch(self, name, state=1):
        self.machine.switch_controller.process_switch(name, state, logical=True)

    def start_game(self, num_balls_known=3):
        self.tc.start_game(num_balls_known) if self.game else None

    def _cleanup_loop(self):
        try:
            if self.tc is not None and getattr(self.tc, "machine", None) is not None:
                self.tc.machine.stop()
        except BaseException:
            pass
        try:
            if self.tc is not None and getattr(self.tc, "loop", None) is not None and not self.tc.loop.is_closed():
                self.tc.loop.close(ignore_running_tasks=True)
        except BaseException:
            pass
        try:
            self.tc.restore_sys_path()
        except BaseException:
            pass

    def stop(self):
        """Tear down; never raises."""
        try:
            if self.tc is not None:
                try:
                    if getattr(self.tc, "machine", None) is not None:
                        self.tc.machine._do_stop()
                except BaseException:
                    pass
                try:
                    self.tc.restore_sys_path()
                except BaseException:
                    pass
                try:
                    from asyncio import events
                    events.set_event_loop(None)
                    if not self.tc.loop.is_closed():
                        self.tc.loop.close(ignore_running_tasks=True)
                except BaseException:
                    pass
        finally:
            shutil.rmtree(self.dir, ignore_errors=True)
            self.tc = None
            # mpf keeps every machine ever booted in a process alive through two class-level caches (mpfleak.py):
            # empty them now and then, or a thorough run grows by about 0.8 MB per booted machine
            VMachine._stopped += 1
            if VMachine._stopped % 100 == 0:
                try:
                    from harness.common import mpfleak
                    mpfleak.release()
                except Exception:
                    pass
            self.machine = None

    def __enter__(self):
        return self.start()

    def __exit__(self, *a):
        self.stop()
