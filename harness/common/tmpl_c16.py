"""C16 support: expression / text-template generators, the CPython oracle namespace and the real machine wrapper.

Expression trees (tuples):
  ("k", const) ("v", name) ("u", op, e) ("o", op, a, b) ("c", op, a, b) ("l", And|Or, a, b) ("?", test, a, b)
  ("t", (e, ...)) ("a", e, attr) ("x", e, key) ("sl", e, lo|None, hi|None, step|None) ("chain", a, b, c)
Text templates: [("lit", str) | ("fld", expr, spec)]
"""
import datetime
import string
import warnings

from harness.common.util import InfraError

BIN = {"Add": "+", "Sub": "-", "Mult": "*", "FloorDiv": "//", "Div": "/", "Pow": "**", "BitXor": "^", "Mod": "%",
       "LShift": "<<", "BitOr": "|"}
CMP = {"Eq": "==", "Lt": "<", "Gt": ">", "LtE": "<=", "GtE": ">=", "NotEq": "!=",
       "In": "in", "NotIn": "not in", "Is": "is", "IsNot": "is not"}
REJ_CMP = ("In", "NotIn", "Is", "IsNot")          # not in COMPARISONS: rejected by MPF
UN = {"USub": "-", "Not": "not", "UAdd": "+", "Invert": "~"}
INTS = [0, 1, 2, 3, -1, -3, 7]
EXPONENTS = [-2, -1, 0, 1, 2, 3, 10, 31, 64, 100]
FLOATS = [0.5, 1.5, -2.25, 2.0, 0.0, -0.5]
STRS = ["", "a", "ab", "b", "abcde"]
FMTS = ["%s", "x%s", "%d", "%s-%s", "%d%%", "%s%d", "%", "%z", "%5d", "%r", "ab"]
PARAMS = ["x", "y", "z"]
PVARS = ["p", "score", "ball"]
SPECS = ["", "", "d", "d", "03d", ">4", "s", ".1f", "x"]
LITS = ["a", "b-", "x=", "{{", "}}", "-", "ab"]


warnings.filterwarnings("ignore", message="coroutine .* was never awaited")
warnings.filterwarnings("ignore", category=SyntaxWarning)


class Absent:
    """a location whose read raises ValueError (not in a game / player not in game / no such attribute)"""
    def __repr__(self):
        return "ABSENT"


ABSENT = Absent()

# every location a generated expression can read (dotted path; players index as a path element)
LOCS = (["machine.a", "machine.b", "machine.time.second", "machine.time.minute", "machine.time.hour",
         "settings.s1", "settings.s2"]
        + ["current_player." + v for v in PVARS]
        + ["players.%d.%s" % (i, v) for i in (0, 1, 2, -1) for v in ("p", "score")]
        + ["game.num_players", "game.tilted", "game.balls_in_play", "game.player.p", "game.player.ball"]
        + ["mode.m1.active", "mode.m1.priority", "mode.m2.active", "mode.nosuch.active"]
        + ["device.counters.c1.value", "device.counters.c1.enabled", "device.counters.c1.nosuch",
           "device.state_machines.sm1.state", "device.switches.s_a.state",
           "device.timers.t1.ticks", "device.timers.t1.running",
           "device.shots.sh1.state", "device.shots.sh1.state_name", "device.shots.sh1.enabled",
           "device.playfields.playfield.balls"])
DEPTH = {"device": 2, "mode": 1, "players": 1}
NOT_SUBSCRIPTABLE = (["settings"], ["game"], ["machine", "time"])
ATTR_ONLY = ("machine.time.", "settings.", "game.num", "game.tilted", "game.balls")


# ---------------------------------------------------------------------------------------------------------------------
# values <-> model tokens / canonical text
# ---------------------------------------------------------------------------------------------------------------------
def val_tokens(v):
    if isinstance(v, bool):
        return ["b", "1" if v else "0"]
    if isinstance(v, int):
        return ["i", str(v)]
    if isinstance(v, float):
        n, d = v.as_integer_ratio()
        return ["f", str(n), str(d.bit_length() - 1)]
    if v is None:
        return ["n"]
    if isinstance(v, str):
        return ["s", v or "-"]
    if isinstance(v, tuple):
        out = []
        for x in v:
            out += ["tc"] + val_tokens(x)
        return out + ["t0"]
    raise InfraError("value %r" % (v,))


def show_val(v):
    """the model's canonical value text"""
    if isinstance(v, bool):
        return "B:1" if v else "B:0"
    if isinstance(v, int):
        return "I:%d" % v
    if isinstance(v, float):
        if v != v or v in (float("inf"), float("-inf")):
            return "F:special"
        n, d = v.as_integer_ratio()
        return "F:%d:%d" % (n, d.bit_length() - 1)
    if v is None:
        return "N"
    if isinstance(v, str):
        return "S:" + v
    if isinstance(v, tuple):
        s = "T()"
        for x in reversed(v):
            s = "T(%s,%s)" % (show_val(x), s)
        return s
    return "O:" + type(v).__name__


def render(e, mode):
    """mode: "mpf" (the text given to MPF), "strict" / "lazy" (the text CPython evaluates, with helper calls)"""
    k = e[0]
    if k == "k":
        return "(%s)" % repr(e[1])
    if k == "v":
        return e[1]
    if k == "u":
        return "(%s %s)" % (UN[e[1]], render(e[2], mode))
    if k == "o":
        return "(%s %s %s)" % (render(e[2], mode), BIN[e[1]], render(e[3], mode))
    if k == "c":
        if mode != "mpf" and e[1] in REJ_CMP:
            return "_rej(%s, %s)" % (render(e[2], mode), render(e[3], mode))
        return "(%s %s %s)" % (render(e[2], mode), CMP[e[1]], render(e[3], mode))
    if k == "l":
        if mode == "strict":
            return "_%s(%s, %s)" % (e[1].lower(), render(e[2], mode), render(e[3], mode))
        return "(%s %s %s)" % (render(e[2], mode), e[1].lower(), render(e[3], mode))
    if k == "?":
        return "(%s if %s else %s)" % (render(e[2], mode), render(e[1], mode), render(e[3], mode))
    if k == "t":
        return "(" + "".join(render(x, mode) + ", " for x in e[1]) + ")"
    if k == "a":
        if mode == "mpf":
            return "%s.%s" % (render(e[1], mode), e[2])
        return "_attr(%s, %r)" % (render(e[1], mode), e[2])
    if k == "x":
        return "%s[%s]" % (render(e[1], mode), render(e[2], mode))
    if k == "sl":
        return "%s[%s:%s:%s]" % (render(e[1], mode), *("" if x is None else render(x, mode) for x in e[2:5]))
    if k == "chain":
        return "(%s < %s < %s)" % (render(e[1], mode), render(e[2], mode), render(e[3], mode))
    raise InfraError("expr %r" % (e,))


def tokens(e):
    k = e[0]
    if k == "k":
        return ["k"] + val_tokens(e[1])
    if k == "v":
        return ["v", e[1]]
    if k == "u":
        return ["u", e[1]] + tokens(e[2])
    if k in ("o", "c", "l"):
        return [k, e[1]] + tokens(e[2]) + tokens(e[3])
    if k == "?":
        return ["?"] + tokens(e[1]) + tokens(e[2]) + tokens(e[3])
    if k == "t":
        out = []
        for x in e[1]:
            out += ["tc"] + tokens(x)
        return out + ["t0"]
    if k == "a":
        return ["a", e[2]] + tokens(e[1])
    if k == "x":
        return ["x"] + tokens(e[1]) + tokens(e[2])
    if k == "sl":
        out = ["sl"] + tokens(e[1])
        for x in e[2:5]:
            out += ["k", "n"] if x is None else tokens(x)
        return out
    raise InfraError("expr %r" % (e,))


def text_render(pieces, mode="mpf"):
    out = ""
    for p in pieces:
        if p[0] == "lit":
            out += p[1]
        else:
            out += "{" + render(p[1], mode) + (":" + p[2] if p[2] else "") + "}"
    return out


def text_tokens(pieces):
    out = []
    for p in pieces:
        if p[0] == "lit":
            out += ["L", "=" + p[1].replace("{{", "{").replace("}}", "}")]
        else:
            out += ["F", p[2] or "-"] + tokens(p[1])
    return out


def kinds(e, acc=None):
    """node kinds used (for the histogram / signatures)"""
    acc = set() if acc is None else acc
    if not isinstance(e, tuple) or not e:
        return acc
    k = e[0]
    if k in ("u", "o", "c", "l"):
        acc.add(k + ":" + e[1])
    elif k == "v" and e[1] in ("machine", "settings", "current_player", "device", "players", "game", "mode"):
        acc.add("root:" + e[1])
    else:
        acc.add(k)
    for x in e[1:]:
        if isinstance(x, tuple):
            if x and isinstance(x[0], str) and x[0] in ("k", "v", "u", "o", "c", "l", "?", "t", "a", "x", "sl", "chain"):
                kinds(x, acc)
            else:
                for y in x:
                    kinds(y, acc)
    return acc


# ---------------------------------------------------------------------------------------------------------------------
# generators
# ---------------------------------------------------------------------------------------------------------------------
def loc_expr(r, loc):
    parts = loc.split(".")
    e = ("v", parts[0])
    if parts[0] == "players":
        e = ("x", e, ("k", int(parts[1])))
        rest = parts[2:]
    else:
        rest = parts[1:]
    done = parts[0]
    for p in rest:
        done += "." + p
        attr_only = any((done + ".").startswith(a) or done.startswith(a) for a in ATTR_ONLY)
        if r.random() < 0.3 and not attr_only:
            e = ("x", e, ("k", p))
        else:
            e = ("a", e, p)
    return e


def gen_leaf(r):
    x = r.random()
    if x < 0.20:
        return ("k", r.choice(INTS))
    if x < 0.27:
        return ("k", r.choice(FLOATS))
    if x < 0.34:
        return ("k", r.random() < 0.5)
    if x < 0.44:
        return ("k", r.choice(STRS))
    if x < 0.48:
        return ("k", None)
    if x < 0.62:
        return ("v", r.choice(PARAMS + (["q"] if r.random() < 0.15 else [])))
    return loc_expr(r, r.choice(LOCS))


def split(r, budget):
    l = r.randint(1, budget - 2) if budget > 2 else 1
    return l, max(1, budget - 1 - l)


def gen_expr(r, budget):
    if budget <= 1 or r.random() < 0.12:
        return gen_leaf(r)
    x = r.random()
    if x < 0.10:
        return ("u", r.choice(["USub", "Not", "Not"]), gen_expr(r, budget - 1))
    if x < 0.34:
        op = r.choice(["Add", "Sub", "Mult", "FloorDiv", "Div", "BitXor", "Mod", "Mod", "FloorDiv"])
        a, b = split(r, budget)
        return ("o", op, gen_expr(r, a), gen_expr(r, b))
    if x < 0.40:      # powers: the exponent is a constant so that nested towers cannot explode
        base = gen_leaf(r) if r.random() < 0.7 else ("o", r.choice(["Add", "Mult", "Sub"]), gen_leaf(r), gen_leaf(r))
        ex = r.choice(EXPONENTS) if r.random() < 0.8 else r.choice([0.5, 2.0, -1.0, True, "a", None])
        return ("o", "Pow", base, ("k", ex))
    if x < 0.45:      # str % args
        args = gen_leaf(r) if r.random() < 0.6 else ("t", tuple(gen_leaf(r) for _ in range(r.choice([0, 1, 2, 2, 3]))))
        return ("o", "Mod", ("k", r.choice(FMTS)), args)
    if x < 0.61:
        a, b = split(r, budget)
        return ("c", r.choice(["Eq", "Lt", "Gt", "LtE", "GtE", "NotEq"]), gen_expr(r, a), gen_expr(r, b))
    if x < 0.64:
        a, b = split(r, budget)
        return ("c", r.choice(REJ_CMP), gen_expr(r, a), gen_expr(r, b))
    if x < 0.76:
        a, b = split(r, budget)
        return ("l", r.choice(["And", "Or"]), gen_expr(r, a), gen_expr(r, b))
    if x < 0.85 and budget >= 4:
        a = r.randint(1, budget - 3)
        b = r.randint(1, budget - 2 - a)
        return ("?", gen_expr(r, a), gen_expr(r, b), gen_expr(r, max(1, budget - 1 - a - b)))
    if x < 0.90:
        n = r.choice([0, 1, 2, 2, 3])
        return ("t", tuple(gen_expr(r, max(1, (budget - 1) // max(n, 1))) for _ in range(n)))
    if x < 0.94:      # index into a sequence / a plain value
        seq = r.choice([("t", tuple(gen_leaf(r) for _ in range(r.choice([1, 2, 3])))), ("k", r.choice(STRS)),
                        ("v", r.choice(PARAMS)), gen_leaf(r)])
        return ("x", seq, ("k", r.choice([0, 1, 2, -1, -2, 5, True, "a", None, 1.5])))
    if x < 0.98:      # slices
        seq = r.choice([("t", tuple(gen_leaf(r) for _ in range(r.choice([0, 2, 3, 4])))), ("k", r.choice(STRS)),
                        ("k", "abcde"), ("v", r.choice(PARAMS)), gen_leaf(r)])

        def bound(step=False):
            y = r.random()
            if y < 0.35:
                return None
            if y < 0.85:
                return ("k", r.choice([0, 1, 2, -1, -2, 3, 7, -7] if not step else [1, 2, -1, -2, 0, 3]))
            if y < 0.92:
                return ("k", r.choice([True, None, 1.5, "a"]))
            return gen_leaf(r)
        return ("sl", seq, bound(), bound(), bound(True) if r.random() < 0.5 else None)
    return ("a", gen_expr(r, budget - 1), r.choice(["p", "a", "value"]))     # attribute of an arbitrary value


def tame(e):
    """a large power next to `*` could ask CPython for a gigabyte string / tuple: keep exponents small in such expressions"""
    ks = kinds(e)
    if "o:Pow" not in ks or "o:Mult" not in ks:
        return e

    def rw(x):
        if not isinstance(x, tuple) or not x:
            return x
        if x[0] == "o" and x[1] == "Pow" and x[3][0] == "k" and isinstance(x[3][1], int) and not isinstance(x[3][1], bool) \
                and x[3][1] > 3:
            return ("o", "Pow", rw(x[2]), ("k", 3))
        if x[0] == "t":
            return ("t", tuple(rw(y) for y in x[1]))
        if x[0] == "k":
            return x
        return tuple(rw(y) if isinstance(y, tuple) else y for y in x)
    return rw(e)


def gen_params(r):
    def val():
        return r.choice([r.choice(INTS), r.choice(INTS), r.choice(FLOATS), r.random() < 0.5, r.choice(STRS), None,
                         "abcde", (1, "a", 2)])
    return {p: val() for p in PARAMS}


def gen_text(r):
    pieces = []
    for _ in range(r.choice([1, 2, 2, 3])):
        if r.random() < 0.35:
            pieces.append(("lit", r.choice(LITS)))
        else:
            e = gen_leaf(r) if r.random() < 0.5 else tame(gen_expr(r, r.choice([2, 3, 4])))
            pieces.append(("fld", e, r.choice(SPECS)))
    if not any(p[0] == "fld" for p in pieces):
        pieces.append(("fld", gen_leaf(r), r.choice(SPECS)))
    return pieces


# ---------------------------------------------------------------------------------------------------------------------
# CPython oracle: the same text evaluated by eval() over recording stand-ins for the placeholder objects
# ---------------------------------------------------------------------------------------------------------------------
class FalsyParent(Exception):
    """attribute read from None / a falsy value"""


class AbsentRead(Exception):
    """the placeholder raised ValueError for this location"""


class Reject(Exception):
    """outside what MPF supports: must be rejected (never a value)"""


class Unmodelled(Exception):
    pass


class Rec:
    def __init__(self, env, path, reads):
        object.__setattr__(self, "_e", (env, path, reads))

    def _get(self, item, subscript):
        env, path, reads = object.__getattribute__(self, "_e")
        if subscript and path in NOT_SUBSCRIPTABLE:
            raise TypeError("not subscriptable")
        if path == ["players"]:
            if isinstance(item, bool) or not isinstance(item, int):
                raise Unmodelled()
            return Rec(env, path + [str(item)], reads)
        if not isinstance(item, str):
            raise Unmodelled()
        p = path + [item]
        loc = ".".join(p)
        if loc in env["objs"]:
            return Rec(env, p, reads)
        if len(p) - 1 <= DEPTH.get(p[0], 0):
            if p[0] == "mode":
                raise ValueError("not a valid mode name")      # nobody catches it: default / AssertionError when subscribing
            raise Reject()                  # AssertionError: no such device collection / device
        if loc not in env["vals"]:
            raise Unmodelled()
        reads.append(loc)
        v = env["vals"][loc]
        if v is ABSENT:
            raise AbsentRead()
        return v

    def __getitem__(self, item):
        return self._get(item, True)


def _attr(o, name):
    if isinstance(o, Rec):
        return o._get(name, False)
    if o is None or not o:
        raise FalsyParent()
    raise Reject()      # attribute of a plain value: AttributeError in both modes


def _rej(a, b):
    raise Reject()


class NS(dict):
    def __init__(self, env, sub, reads):
        super().__init__(env["params"])
        self.env, self.sub, self.reads = env, sub, reads
        self["_and"] = lambda a, b: a and b
        self["_or"] = lambda a, b: a or b
        self["_attr"] = _attr
        self["_rej"] = _rej

    def __getitem__(self, k):
        if k in ("machine", "settings", "current_player", "device", "players"):
            return Rec(self.env, [k], self.reads)
        if k in ("mode", "game"):
            if self.sub:
                raise Reject()      # ModePlaceholder / Game cannot be subscribed: rejected
            if k == "mode" or "game" in self.env["objs"]:
                return Rec(self.env, [k], self.reads)
            raise NameError(k)
        return super().__getitem__(k)


def has_special(v):
    if isinstance(v, float):
        return v != v or v in (float("inf"), float("-inf"))
    if isinstance(v, tuple):
        return any(has_special(x) for x in v)
    return isinstance(v, (complex, Rec)) or (isinstance(v, int) and abs(v) > 10 ** 400)


def cpython(text, env, sub):
    """-> (outcome, reads, raw value)"""
    reads = []
    ns = NS(env, sub, reads)
    try:
        v = eval(text, {"__builtins__": {}}, ns)
    except TypeError:
        return "raise TypeError", reads, None
    except (NameError, ValueError):
        return "raise NameError", reads, None       # a missing name is a ValueError in MPF: same class
    except FalsyParent:
        return "raise FalsyParent", reads, None
    except AbsentRead:
        return "raise Absent", reads, None
    except Unmodelled:
        return "unmodelled", reads, None
    except (Reject, ZeroDivisionError, IndexError, KeyError, OverflowError, AttributeError):
        return "raise Other", reads, None
    except MemoryError:
        return "unmodelled", reads, None
    if has_special(v):
        return "unmodelled", reads, None
    return "ok " + show_val(v), reads, v


def top(out):
    """BaseTemplate.evaluate: a template whose value is None yields the default"""
    return "default" if out == "ok N" else out


def expected_out(py, sub):
    """MPF's documented mapping of the strict Python outcome"""
    if py.startswith("ok") or py == "unmodelled":
        return top(py)
    return {"raise TypeError": "default", "raise NameError": "crash" if sub else "default",
            "raise FalsyParent": "default" if sub else "crash", "raise Absent": "default", "raise Other": "crash"}[py]


class OracleFormatter(string.Formatter):
    """string.Formatter with every field evaluated by CPython (strict) - the specification of TextTemplate"""

    def __init__(self, fields, env, sub, reads):
        self.fields, self.env, self.sub, self.reads = fields, env, sub, reads

    def get_field(self, field_name, args, kwargs):
        if field_name not in self.fields:
            raise Unmodelled()
        py, reads, v = cpython(render(self.fields[field_name], "strict"), self.env, self.sub)
        self.reads += reads
        want = expected_out(py, self.sub)
        if want == "unmodelled":
            raise Unmodelled()
        if want == "crash":
            raise Reject()
        return (None if want == "default" else v), field_name

    def format_field(self, value, format_spec):
        if value is None and format_spec[-1:] == "d":     # documented: None formats as 0 with an integer spec
            value = 0
        return super().format_field(value, format_spec)


def text_parses(pieces):
    """does Python's format-string parser see exactly the generated pieces (an expression containing `!=` or `:` does not)?"""
    try:
        parsed = [(f, sp) for _, f, sp, cv in string.Formatter().parse(text_render(pieces)) if f is not None or cv]
    except ValueError:
        return False
    return parsed == [(render(p[1], "mpf"), p[2]) for p in pieces if p[0] == "fld"]


def text_oracle(pieces, env, sub):
    reads = []
    fields = {render(p[1], "mpf"): p[1] for p in pieces if p[0] == "fld"}
    try:
        s = OracleFormatter(fields, env, sub, reads).format(text_render(pieces))
    except Unmodelled:
        return "unmodelled", reads
    except Exception:
        return "crash", reads
    return "ok " + show_val(s), reads


# ---------------------------------------------------------------------------------------------------------------------
# real machine
# ---------------------------------------------------------------------------------------------------------------------
CONFIG = """
modes:
  - m1
  - m2
switches:
  s_a:
    number: 5
settings:
  s1:
    label: s1
    values:
      0: zero
      1: one
      2: two
    default: 0
    key_type: int
    sort: 1
  s2:
    label: s2
    values:
      0: zero
      1: one
      2: two
    default: 0
    key_type: int
    sort: 2
    machine_var: op_s2_backing
counters:
  c1:
    count_events: c1_count
    starting_count: 0
    enable_events: c1_enable
    disable_events: c1_disable
    control_events:
      - action: jump
        event: c1_set0
        value: 0
      - action: jump
        event: c1_set1
        value: 1
      - action: jump
        event: c1_set2
        value: 2
      - action: jump
        event: c1_set5
        value: 5
state_machines:
  sm1:
    states:
      start:
        label: st
      one:
        label: one
    transitions:
      - source: start
        target: one
        events: sm_go
      - source: one
        target: start
        events: sm_back
"""
MODES = {"m1": """
mode:
  start_events: start_m1
  stop_events: stop_m1
  game_mode: false
  priority: 300
timers:
  t1:
    start_value: 0
    end_value: 1000
    direction: up
    control_events:
      - action: start
        event: t1_start
      - action: stop
        event: t1_stop
""", "m2": """
mode:
  start_events: start_m2
  stop_events: stop_m2
  priority: 200
shots:
  sh1:
    hit_events: sh1_do_hit
    enable_events: sh1_enable
    disable_events: sh1_disable
"""}
EVENTS = ["c1_count", "c1_set0", "c1_set1", "c1_set2", "c1_set5", "c1_enable", "c1_disable", "sm_go", "sm_back",
          "t1_start", "t1_stop", "sh1_enable", "sh1_do_hit", "sh1_disable"]
_CUR = {}
BASE_TIME = datetime.datetime(2024, 5, 17, 9, 58, 50)


def pv(player, name):
    return player.vars.get(name, 0)


class Real:
    SENT = object()

    def __init__(self):
        from harness.common.vmachine import VMachine
        self.broken = False
        self.history = []
        self.vm = VMachine(CONFIG, modes=MODES, game=True).start()
        self.m = self.vm.machine
        self.pm = self.m.placeholder_manager
        self.vm.align(1.0)
        self.use()
        type(self.m.clock).get_datetime = staticmethod(lambda: BASE_TIME + datetime.timedelta(seconds=_CUR["loop"].time()))

        def _add_ball(**kwargs):
            self.m.playfield.balls += 1
            self.m.playfield.available_balls += 1
        self.m.playfield.add_ball = _add_ball
        self.m.ball_controller.num_balls_known = 3

    def settle(self):
        """run the loop until the chains event -> future -> Util.any task -> done callbacks have all completed (the harness's own
        sleep(0) ends the loop after two or three iterations; a chain through asyncio.wait needs more)"""
        for _ in range(8):
            self.vm.run()

    def use(self):
        """the patched clock (a class attribute: TestClock has slots) follows the loop of the machine in use"""
        _CUR["loop"] = self.vm.tc.loop
        from asyncio import events
        events.set_event_loop(self.vm.tc.loop)       # another machine (shrinking) may have been closed in between

    # -- operations (each is JSON-able; a precondition that does not hold makes it a no-op) ------------------------------
    def apply(self, op):
        m, vm = self.m, self.vm
        self.use()
        k = op[0]
        g = m.game
        if k == "game_start":
            if not g:
                vm.tc.hit_and_release_switch("s_start")
                vm.advance(1)
        elif k == "add_player":
            if g and g.player and g.player.vars.get("ball") == 1 and g.num_players < 4:
                vm.tc.hit_and_release_switch("s_start")
                vm.advance(1)
        elif k == "drain":
            if g and g.player and g.balls_in_play > 0:
                for _ in range(g.balls_in_play):
                    res = vm.tc.post_relay_event_with_params("ball_drain", balls=1)
                    m.playfield.balls -= res["balls"]
                    m.playfield.available_balls -= res["balls"]
                vm.advance(1)
        elif k == "game_end":
            if g:
                g.end_game()
                vm.advance(1)
                m.playfield.balls = 0
                m.playfield.available_balls = 0
        elif k == "mode":
            vm.post(("start_" if op[2] else "stop_") + op[1])
        elif k == "mvar":
            m.variables.set_machine_var(op[1], op[2])
        elif k == "setting":
            m.settings.set_setting_value(op[1], op[2])
        elif k == "pvar":
            if g and g.player:
                pl = g.player if op[1] == "cur" else (g.player_list[op[1]] if op[1] < len(g.player_list) else None)
                if pl is not None:
                    pl[op[2]] = op[3]
        elif k == "event":
            vm.post(op[1])
        elif k == "switch":
            vm.hit_switch(op[1], op[2])
        elif k == "advance":
            vm.advance(op[1])
        elif k == "tilt":
            if g:
                g.tilted = op[1]
        else:
            raise InfraError("op %r" % (op,))
        self.settle()
        self.history.append(list(op))

    def snapshot(self):
        m = self.m
        self.use()
        vals, objs = {}, set()
        for n in ("a", "b"):
            vals["machine." + n] = m.variables.get_machine_var(n)
        objs.add("machine.time")
        now = m.clock.get_datetime()
        for n in ("second", "minute", "hour"):
            vals["machine.time." + n] = getattr(now, n)
        for n in ("s1", "s2"):
            vals["settings." + n] = m.settings.get_setting_value(n)
        g = m.game
        players = g.player_list if (g and g.player) else None
        for n in PVARS:
            vals["current_player." + n] = pv(g.player, n) if players is not None else ABSENT
        for i in (0, 1, 2, -1):
            for n in ("p", "score"):
                if players is None or len(players) <= i:
                    vals["players.%d.%s" % (i, n)] = ABSENT
                else:
                    vals["players.%d.%s" % (i, n)] = pv(players[i], n)
        if g:
            objs.add("game")
            for n in ("num_players", "tilted", "balls_in_play"):
                vals["game." + n] = getattr(g, n)
            if g.player:
                objs.add("game.player")
                for n in ("p", "ball"):
                    vals["game.player." + n] = pv(g.player, n)
            else:
                vals["game.player"] = None
        for name in ("m1", "m2"):
            objs.add("mode." + name)
            vals["mode.%s.active" % name] = m.modes[name].active
            vals["mode.%s.priority" % name] = m.modes[name].priority
        for loc in LOCS:
            p = loc.split(".")
            if p[0] != "device":
                continue
            objs.add("device." + p[1])
            objs.add("device.%s.%s" % (p[1], p[2]))
            dev = getattr(m, p[1])[p[2]]
            try:
                vals[loc] = getattr(dev, p[3]) if p[3] != "nosuch" else ABSENT
            except ValueError:
                vals[loc] = ABSENT
            if not (vals[loc] is ABSENT or vals[loc] is None or isinstance(vals[loc], (int, str, float))):
                raise InfraError("device value %s = %r" % (loc, vals[loc]))
        return {"vals": vals, "objs": sorted(objs)}

    # -- the evaluator under test ------------------------------------------------------------------------------------------
    def _tpl(self, kind, text):
        self.use()
        if kind == "text":
            return self.pm.build_text_template(text)
        return self.pm.build_raw_template(text, default_value=self.SENT)

    def canon(self, v):
        return "default" if v is self.SENT else "ok " + show_val(v)

    def evaluate(self, kind, text, params):
        try:
            v = self._tpl(kind, text).evaluate(dict(params))
        except BaseException:
            return "crash"
        return self.canon(v)

    def subscribe(self, kind, text, params):
        """-> (outcome, future, template, raw value)"""
        try:
            tpl = self._tpl(kind, text)
            v, fut = tpl.evaluate_and_subscribe(dict(params))
        except BaseException:
            return "crash", None, None, None
        try:
            self.settle()       # a broken subscription list only explodes inside the Util.any task
        except BaseException:
            self.broken = True
            return "crash", None, None, None
        return self.canon(v), fut, tpl, v

    def close(self):
        self.vm.stop()
