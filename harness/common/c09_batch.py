"""C09 batched back end: a test platform whose lights derive from the real PlatformBatchLight and which owns a real
PlatformBatchLightSystem; the update callback is slow (it yields for 1.5 ticks), so commands arrive while a batch is in
flight.  Nothing of the code under test is mocked; only the transport ("what was sent") is recorded."""
import asyncio

from mpf.core.platform import LightsPlatform
from mpf.core.platform_batch_light_system import PlatformBatchLight, PlatformBatchLightSystem

SEND_LATENCY = 0.1875     # 1.5 ticks of 1/8 s


class BatchTestLight(PlatformBatchLight):

    def __init__(self, number, system, index):
        super().__init__(number, system)
        self.index = index
        self.sent = None
        self.sends = 0

    def get_max_fade_ms(self):
        return 0

    def get_board_name(self):
        return "batchtest"

    def is_successor_of(self, other):
        return self.index == other.index + 1

    def get_successor_number(self):
        return str(self.index + 1)

    def __lt__(self, other):
        return self.index < other.index


class BatchTestPlatform(LightsPlatform):

    def __init__(self, machine):
        super().__init__(machine)
        self.features["tickless"] = True
        self.system = None
        self.lights = {}
        self.in_flight = 0

    async def initialize(self):
        self.system = PlatformBatchLightSystem(self.machine.clock, self._send, self.machine.config["mpf"][
            "default_light_hw_update_hz"], 2)

    async def start(self):
        self.system.start()

    def stop(self):
        if self.system:
            self.system.stop()

    async def _send(self, seq):
        self.in_flight += 1
        await asyncio.sleep(SEND_LATENCY)
        self.in_flight -= 1
        for light, brightness, _fade in seq:
            light.sent = brightness
            light.sends += 1

    def parse_light_number_to_channels(self, number, subtype):
        if subtype == "matrix":
            return [{"number": str(number)}]
        n = int(number)
        return [{"number": str(n)}, {"number": str(n + 1)}, {"number": str(n + 2)}]

    def configure_light(self, number, subtype, config, platform_settings):
        light = BatchTestLight(number, self.system, int(number))
        self.lights[int(number)] = light
        return light


def config(hz, profile):
    s = "mpf:\n  default_light_hw_update_hz: %d\n  platforms:\n    batchtest: harness.common.c09_batch.BatchTestPlatform\n" % hz
    s += "hardware:\n  platform: virtual\n  lights: batchtest\n"
    if profile:
        s += ("light_settings:\n  default_color_correction_profile: p1\n  color_correction_profiles:\n    p1:\n"
              "      gamma: 2.0\n      whitepoint: [0.9, 0.8, 1.0]\n      linear_slope: 0.75\n      linear_cutoff: 0.1\n")
    s += "lights:\n  b3: {number: 10, subtype: led}\n  b1: {number: 20, subtype: matrix}\n"
    return s, None


def attach(run):
    # a fade ends, the scheduler re-dirties the light, a batch may be in flight (1.5 ticks), then poll sleep + send
    run.batch_lag = 2 * (2 + run.interval) + 4
