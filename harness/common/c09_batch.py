"""C09 batched back end: a test platform whose lights derive from the real PlatformBatchLight and which owns a real
PlatformBatchLightSystem; the update callback is slow (it yields for 1.5 ticks), so commands arrive while a batch is in
flight.  Nothing of the code under test is mocked; only the transport ("what was sent") is recorded."""
import asyncio

from mpf.core.platform import LightsPlatform
from mpf.core.platform_batch_light_system import PlatformBatchLight, PlatformBatchLightSystem

SEND_LATENCY = 0.1875     # 1.5 ticks of 1/8 s (2 ticks when the lights fade in hardware: everything stays on the 1/8 s grid)
MAX_FADE_MS = 0           # what the lights answer to get_max_fade_ms(); > 0: the hardware fades on its own
BATCH_SIZE = 2            # max_batch_size of the PlatformBatchLightSystem
FILL = [("f1", 13), ("f2", 15), ("f3", 21)]     # extra single-channel lights with their own commands (vary the dirty sets)


class BatchTestLight(PlatformBatchLight):

    def __init__(self, number, system, index):
        super().__init__(number, system)
        self.index = index
        self.sent = None
        self.sends = 0

    def get_max_fade_ms(self):
        return MAX_FADE_MS

    # the two calls below only add logging around the real PlatformBatchLight methods
    def set_fade(self, start_brightness, start_time, target_brightness, target_time):
        p = self.platform
        p.in_mark = True
        try:
            p.log.append(("mark", p.machine.clock.get_time(), self.index, start_brightness, start_time, target_brightness,
                          target_time))
            return super().set_fade(start_brightness, start_time, target_brightness, target_time)
        finally:
            p.in_mark = False

    def get_fade_and_brightness(self, current_time):
        res = super().get_fade_and_brightness(current_time)
        self.platform.log.append(("compute", current_time, self.index, res[0], res[2], res[1], self._current_fade))
        return res

    def get_board_name(self):
        return "batchtest"

    def is_successor_of(self, other):
        return self.index == other.index + 1

    def get_successor_number(self):
        return str(self.index + 1)

    def __lt__(self, other):
        return self.index < other.index


class BatchTestPlatform(LightsPlatform):

    def __init__(self, machine):
        super().__init__(machine)
        self.features["tickless"] = True
        self.system = None
        self.lights = {}
        self.in_flight = 0
        self.in_mark = False
        self.log = []

    async def initialize(self):
        self.system = PlatformBatchLightSystem(self.machine.clock, self._send, self.machine.config["mpf"][
            "default_light_hw_update_hz"], BATCH_SIZE)
        platform = self
        from sortedcontainers import SortedSet

        class LoggedSet(SortedSet):
            # `dirty_lights.clear()` = the sender takes the dirty set (one round begins)
            def clear(self):
                platform.log.append(("take", platform.machine.clock.get_time(), [light.index for light in self]))
                return super().clear()
        self.system.dirty_lights = LoggedSet()

        class LoggedEvent(asyncio.Event):
            # `dirty_lights_changed.set()` outside `mark_dirty` = one iteration of the scheduler task
            def set(self):
                if not platform.in_mark:
                    platform.log.append(("schedfire", platform.machine.clock.get_time()))
                return super().set()
        self.system.dirty_lights_changed = LoggedEvent()

    async def start(self):
        self.system.start()

    def stop(self):
        if self.system:
            self.system.stop()

    async def _send(self, seq):
        self.in_flight += 1
        self.log.append(("flush", self.machine.clock.get_time(), [(light.index, brightness) for light, brightness, _ in seq],
                         [fade for _, _, fade in seq]))
        await asyncio.sleep(SEND_LATENCY)
        self.in_flight -= 1
        for light, brightness, _fade in seq:
            light.sent = brightness
            light.sends += 1
        self.log.append(("delivered", self.machine.clock.get_time()))

    def parse_light_number_to_channels(self, number, subtype):
        if subtype == "matrix":
            return [{"number": str(number)}]
        n = int(number)
        return [{"number": str(n)}, {"number": str(n + 1)}, {"number": str(n + 2)}]

    def configure_light(self, number, subtype, config, platform_settings):
        light = BatchTestLight(number, self.system, int(number))
        light.platform = self
        self.lights[int(number)] = light
        return light


def config(case):
    global MAX_FADE_MS, SEND_LATENCY, BATCH_SIZE
    hz, profile = case["hz"], case["profile"]
    MAX_FADE_MS = 125 * case.get("bhwm", 0)
    SEND_LATENCY = 0.25 if MAX_FADE_MS else 0.1875
    BATCH_SIZE = case.get("bsize", 2)
    s = "mpf:\n  default_light_hw_update_hz: %d\n  platforms:\n    batchtest: harness.common.c09_batch.BatchTestPlatform\n" % hz
    s += "hardware:\n  platform: virtual\n  lights: batchtest\n"
    if profile:
        s += ("light_settings:\n  default_color_correction_profile: p1\n  color_correction_profiles:\n    p1:\n"
              "      gamma: 2.0\n      whitepoint: [0.9, 0.8, 1.0]\n      linear_slope: 0.75\n      linear_cutoff: 0.1\n")
    on = "%02x%02x%02x" % tuple(case.get("onc", (255, 255, 255)))
    s += ('lights:\n  b3: {number: 10, subtype: led, default_on_color: "%s"}\n'
          '  b1: {number: 20, subtype: matrix, default_on_color: "%s"}\n' % (on, on))
    for name, number in FILL:
        s += "  %s: {number: %d, subtype: matrix}\n" % (name, number)
    return s, None


def attach(run):
    # a fade ends, the scheduler re-dirties the light, a batch may be in flight (up to 2 ticks), then poll sleep + send
    # (a round = one callback of SEND_LATENCY per list; a command that just missed a round waits for that round, the poll
    # sleep and its own round)
    import math
    lists = sum(math.ceil(n / BATCH_SIZE) for n in (4, 1, 2))       # channels 10-13, 15, 20-21
    run.batch_lag = int(math.ceil(2 * lists * SEND_LATENCY / 0.125)) + 2 * run.interval + 4
    run.batch_platform = run.vm.machine.hardware_platforms["batchtest"]


def fill_ops(run, n):
    """the extra lights' own commands that follow main op number n"""
    from mpf.core.rgb_color import RGBColor
    for at, which, c, fade in run.case.get("fill", []):
        if at == n:
            try:
                run.vm.machine.lights[FILL[which][0]].color(RGBColor(c), fade_ms=fade * 125, key="f")
            except Exception as e:  # noqa: an exception out of the real code is an observation
                run.fail.append(("crash-color", {"light": FILL[which][0], "t": run.tick(), "error": repr(e)}))
            run.fill_busy = max(getattr(run, "fill_busy", -1), run.tick() + fade)


def _line(fade, at):
    sb, st, tb, tt = fade
    return min(1.0, max(0.0, sb + (tb - sb) * (at - st) / (tt - st)))


def oracle(run):
    """On the platform's log, for every channel of the batched platform (the extra lights too).
    PROPERTY (fails): at rest the platform has received, for every channel, the corrected logical colour of its light (the
    main lights are checked per sample by Run.oracle_sample; here the extra lights).
    OBSERVATIONS (transient hardware output, outside what C09 states; counted, never failed): per round (one taken dirty
    set) every dirty channel is handed to the update callback exactly once, with the brightness computed for it in this
    round, in lists of successive channels no longer than the batch size; a channel is left out only when the last thing
    transmitted to it was already that brightness; every (brightness, fade) pair lies on the channel's logical fade and
    never exceeds the hardware's maximum fade (not so on the code as it is - D31: the cached target is answered with
    fade 0 while the hardware fade is running)."""
    p = run.batch_platform
    M = MAX_FADE_MS
    tol = int(1 / p.system.update_hz * 1000)
    last_sent = {}          # index -> brightness last handed to the callback
    rounds = []             # [taken, {index: (b, fade_ms, done)}, [flush lists]]

    def close(rnd):
        taken, comp, lists, before = rnd
        sent = [i for lst in lists for i, _ in lst]
        if len(sent) != len(set(sent)):
            run.observe("batch_channel_sent_twice_in_one_round")
        for i in taken:
            if i in comp and i not in sent:
                b, _, done = comp[i]
                if not done or before.get(i) is None or abs(before[i] - b) > 1e-9:
                    run.observe("batch_dirty_channel_not_sent")
        for i in sent:
            if i not in taken:
                run.observe("batch_clean_channel_sent")
        run.observe("batch_rounds_checked")

    for ev in p.log:
        kind = ev[0]
        if kind == "take":
            if rounds:
                close(rounds[-1])
            rounds.append([list(ev[2]), {}, [], dict(last_sent)])
        elif kind == "compute":
            _, ct, i, b, done, fade_ms, fade = ev
            if rounds:
                rounds[-1][1][i] = (b, fade_ms, done)
            sb, st, tb, tt = fade
            off = False
            if not (0 <= fade_ms <= max(M, 0)):
                off = True
            elif tt < 0 or (tt - ct) * 1000.0 <= M + 1e-6:
                off = not done or abs(b - tb) > 1e-9 or (tt >= 0 and abs(fade_ms - max(0.0, (tt - ct) * 1000.0)) > 1.0)
            else:
                off = done or fade_ms != M or abs(b - _line(fade, ct + M / 1000.0)) > 1e-9
            run.observe("batch_hw_fade_command_off_the_logical_fade" if off else "batch_hw_fade_command_on_the_logical_fade")
        elif kind == "flush":
            lst, fades = ev[2], ev[3]
            if rounds:
                rounds[-1][2].append(lst)
                comp = rounds[-1][1]
                for (i, b), f in zip(lst, fades):
                    if i not in comp or abs(comp[i][0] - b) > 1e-9:
                        run.observe("batch_channel_sent_with_wrong_brightness")
                    elif not abs(comp[i][1] - f) < max(tol, 1):
                        run.observe("batch_fade_differs_by_tolerance_or_more")
            idx = [i for i, _ in lst]
            if not idx or len(idx) > BATCH_SIZE or any(b != a + 1 for a, b in zip(idx, idx[1:])):
                run.observe("batch_list_not_sequential_or_too_long")
            for i, b in lst:
                last_sent[i] = b
    if rounds and not (p.in_flight or p.system.dirty_lights):
        close(rounds[-1])
    # at rest: the extra lights' channels carry their lights' corrected logical colour
    t = run.tick()
    rest_from = max(run.busy_until, run.last_op_t, getattr(run, "fill_busy", -1)) + run.batch_lag
    if t >= rest_from:
        for name, number in FILL:
            light = run.vm.machine.lights[name]
            col = tuple(light.get_color())
            want = min(run.corrected(light, col)) / 255
            hw = p.lights[number].sent
            if (hw if hw is not None else 0.0) != want and abs((hw or 0.0) - want) > 1e-9:
                run.fail.append(("quiescent-hw-differs-batch", {"light": name, "channel": number, "hw": hw, "want": want,
                                                                "logical": col, "t": t}))
                break
    return len(rounds)


UNIT = 1.0 / 16


def _u(t):
    x = t / UNIT
    if abs(x - round(x)) > 1e-9:
        raise ValueError("time off the 1/16 s grid: %r" % t)
    return int(round(x))


def model_check(ctx, model, run, case):
    """Feed the platform's log (marks, scheduler iterations, computations, callback starts/ends - in the order in which
    they really happened) to the batch model; compare every brightness, every transmitted list and the final state."""
    p = run.batch_platform
    interval = {8: 1, 4: 2, 2: 4}[case["hz"]]
    # hardware max fade and fade tolerance in model units (1/16 s), batch size
    if model.ask("B reset %d %d %d" % (2 * case.get("bhwm", 0), case.get("bsize", 2), 2 * interval)) != "ok":
        raise ValueError("batch model reset failed")
    now = None
    queued = 0      # lights computed and not skipped since the last callback start
    for ev in p.log:
        kind, t = ev[0], _u(ev[1])
        what = dict(case, backend="batch", at=t, event=kind)
        if t != now:
            ans = model.ask("B adv %d" % t)
            if ans != "ok":
                ctx.compare(what, "time advances", ans)
                return
            now = t
        if kind == "mark":
            _, _, l, sb, st, tb, tt = ev
            line = "B mark %d %d %d %d %s" % (l, round(sb * 255), _u(st) if st >= 0 else 0, round(tb * 255),
                                              _u(tt) if tt >= 0 else "-")
            if abs(sb * 255 - round(sb * 255)) > 1e-6 or abs(tb * 255 - round(tb * 255)) > 1e-6:
                raise ValueError("brightness not k/255")
            if not ctx.compare(dict(what, line=line), "ok", model.ask(line)):
                return
        elif kind == "schedfire":
            if not ctx.compare(what, "ok", model.ask("B schedfire")):
                return
        elif kind == "take":
            # the previous round is over: the lists handed to the callback must be the grouping function's
            if not ctx.compare(dict(what, what="grouping of the previous round"), "ok", model.ask("B roundok")):
                return
        elif kind == "compute":
            _, _, l, b, done, fade_ms, _ = ev
            ans = model.ask("B compute %d" % l)
            ok = False
            if ans == "skip":
                ok = bool(done)
            elif ans.startswith("q "):
                queued += 1
                frac, d, fd = ans.split()[1:]
                num, den = frac.split("/")
                ok = (int(den) > 0 and abs(int(num) / int(den) - b) < 1e-9 and (d == "1") == bool(done)
                      and abs(int(fd) * 62.5 - fade_ms) < 1e-9)
            if not ctx.compare(dict(what, light=l), "computed" if ok else ["computed", b, done, fade_ms],
                               "computed" if ok else ans):
                return
        elif kind == "flush":
            # the light computed last may not have fitted into this list (batch size / fade tolerance)
            keep = len(ev[2]) == queued - 1
            ans = model.ask("B flushkeep" if keep else "B flush")
            queued = 1 if keep else 0
            ok = ans.startswith("f")
            if ok:
                items = ans.split()[2:]
                ok = len(items) == len(ev[2]) and all(abs(int(ans.split()[1]) * 62.5 - f) < 1e-9 for f in ev[3])
                for it, (l, b) in zip(items, ev[2]):
                    ll, frac = it.split(":")
                    num, den = frac.split("/")
                    if int(ll) != l or int(den) <= 0 or abs(int(num) / int(den) - b) > 1e-9:
                        ok = False
            if not ctx.compare(what, "list" if ok else ["list", ev[2]], "list" if ok else ans):
                return
        elif kind == "delivered":
            if not ctx.compare(what, "ok", model.ask("B delivered")):
                return
    if not (p.in_flight or p.system.dirty_lights):
        if not ctx.compare(dict(case, backend="batch", what="grouping of the last round"), "ok", model.ask("B roundok")):
            return
    ans = model.ask("B state 22")
    hw = ans.split("| h")[1].split()
    ok = True
    for idx, light in p.lights.items():
        m = hw[idx]
        if light.sent is None:
            ok = ok and m == "-"
        else:
            ok = ok and m != "-" and abs(int(m.split("/")[0]) / int(m.split("/")[1]) - light.sent) < 1e-9
    rest = ans.split("| h")[0].replace("d", "").replace("s", "").replace("|", "").split()
    impl_rest = sorted(l.index for l in p.system.dirty_lights) + sorted(x[1].index for x in p.system.dirty_schedule)
    ctx.compare(dict(case, backend="batch", what="final platform state"), ["hw", True, impl_rest], ["hw", ok, [int(x) for x in rest]])
