"""C09 batched back end: a test platform whose lights derive from the real PlatformBatchLight and which owns a real
PlatformBatchLightSystem; the update callback is slow (it yields for 1.5 ticks), so commands arrive while a batch is in
flight.  Nothing of the code under test is mocked; only the transport ("what was sent") is recorded."""
import asyncio

from mpf.core.platform import LightsPlatform
from mpf.core.platform_batch_light_system import PlatformBatchLight, PlatformBatchLightSystem

SEND_LATENCY = 0.1875     # 1.5 ticks of 1/8 s


class BatchTestLight(PlatformBatchLight):

    def __init__(self, number, system, index):
        super().__init__(number, system)
        self.index = index
        self.sent = None
        self.sends = 0

    def get_max_fade_ms(self):
        return 0

    # the two calls below only add logging around the real PlatformBatchLight methods
    def set_fade(self, start_brightness, start_time, target_brightness, target_time):
        p = self.platform
        p.in_mark = True
        try:
            p.log.append(("mark", p.machine.clock.get_time(), self.index, start_brightness, start_time, target_brightness,
                          target_time))
            return super().set_fade(start_brightness, start_time, target_brightness, target_time)
        finally:
            p.in_mark = False

    def get_fade_and_brightness(self, current_time):
        res = super().get_fade_and_brightness(current_time)
        self.platform.log.append(("compute", current_time, self.index, res[0], res[2]))
        return res

    def get_board_name(self):
        return "batchtest"

    def is_successor_of(self, other):
        return self.index == other.index + 1

    def get_successor_number(self):
        return str(self.index + 1)

    def __lt__(self, other):
        return self.index < other.index


class BatchTestPlatform(LightsPlatform):

    def __init__(self, machine):
        super().__init__(machine)
        self.features["tickless"] = True
        self.system = None
        self.lights = {}
        self.in_flight = 0
        self.in_mark = False
        self.log = []

    async def initialize(self):
        self.system = PlatformBatchLightSystem(self.machine.clock, self._send, self.machine.config["mpf"][
            "default_light_hw_update_hz"], 2)
        platform = self

        class LoggedEvent(asyncio.Event):
            # `dirty_lights_changed.set()` outside `mark_dirty` = one iteration of the scheduler task
            def set(self):
                if not platform.in_mark:
                    platform.log.append(("schedfire", platform.machine.clock.get_time()))
                return super().set()
        self.system.dirty_lights_changed = LoggedEvent()

    async def start(self):
        self.system.start()

    def stop(self):
        if self.system:
            self.system.stop()

    async def _send(self, seq):
        self.in_flight += 1
        self.log.append(("flush", self.machine.clock.get_time(), [(light.index, brightness) for light, brightness, _ in seq]))
        await asyncio.sleep(SEND_LATENCY)
        self.in_flight -= 1
        for light, brightness, _fade in seq:
            light.sent = brightness
            light.sends += 1
        self.log.append(("delivered", self.machine.clock.get_time()))

    def parse_light_number_to_channels(self, number, subtype):
        if subtype == "matrix":
            return [{"number": str(number)}]
        n = int(number)
        return [{"number": str(n)}, {"number": str(n + 1)}, {"number": str(n + 2)}]

    def configure_light(self, number, subtype, config, platform_settings):
        light = BatchTestLight(number, self.system, int(number))
        light.platform = self
        self.lights[int(number)] = light
        return light


def config(hz, profile):
    s = "mpf:\n  default_light_hw_update_hz: %d\n  platforms:\n    batchtest: harness.common.c09_batch.BatchTestPlatform\n" % hz
    s += "hardware:\n  platform: virtual\n  lights: batchtest\n"
    if profile:
        s += ("light_settings:\n  default_color_correction_profile: p1\n  color_correction_profiles:\n    p1:\n"
              "      gamma: 2.0\n      whitepoint: [0.9, 0.8, 1.0]\n      linear_slope: 0.75\n      linear_cutoff: 0.1\n")
    s += "lights:\n  b3: {number: 10, subtype: led}\n  b1: {number: 20, subtype: matrix}\n"
    return s, None


def attach(run):
    # a fade ends, the scheduler re-dirties the light, a batch may be in flight (1.5 ticks), then poll sleep + send
    run.batch_lag = 2 * (2 + run.interval) + 4
    run.batch_platform = run.vm.machine.hardware_platforms["batchtest"]


UNIT = 1.0 / 16


def _u(t):
    x = t / UNIT
    if abs(x - round(x)) > 1e-9:
        raise ValueError("time off the 1/16 s grid: %r" % t)
    return int(round(x))


def model_check(ctx, model, run, case):
    """Feed the platform's log (marks, scheduler iterations, computations, callback starts/ends - in the order in which
    they really happened) to the batch model; compare every brightness, every transmitted list and the final state."""
    p = run.batch_platform
    if model.ask("B reset") != "ok":
        raise ValueError("batch model reset failed")
    now = None
    queued = 0      # lights computed and not skipped since the last callback start
    for ev in p.log:
        kind, t = ev[0], _u(ev[1])
        what = dict(case, backend="batch", at=t, event=kind)
        if t != now:
            ans = model.ask("B adv %d" % t)
            if ans != "ok":
                ctx.compare(what, "time advances", ans)
                return
            now = t
        if kind == "mark":
            _, _, l, sb, st, tb, tt = ev
            line = "B mark %d %d %d %d %s" % (l, round(sb * 255), _u(st) if st >= 0 else 0, round(tb * 255),
                                              _u(tt) if tt >= 0 else "-")
            if abs(sb * 255 - round(sb * 255)) > 1e-6 or abs(tb * 255 - round(tb * 255)) > 1e-6:
                raise ValueError("brightness not k/255")
            if not ctx.compare(dict(what, line=line), "ok", model.ask(line)):
                return
        elif kind == "schedfire":
            if not ctx.compare(what, "ok", model.ask("B schedfire")):
                return
        elif kind == "compute":
            _, _, l, b, done = ev
            ans = model.ask("B compute %d" % l)
            ok = False
            if ans == "skip":
                ok = bool(done)
            elif ans.startswith("q "):
                queued += 1
                frac, d = ans.split()[1:]
                num, den = frac.split("/")
                ok = int(den) > 0 and abs(int(num) / int(den) - b) < 1e-9 and (d == "1") == bool(done)
            if not ctx.compare(dict(what, light=l), "computed" if ok else ["computed", b, done], "computed" if ok else ans):
                return
        elif kind == "flush":
            # the light computed last may not have fitted into this list (batch size / fade tolerance)
            keep = len(ev[2]) == queued - 1
            ans = model.ask("B flushkeep" if keep else "B flush")
            queued = 1 if keep else 0
            ok = ans.startswith("f")
            if ok:
                items = ans.split()[1:]
                ok = len(items) == len(ev[2])
                for it, (l, b) in zip(items, ev[2]):
                    ll, frac = it.split(":")
                    num, den = frac.split("/")
                    if int(ll) != l or int(den) <= 0 or abs(int(num) / int(den) - b) > 1e-9:
                        ok = False
            if not ctx.compare(what, "list" if ok else ["list", ev[2]], "list" if ok else ans):
                return
        elif kind == "delivered":
            if not ctx.compare(what, "ok", model.ask("B delivered")):
                return
    ans = model.ask("B state 21")
    hw = ans.split("| h")[1].split()
    ok = True
    for idx, light in p.lights.items():
        m = hw[idx]
        if light.sent is None:
            ok = ok and m == "-"
        else:
            ok = ok and m != "-" and abs(int(m.split("/")[0]) / int(m.split("/")[1]) - light.sent) < 1e-9
    rest = ans.split("| h")[0].replace("d", "").replace("s", "").replace("|", "").split()
    impl_rest = sorted(l.index for l in p.system.dirty_lights) + sorted(x[1].index for x in p.system.dirty_schedule)
    ctx.compare(dict(case, backend="batch", what="final platform state"), ["hw", True, impl_rest], ["hw", ok, [int(x) for x in rest]])
