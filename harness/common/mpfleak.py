"""MPF keeps every machine ever booted in a process alive through two class-level caches (harmless for one real machine,
0.8 MB per booted machine in a harness that boots thousands): `DeviceMonitor` gives each monitored device class a
`attribute_futures` defaultdict keyed by device instance, and `ConfigValidator.build_spec` is an `lru_cache` on a method.
`release()` empties both (from the harness process; nothing on disk is touched) so that long runs do not slow down."""
import gc


def _subclasses(cls, seen):
    for c in cls.__subclasses__():
        if c not in seen:
            seen.add(c)
            _subclasses(c, seen)
    return seen


def release():
    from mpf.core.device import Device
    from mpf.core.config_validator import ConfigValidator
    for c in _subclasses(Device, set()):
        af = c.__dict__.get("attribute_futures")
        if af is not None:
            af.clear()
    try:
        ConfigValidator.build_spec.cache_clear()
    except AttributeError:
        pass
    gc.collect()
