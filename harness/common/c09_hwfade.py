"""C09 hardware-fading direct back end: a test platform whose lights derive from the real `LightPlatformDirectFade` with
`get_max_fade_ms() > 0` (the hardware can fade on its own, for at most MAX_FADE_MS per command).  The code under test -
`LightPlatformDirectFade.set_fade` / `_fade` - is not touched; only the transport (`set_brightness_and_fade`, i.e. what the
hardware is told) is recorded, together with the `set_fade` contract it has to realise."""
from mpf.core.platform import LightsPlatform
from mpf.platforms.interfaces.light_platform_interface import LightPlatformDirectFade

MAX_FADE_MS = 250       # set by the harness before the machine boots (a whole number of 125 ms ticks)


class HwFadeLight(LightPlatformDirectFade):

    def __init__(self, number, loop, platform, index):
        super().__init__(number, loop)
        self.platform = platform
        self.index = index
        self.max_fade_ms = MAX_FADE_MS
        self.cmds = []          # (time, brightness, fade_ms, serial of the set_fade it belongs to)
        self.fades = []         # (time, start_brightness, start_time, target_brightness, target_time)

    def get_max_fade_ms(self):
        return self.max_fade_ms

    def set_fade(self, start_brightness, start_time, target_brightness, target_time):
        self.fades.append((self.loop.time(), start_brightness, start_time, target_brightness, target_time))
        return super().set_fade(start_brightness, start_time, target_brightness, target_time)

    def set_brightness_and_fade(self, brightness, fade_ms):
        self.cmds.append((self.loop.time(), brightness, fade_ms, len(self.fades) - 1))
        if self.platform.on_cmd is not None:
            self.platform.on_cmd(self, brightness, fade_ms)

    def get_board_name(self):
        return "hwfadetest"

    def is_successor_of(self, other):
        return self.index == other.index + 1

    def get_successor_number(self):
        return str(self.index + 1)

    def __lt__(self, other):
        return self.index < other.index


class HwFadePlatform(LightsPlatform):

    def __init__(self, machine):
        super().__init__(machine)
        self.features["tickless"] = True
        self.lights = {}
        self.on_cmd = None

    async def initialize(self):
        pass

    def stop(self):
        for light in self.lights.values():
            light.stop()

    def parse_light_number_to_channels(self, number, subtype):
        if subtype == "matrix":
            return [{"number": str(number)}]
        n = int(number)
        return [{"number": str(n)}, {"number": str(n + 1)}, {"number": str(n + 2)}]

    def configure_light(self, number, subtype, config, platform_settings):
        light = HwFadeLight(number, self.machine.clock.loop, self, int(number))
        self.lights[int(number)] = light
        return light
