"""Physical world for the game-level part of C05: a REAL Game mode, a real ball_save (eject_delay 0 / > 0, balls_to_save
1 / 2 / -1, auto_launch yes / no) and a real multiball (start, add-a-ball, shoot again) on top of the real
trough -> plunger -> playfield ball devices.

"Every ball requested for a target (ball start, ball save, multiball add, ...) is eventually delivered there": the requests of
these devices do not begin at playfield.add_ball() - a ball save *announces* the save (ball_save_<name>_saving_ball), keeps the
ball in balls_in_play and only later (eject_delay) asks the playfield for the ball.  The promise ledger kept here starts at
the announcement:

    promised  = ball starts + balls announced as saved + balls a multiball start / add-a-ball put into balls_in_play
                + balls announced by multiball shoot-again
    requested = sum of the `balls` of every Playfield.add_ball() call
    pending   = balls of the ball save's delayed _add_balls calls that have not fired yet (read from its DelayManager)
    delivered = balls that physically arrived on the playfield out of the plunger lane (simulated world)

Lean model: Model/BallPromise.lean (promised = requested + pending for every history; all timers fired => promised =
requested); the harness feeds the observed operations to the model and compares the three numbers after every step.
Oracle (property text only): once the world is at rest, promised = delivered, unless no ball is left in any device to serve
the remainder ("once a ball is available on a path to it"); every device idle; no eject queued.

The world part is the cut-down copy of harness/common/ballworld.py that C06 uses (harness/common/gameworld_c06.py): balls as
tokens in device slots / loose on the playfield / in transit; coil pulses intercepted at the virtual platform's driver
objects; switches fed through switch_controller.process_switch; the stepping loop stops at every world event and at every
timer of the real loop.  Every eject physically succeeds (eject failures are the business of the ballworld streams).
Environment actions (drains) happen 1/128 s after a grid instant and never while the trough's own eject is under way (a
ball entering a switch-counted device during its own eject is ambiguous: known finding misattributed:entry-during-own-eject).
"""
import heapq

from . import util
from .vmachine import VMachine, BootError  # noqa: F401

GRID = 0.0625
SLOTS = 5
DEVS = ("trough", "plunger")


def build_config(case):
    """case: balls (in the trough at boot), bpg, save{n, delay (ms), auto}, mb{count, type, shoot (ms)}"""
    sw = ["s_t%d" % i for i in range(SLOTS)] + ["s_plunger"]
    lines = ["game:", "  balls_per_game: %d" % case["bpg"], "  max_players: 1",
             "  allow_start_with_loose_balls: true",
             "playfields:", "  playfield:", "    default_source_device: plunger", "    tags: default",
             "    enable_ball_search: false", "switches:",
             "  s_start:", "    number: 30", "    tags: start"]
    for i, s in enumerate(sw):
        lines += ["  %s:" % s, "    number: %d" % (i + 1)]
    lines += ["coils:"]
    for i, c in enumerate(["c_trough", "c_plunger"]):
        lines += ["  %s:" % c, "    number: %d" % (i + 1), "    default_pulse_ms: 20"]
    common = ["    eject_timeouts: 2000ms", "    ball_missing_timeouts: 20000ms", "    confirm_eject_type: target"]
    lines += ["ball_devices:",
              "  trough:", "    ball_switches: %s" % ", ".join(sw[:SLOTS]), "    eject_coil: c_trough",
              "    tags: trough, home, drain", "    eject_targets: plunger"] + common
    lines += ["  plunger:", "    ball_switches: s_plunger", "    eject_coil: c_plunger", "    eject_targets: playfield"] + common
    sv = case["save"]
    lines += ["ball_saves:", "  save:", "    balls_to_save: %d" % sv["n"], "    active_time: 0",
              "    eject_delay: %dms" % sv["delay"], "    auto_launch: %s" % ("true" if sv["auto"] else "false"),
              "    enable_events: ev_save_on", "    disable_events: ball_will_end, ev_save_off",
              "    early_ball_save_events: ev_save_early"]
    mb = case["mb"]
    lines += ["multiballs:", "  mb:", "    ball_count: %d" % mb["count"], "    ball_count_type: %s" % mb["type"],
              "    shoot_again: %dms" % mb["shoot"], "    start_events: ev_mb_start", "    stop_events: ev_mb_stop",
              "    add_a_ball_events: ev_mb_add", "    add_a_ball_shoot_again: %dms" % mb["shoot"]]
    lines += ["virtual_platform_start_active_switches: %s" % ", ".join(sw[:case["balls"]])]
    return "\n".join(lines) + "\n"


TOPO = {
    "trough": {"switches": ["s_t%d" % i for i in range(SLOTS)], "coil": "c_trough", "exit": "plunger"},
    "plunger": {"switches": ["s_plunger"], "coil": "c_plunger", "exit": "pf"},
}

# ---------------------------------------------------------------------------------------------------------------------
# class-level observation hooks (installed once per process, dispatching to the active run)
# ---------------------------------------------------------------------------------------------------------------------

_active = [None]
_hooked = [False]


def _install_hooks():
    if _hooked[0]:
        return
    _hooked[0] = True
    from mpf.devices.ball_save import BallSave
    from mpf.devices.playfield import Playfield

    o_add = Playfield.add_ball

    def add_ball(self, balls=1, source_device=None, player_controlled=False):
        r = _active[0]
        if r is not None and balls > 0:
            r.log("pf_add", balls)
        return o_add(self, balls, source_device, player_controlled)
    Playfield.add_ball = add_ball

    o_sched = BallSave._schedule_balls

    def _schedule_balls(self, balls_to_save):
        r = _active[0]
        if r is not None:
            r.log("sched", balls_to_save)
        return o_sched(self, balls_to_save)
    BallSave._schedule_balls = _schedule_balls

    o_addb = BallSave._add_balls

    def _add_balls(self, balls_to_save, **kwargs):
        r = _active[0]
        if r is not None and self.config['eject_delay']:
            r.log("fire", balls_to_save)
        return o_addb(self, balls_to_save, **kwargs)
    BallSave._add_balls = _add_balls


class World:
    def __init__(self, run, balls, timing):
        self.run = run
        self.slots = {d: [None] * len(t["switches"]) for d, t in TOPO.items()}
        self.kick = {d: None for d in TOPO}
        self.loose = []
        self.transit = []
        self.q = []
        self.seq = 0
        self.timing = timing
        self.history = []
        self.delivered_pf = 0
        self.nballs = 0
        for i in range(balls):
            self.slots["trough"][i] = self.nballs
            self.nballs += 1

    def now(self):
        return self.run.vm.now()

    def at(self, dt, fn, *args):
        assert dt >= GRID - 1e-12 and abs(dt / GRID - round(dt / GRID)) < 1e-9, dt
        self.seq += 1
        heapq.heappush(self.q, (self.now() + dt, self.seq, fn, args))

    def next_time(self):
        return self.q[0][0] if self.q else None

    def occupancy(self, d):
        return sum(1 for b in self.slots[d] if b is not None)

    def heading_to(self, d):
        n = sum(1 for x in self.transit if x["dst"] == d)
        for s, k in self.kick.items():
            if k is not None and k[2] == d:
                n += 1
        return n

    def note(self, *a):
        self.history.append([round(self.now() / GRID, 3)] + list(a))

    def switch(self, name, state):
        self.run.vm.machine.switch_controller.process_switch(name, state, logical=True)

    def pulse(self, d):
        self.note("pulse", d)
        occ = [i for i, b in enumerate(self.slots[d]) if b is not None]
        if not occ or self.kick[d] is not None:
            return
        slot = max(occ)
        self.kick[d] = (slot, self.slots[d][slot], TOPO[d]["exit"])
        self.at(self.timing["leave"], self._leave, d)

    def _leave(self, d):
        slot, ball, dst = self.kick[d]
        self.kick[d] = None
        self.slots[d][slot] = None
        tr = {"ball": ball, "src": d, "dst": dst}
        self.transit.append(tr)
        self.note("left", d, ball)
        self.switch(TOPO[d]["switches"][slot], 0)
        self.at(self.timing["transit"], self._arrive, tr)

    def _arrive(self, tr):
        self.transit.remove(tr)
        self.enter(tr["dst"], tr["ball"], tr["src"])

    def enter(self, dst, ball, src):
        if dst == "pf":
            self.loose.append(ball)
            self.delivered_pf += 1
            self.note("on_pf", ball, src)
            self.run.log("deliver")
            return True
        free = [i for i, b in enumerate(self.slots[dst]) if b is None]
        if not free:
            self.loose.append(ball)
            self.note("bounced_to_pf", dst, ball, src)
            return False
        self.slots[dst][free[0]] = ball
        self.note("entered", dst, ball, src)
        self.switch(TOPO[dst]["switches"][free[0]], 1)
        return True

    def drain_allowed(self):
        """a loose ball can roll into the trough now without being mistaken for the trough's own ejected ball coming back"""
        if not self.loose or self.occupancy("trough") + self.heading_to("trough") >= SLOTS:
            return False
        if self.kick["trough"] is not None or any(x["src"] == "trough" for x in self.transit):
            return False
        dev = self.run.vm.machine.ball_devices["trough"]
        return dev.state in ("idle", "waiting_for_ball", "waiting_for_target_ready")

    def drain(self):
        ball = self.loose.pop(0)
        self.enter("trough", ball, "pf")

    def run_due(self):
        n = 0
        while self.q and self.q[0][0] <= self.now() + 1e-12:
            _, _, fn, args = heapq.heappop(self.q)
            fn(*args)
            n += 1
        return n

    def truth(self):
        t = {d: self.occupancy(d) for d in self.slots}
        t["playfield"] = len(self.loose)
        return t


class Run:
    def __init__(self, case):
        _install_hooks()
        self.case = case
        self.vm = VMachine(build_config(case))
        self.world = None
        self.timing = case["timing"]
        self.obs = []

    def log(self, *a):
        self.obs.append([round(self.vm.now() / GRID, 3)] + list(a))

    def start(self):
        self.vm.start()
        m = self.vm.machine
        self.world = World(self, self.case["balls"], self.timing)
        for d, t in TOPO.items():
            hw = m.coils[t["coil"]].hw_driver

            def mk(d, f):
                def g(*a, **k):
                    self.world.pulse(d)
                    return f(*a, **k)
                return g
            hw.pulse = mk(d, hw.pulse)
        ev = m.events
        ev.add_handler("ball_started", self._ball_started, priority=100000)
        ev.add_handler("ball_save_save_saving_ball", self._saving, priority=100000)
        ev.add_handler("multiball_mb_shoot_again", self._shoot_again, priority=100000)
        for d in DEVS:
            for e in ("ball_eject_failed", "broken"):
                ev.add_handler("balldevice_%s_%s" % (d, e), self._mk(d, e), priority=1000)
        _active[0] = self
        self.vm.align(GRID)
        return self

    def _mk(self, d, e):
        def h(**kwargs):
            self.log("dev_" + e, d)
        return h

    def _ball_started(self, **kwargs):
        self.log("promise", 1, "ball_start")

    def _saving(self, balls=0, **kwargs):
        self.log("save", balls)

    def _shoot_again(self, balls=0, **kwargs):
        self.log("promise", balls, "shoot_again")

    def next_loop_timer(self):
        best = None
        for h in self.vm.tc.loop._scheduled:
            if not h._cancelled and (best is None or h._when < best):
                best = h._when
        return best

    def settle(self):
        loop = self.vm.tc.loop
        for _ in range(100000):
            self.vm.run()
            if loop._ready:
                continue
            lt = self.next_loop_timer()
            if lt is not None and lt <= self.vm.now():
                continue
            if self.world.run_due():
                continue
            return
        raise util.InfraError("loop does not settle")

    def advance(self, dt, on_step=None):
        """advance virtual time by dt, stopping at every world event and every loop timer"""
        t_end = self.vm.now() + dt
        self.settle()
        if on_step is not None:
            on_step()
        while True:
            now = self.vm.now()
            if now >= t_end - 1e-12:
                break
            nxt = t_end
            w = self.world.next_time()
            if w is not None and w < nxt:
                nxt = w
            lt = self.next_loop_timer()
            if lt is not None and now < lt < nxt:
                nxt = lt
            self.vm.advance(max(0.0, nxt - now))
            self.settle()
            if on_step is not None:
                on_step()

    def pending_saves(self):
        """balls of the ball save's delayed _add_balls calls that have not fired yet"""
        bs = self.vm.machine.ball_saves["save"]
        n = 0
        for d in bs.delay.delays.values():        # name -> (timer handle, callback, kwargs)  [mpf/core/delays.py]
            if getattr(d[1], "__name__", "") == "_add_balls":
                n += d[2].get("balls_to_save", 0)
        return n

    def stop(self):
        if _active[0] is self:
            _active[0] = None
        self.vm.stop()


# ---------------------------------------------------------------------------------------------------------------------
# one case
# ---------------------------------------------------------------------------------------------------------------------

MAX_REST_S = 300.0
QUIET_S = 2.0 + 20.0 + 4.0      # eject_timeout + ball_missing_timeout + slack


class GameResult:
    def __init__(self):
        self.failures = []
        self.mismatch = None
        self.hist = {}
        self.nontrivial = False
        self.compared = 0
        self.ledger = {}

    def fail(self, sig, detail):
        if not any(f[0] == sig for f in self.failures):
            self.failures.append((sig, detail))

    def count(self, k, n=1):
        self.hist[k] = self.hist.get(k, 0) + n


def run_case(case, model=None):
    res = GameResult()
    run = Run(case)
    run.start()
    try:
        _run_case(case, run, res, model)
    finally:
        run.stop()
    return res


def _run_case(case, run, res, model):
    m = run.vm.machine
    world = run.world
    fed = [0]
    tot = {"promised": 0, "requested": 0, "delivered": 0, "over": 0}
    mon = [model is not None]

    def crash(e, where):
        res.fail("crash:" + type(e).__name__, {"where": where, "error": repr(e)[:300], "obs": run.obs[-12:],
                                               "world": world.history[-12:]})

    def sample():
        new = run.obs[fed[0]:]
        fed[0] = len(run.obs)
        lines = []
        for o in new:
            k = o[1]
            if k == "promise":
                tot["promised"] += o[2]
                lines.append("promise %d" % o[2])
                res.count("promise_" + o[3], o[2])
            elif k == "save":
                # the announcement (queued event) is handled after _schedule_balls has run, in the same loop instant: the
                # model's `save k` is fed at the _schedule_balls call, the harness' promise counter at the announcement
                tot["promised"] += o[2]
                res.count("saves_announced", o[2])
            elif k == "sched":
                lines.append("save %d" % o[2])
            elif k == "fire":
                lines.append("fire %d" % o[2])
                res.count("delayed_saves_fired")
            elif k == "pf_add":
                tot["requested"] += o[2]
            elif k == "overask":
                tot["over"] += o[2]
                lines.append("overask %d" % o[2])
                res.count("observed_outside_property_multiball_asks_beyond_clamped_balls_in_play", o[2])
            elif k == "deliver":
                tot["delivered"] += 1
                lines.append("deliver")
        if not new:
            return
        impl = "ok promised=%d requested=%d pending=%d delivered=%d over=%d" % (
            tot["promised"], tot["requested"], run.pending_saves(), tot["delivered"], tot["over"])
        if mon[0] and lines:
            ans = None
            for line in lines:
                ans = model.ask("gs " + line)
                res.count("gs_op_" + line.split(" ")[0])
                if not ans.startswith("ok"):
                    break
            res.compared += 1
            if ans != impl and res.mismatch is None:
                res.mismatch = {"what": "promise ledger differs", "model": ans, "impl": impl, "obs": new,
                                "tick": round(run.vm.now() / GRID, 3)}
                mon[0] = False

    def advance(dt):
        try:
            run.advance(dt, sample)
            return True
        except util.InfraError:
            raise
        except BaseException as e:
            crash(e, "advance")
            return False

    def bip():
        return m.game.balls_in_play if m.game else 0

    def snap():
        s = {}
        for d in DEVS:
            dev = m.ball_devices[d]
            oh = dev.outgoing_balls_handler
            s[d] = {"balls": dev.balls, "avail": dev.available_balls, "state": dev.state, "reqs": dev.requested_balls,
                    "queue": oh._eject_queue.qsize() + (1 if oh._current_target is not None else 0)}
        pf = m.ball_devices["playfield"]
        s["playfield"] = {"balls": pf.balls, "avail": pf.available_balls}
        s["game"] = None if m.game is None else {"balls_in_play": m.game.balls_in_play,
                                                 "ball": m.game.player.ball if m.game.player else None}
        s["save"] = {"enabled": m.ball_saves["save"].enabled, "saves_remaining": m.ball_saves["save"].saves_remaining,
                     "pending": run.pending_saves()}
        return s

    def go_to_rest():
        t0 = run.vm.now()
        while True:
            n_obs, n_hist = len(run.obs), len(world.history)
            if not advance(QUIET_S):
                return False
            if len(run.obs) == n_obs and len(world.history) == n_hist and not world.q:
                return True
            if run.vm.now() - t0 > MAX_REST_S:
                res.fail("rest:never-comes-to-rest", {"obs": run.obs[-20:], "world": world.history[-12:], "snap": snap()})
                return False

    def at_rest_check():
        s = snap()
        truth = world.truth()
        ctxd = {"tick": round(run.vm.now() / GRID, 3), "ledger": dict(tot), "snap": s, "truth": truth, "obs": run.obs[-16:],
                "world": world.history[-16:]}
        res.count("rests")
        for d in DEVS:
            if s[d]["state"] not in ("idle", "eject_broken") and not (
                    s[d]["state"] == "waiting_for_ball" and truth["trough"] == 0 and (d == "trough" or truth["plunger"] == 0)):
                res.fail("rest:device-not-idle:" + d, ctxd)
        supply = truth["trough"] + truth["plunger"]
        if tot["delivered"] < tot["promised"]:
            if supply > 0:
                # a promised ball was not delivered although a ball sits in a device on the path to the playfield
                pend = s["save"]["pending"]
                sig = "rest:promised-ball-not-delivered"
                if tot["requested"] + pend < tot["promised"]:
                    sig = "rest:promised-ball-never-requested"      # the promise did not even reach playfield.add_ball
                res.fail(sig, dict(ctxd, promised=tot["promised"], requested=tot["requested"], delivered=tot["delivered"]))
            else:
                res.count("rest_unservable_no_ball_left")
        elif tot["delivered"] > tot["promised"]:
            res.count("observed_outside_property_more_delivered_than_promised")
        else:
            res.count("rest_all_promises_delivered")
        queued = sum(s[d]["reqs"] for d in DEVS)
        if queued and supply > 0 and all(s[d]["state"] == "idle" for d in DEVS) and s["trough"]["avail"] + s["plunger"]["avail"] > 0:
            res.fail("rest:servable-request-still-queued", ctxd)
        if m.game is not None and m.game.player is not None and bip() != truth["playfield"] and supply > 0 and \
                tot["delivered"] >= tot["promised"]:
            res.count("observed_outside_property_balls_in_play_differs_from_playfield")

    if not advance(1.0):
        return
    if mon[0]:
        ans = model.ask("gs cfg %d" % case["save"]["delay"])
        if not ans.startswith("ok"):
            res.mismatch = {"what": "cfg", "model": ans}
            mon[0] = False
    alive = True
    for op in case["ops"]:
        if not alive or res.failures:
            break
        k = op[0]
        res.count("gact_" + k)
        try:
            if k == "start":
                if m.game is None:
                    run.vm.hit_switch("s_start", 1)
                    alive = advance(GRID)
                    run.vm.hit_switch("s_start", 0)
                else:
                    res.count("gact_noop")
            elif k == "save_on":
                m.events.post("ev_save_on")
            elif k == "save_off":
                m.events.post("ev_save_off")
            elif k == "save_early":
                m.events.post("ev_save_early")      # early save (outlane switch): announced and scheduled before the drain
            elif k in ("mb_start", "mb_add", "mb_stop"):
                if m.game is None or m.game.player is None:
                    res.count("gact_noop")
                else:
                    b0, n0, p0 = bip(), len(run.obs), tot["promised"]
                    m.events.post({"mb_start": "ev_mb_start", "mb_add": "ev_mb_add", "mb_stop": "ev_mb_stop"}[k])
                    run.settle()
                    mine = run.obs[n0:]
                    if any(o[1] not in ("pf_add",) for o in mine):
                        raise util.InfraError("something else happened at the instant of %s: %r" % (k, mine))
                    d = bip() - b0
                    asked = sum(o[2] for o in mine if o[1] == "pf_add")
                    if d > 0:
                        run.log("promise", d, k)        # the multiball put d more balls into balls_in_play
                    elif d < 0:
                        raise util.InfraError("balls_in_play fell on %s" % k)
                    if asked > d:
                        # Game.balls_in_play is clamped to the number of known balls; the multiball asks for its ball anyway
                        run.log("overask", asked - d)
                    del p0
            elif k == "drain":
                # the ball rolls into the trough at the first instant (off the grid) at which that is unambiguous
                if not world.loose:
                    res.count("gact_noop")
                else:
                    alive = advance(GRID / 8)
                    waited = 0
                    while alive and not world.drain_allowed() and waited < 400:
                        alive = advance(GRID)
                        waited += 1
                    if alive and world.drain_allowed():
                        world.drain()
                        res.count("drains")
                        if run.pending_saves():
                            res.count("drain_while_delayed_save_pending")
                    else:
                        res.count("gact_noop")
                    if alive:
                        alive = advance(GRID - GRID / 8)
                    continue
            elif k == "wait":
                alive = advance(op[1] * GRID)
                continue
            elif k == "rest":
                alive = go_to_rest()
                if alive:
                    at_rest_check()
                continue
            else:
                raise util.InfraError("unknown op %r" % (op,))
            if alive:
                alive = advance(0)
        except util.InfraError:
            raise
        except BaseException as e:
            crash(e, "op " + k)
            alive = False
    if alive and not res.failures:
        if go_to_rest():
            at_rest_check()
    res.nontrivial = tot["promised"] >= 2 and tot["delivered"] >= 1
    res.ledger = dict(tot)
