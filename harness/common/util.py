"""Shared helpers: paths, the which-mpf guard, PRNG derivation, private TMPDIR."""
import atexit
import hashlib
import os
import random
import shutil
import sys
import tempfile

VERIF = os.path.dirname(os.path.dirname(os.path.dirname(os.path.abspath(__file__))))
REPO = os.environ.get("VERIF_REPO", "/repo")   # a scratch worktree may be substituted during development
LEAN_DIR = os.path.join(VERIF, "lean")


class InfraError(Exception):
    """Infrastructure problem (exit 2), never a violation."""


def ensure_repo_mpf():
    """Abort unless the mpf package under test is /repo's working tree (site-packages holds a copy)."""
    if sys.path[0] != REPO:
        if REPO in sys.path:
            sys.path.remove(REPO)
        sys.path.insert(0, REPO)
    import mpf  # noqa
    if not mpf.__file__.startswith(REPO + "/"):
        raise InfraError("mpf imported from %s, not from /repo" % mpf.__file__)
    return mpf.__file__


def rng_for(seed, prop_id, *tags):
    """One PRNG per (seed, property, tags) so a case replays exactly."""
    h = hashlib.sha256(("%s|%s|%s" % (seed, prop_id, "|".join(map(str, tags)))).encode()).digest()
    return random.Random(int.from_bytes(h[:8], "big"))


_private_tmp = None


def private_tmp():
    """A private TMPDIR (mpf writes <hash>.mpf_cache files into tempfile.gettempdir()); removed on exit."""
    global _private_tmp
    if _private_tmp is None:
        base = os.environ.get("VERIF_SCRATCH", "/var/tmp")
        if not os.path.isdir(base):
            base = "/tmp"
        _private_tmp = tempfile.mkdtemp(prefix="mpfverif-", dir=base)
        os.environ["TMPDIR"] = _private_tmp
        tempfile.tempdir = _private_tmp
        atexit.register(lambda: shutil.rmtree(_private_tmp, ignore_errors=True))
    return _private_tmp


def canon(obj):
    """Canonical JSON-able form: dict keys sorted, tuples to lists, sets sorted."""
    if isinstance(obj, dict):
        return {str(k): canon(obj[k]) for k in sorted(obj, key=str)}
    if isinstance(obj, (list, tuple)):
        return [canon(x) for x in obj]
    if isinstance(obj, (set, frozenset)):
        return sorted((canon(x) for x in obj), key=repr)
    if isinstance(obj, bytes):
        return obj.hex()
    if isinstance(obj, float):
        return repr(obj)
    return obj
