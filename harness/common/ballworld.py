"""Physical-world simulator + observation layer for the ball-device checks (C04, C05).

The world is NOT the repo's smart_virtual platform (that one learns every eject's target from MPF's own
`ejecting_ball` event, i.e. from the bookkeeping under test).  Here:

* balls are tokens; each sits in a *slot* of a device (one switch per slot), lies loose on the playfield, or is in
  transit between two places.  A device's switches are a function of its occupancy.
* every device has exactly one physical exit (its coil kicks the ball towards one fixed place), so the world never
  needs to know what MPF *thinks* the target is.
* coil pulses are intercepted by wrapping the virtual platform's driver objects; switch changes are fed through
  `machine.switch_controller.process_switch` (the path a hardware platform uses).
* an eject attempt has an outcome drawn from the case: ok / stuck (ball does not move) / fallback (leaves and drops
  back into the source, within eject_timeout) / late (arrives after eject_timeout but before ball_missing_timeout) /
  astray (never arrives: ends up loose on the playfield, which is what ball_missing_target assumes).
* a pulse towards a device without room (occupied slots + balls already heading there >= slots) is recorded as the
  property-level event "fired into a full device"; it is never silently absorbed.

All times are multiples of GRID (1/16 s, float-exact).  The stepping loop stops at every world event and at every
timer of the real loop, so a pulse issued by an MPF timer can never be applied late.
"""
import heapq

from . import util
from .vmachine import VMachine, BootError  # noqa: F401

GRID = 0.0625

# ---------------------------------------------------------------------------------------------------------------------
# configurations
# ---------------------------------------------------------------------------------------------------------------------

TOPOLOGIES = ("std", "two_src", "chain")
# chain: trough -> plunger -> {playfield | lock}, lock -> playfield.  The plunger ("launcher") feeds two targets; which way a
# ball leaving it goes is decided by a diverter.  On a real machine that diverter is a coil MPF drives from the launcher's
# `ejecting_ball` event (the `diverters:` section is wired to exactly that event), so the world takes the diverter position
# from the target of the plunger's last `ejecting_ball` event - this is the only place where the world listens to MPF's
# bookkeeping, and only to choose between the plunger's two physical exits; every other device has one fixed exit and the
# first hop (trough -> plunger), where balls get lost in the multi-hop scenarios, does not depend on it.


def build_config(p):
    """p: dict(topo, slots (trough), balls (initially in trough), tries_trough, tries_plunger, tries_lock, eject_to (ms),
    missing_to (ms), idle_to (ms))"""
    n = p["slots"]
    sw = ["s_t%d" % i for i in range(n)] + ["s_plunger", "s_lock0", "s_lock1"]
    plk = p.get("plunger", "coil")                 # coil | mech (mechanical_eject, no coil) | combo (coil + mechanical + launch event)
    entr = p.get("lock_counter") == "entrance"     # lock counted by an entrance switch + ball_capacity instead of ball switches
    confirm = p.get("confirm", "target")           # the plunger's confirm_eject_type: target | switch | event
    lines = ["playfields:", "  playfield:", "    default_source_device: plunger", "    tags: default",
             "    enable_ball_search: false", "switches:"]
    for i, s in enumerate(sw):
        lines += ["  %s:" % s, "    number: %d" % (i + 1)]
    lines += ["  s_pf:", "    number: 40", "    tags: playfield_active"]
    lines += ["  s_lock_entr:", "    number: 44", "  s_confirm:", "    number: 45"]
    lines += ["coils:"]
    for i, c in enumerate(["c_trough", "c_plunger", "c_lock"]):
        lines += ["  %s:" % c, "    number: %d" % (i + 1), "    default_pulse_ms: 20"]
    lock_target = "plunger" if p["topo"] == "two_src" else "playfield"
    chain = p["topo"] == "chain"
    common = ["    eject_timeouts: %dms" % p["eject_to"], "    ball_missing_timeouts: %dms" % p["missing_to"],
              "    idle_missing_ball_timeout: %dms" % p["idle_to"], "    confirm_eject_type: target"]
    if entr:
        lock_count = ["    entrance_switch: s_lock_entr", "    ball_capacity: 2"]
        if p.get("lock_full_to"):
            lock_count.append("    entrance_switch_full_timeout: %dms" % p["lock_full_to"])
        if p.get("lock_ignore_ms"):
            lock_count.append("    entrance_switch_ignore_window_ms: %dms" % p["lock_ignore_ms"])
    else:
        lock_count = ["    ball_switches: s_lock0, s_lock1"]
    lock_lines = ["  lock:"] + lock_count + ["    eject_coil: c_lock",
                  "    eject_targets: %s" % lock_target, "    eject_events: ev_release_lock",
                  "    max_eject_attempts: %d" % p["tries_lock"]] + common
    lines += ["ball_devices:",
              "  trough:", "    ball_switches: %s" % ", ".join(sw[:n]), "    eject_coil: c_trough",
              "    tags: trough, home, drain", "    eject_targets: plunger",
              "    max_eject_attempts: %d" % p["tries_trough"]] + common
    if p.get("lock_first"):
        # device order in a config file is arbitrary; it decides the order of the balldevice_balls_available handlers
        lines += lock_lines
    common2 = ["    eject_timeouts: %dms, %dms" % (p["eject_to"], p["eject_to"]),
               "    ball_missing_timeouts: %dms, %dms" % (p["missing_to"], p["missing_to"])] + common[2:]
    pl_common = list(common2 if chain else common)
    if confirm == "switch":
        pl_common[-1:] = ["    confirm_eject_type: switch", "    confirm_eject_switch: s_confirm"]
    elif confirm == "event":
        pl_common[-1:] = ["    confirm_eject_type: event", "    confirm_eject_event: ev_confirm"]
    pl_eject = [] if plk == "mech" else ["    eject_coil: c_plunger"]
    if plk in ("mech", "combo"):
        pl_eject.append("    mechanical_eject: true")
    if plk == "combo":
        pl_eject.append("    player_controlled_eject_event: ev_launch")
    lines += ["  plunger:", "    ball_switches: s_plunger"] + pl_eject + [
              "    eject_targets: %s" % ("playfield, lock" if chain else "playfield"),
              "    max_eject_attempts: %d" % p["tries_plunger"]] + pl_common
    if not p.get("lock_first"):
        lines += lock_lines
    start = sw[:p["balls"]]
    if p.get("lock_balls"):
        start += ["s_lock0", "s_lock1"][:p["lock_balls"]]
    lines += ["virtual_platform_start_active_switches: %s" % ", ".join(start)]
    return "\n".join(lines) + "\n"


def topology(p):
    """physical layout: device -> (slot switches, coil, where the exit leads)"""
    n = p["slots"]
    t = {
        "trough": {"switches": ["s_t%d" % i for i in range(n)], "coil": "c_trough", "exit": "plunger"},
        "plunger": {"switches": ["s_plunger"], "coil": None if p.get("plunger") == "mech" else "c_plunger", "exit": "pf"},
        "lock": {"switches": ["s_lock0", "s_lock1"], "coil": "c_lock", "exit": "plunger" if p["topo"] == "two_src" else "pf"},
    }
    if p.get("lock_counter") == "entrance":
        # no ball switches: two resting places, every entering ball passes the entrance switch; with
        # entrance_switch_full_timeout the last ball that fits comes to rest ON the entrance switch
        t["lock"]["switches"] = [None, None]
        t["lock"]["entrance"] = "s_lock_entr"
        t["lock"]["sits_when_full"] = bool(p.get("lock_full_to"))
    return t


def edges(p):
    """eject_targets edges (device -> node name)"""
    e = [("trough", "plunger"), ("plunger", "playfield"), ("lock", "plunger" if p["topo"] == "two_src" else "playfield")]
    if p["topo"] == "chain":
        e.append(("plunger", "lock"))
    return e


# ---------------------------------------------------------------------------------------------------------------------
# class-level observation hooks (installed once per process, dispatching to the active run)
# ---------------------------------------------------------------------------------------------------------------------

_active = [None]
_hooked = [False]


def _install_hooks():
    if _hooked[0]:
        return
    from mpf.devices.ball_device.ball_device import BallDevice
    _hooked[0] = True

    def rec(*a):
        r = _active[0]
        if r is not None:
            r.log(*a)

    o_state = BallDevice.set_eject_state

    def set_eject_state(self, state):
        old = self._state
        o_state(self, state)
        if old != state:
            rec("state", self.name, state)
    BallDevice.set_eject_state = set_eject_state

    o_chain = BallDevice.setup_eject_chain

    def setup_eject_chain(self, path, player_controlled=False):
        rec("plan", [d.name for d in path])
        return o_chain(self, path, player_controlled)
    BallDevice.setup_eject_chain = setup_eject_chain

    o_soq = BallDevice._setup_or_queue_eject_to_target

    def _setup_or_queue(self, target, player_controlled=False):
        res = o_soq(self, target, player_controlled)
        if not res:
            rec("queue_req", self.name, target.name)
        return res
    BallDevice._setup_or_queue_eject_to_target = _setup_or_queue

    o_sdba = BallDevice._source_device_balls_available

    def _sdba(self, **kwargs):
        if self._ball_requests:
            rec("req_pop", self.name)
        return o_sdba(self, **kwargs)
    BallDevice._source_device_balls_available = _sdba

    o_lej = BallDevice.lost_ejected_ball

    # the decision (cancel the path / restore it / give up) and its bookkeeping are the synchronous first part of
    # lost_ejected_ball; the method then awaits _balls_missing (event posts), during which other devices move on.  The
    # observation is logged where the decision was taken - at the entry of _balls_missing - so that a state change of the
    # target during those awaits is not taken to have preceded it.
    o_bm = BallDevice._balls_missing
    lej_pending = {}

    async def lost_ejected_ball(self, target):
        r = _active[0]
        if r is None:
            return await o_lej(self, target)
        lej_pending[id(self)] = (target.name, r.avail_vector())
        try:
            return await o_lej(self, target)
        finally:
            pend = lej_pending.pop(id(self), None)
            if pend is not None and _active[0] is r:       # left before _balls_missing (an exception)
                r.log("lost_ejected", self.name, pend[0], pend[1], r.avail_vector())
    BallDevice.lost_ejected_ball = lost_ejected_ball

    async def _balls_missing(self, balls):
        r = _active[0]
        pend = lej_pending.pop(id(self), None)
        if r is not None and pend is not None:
            r.log("lost_ejected", self.name, pend[0], pend[1], r.avail_vector())
        return await o_bm(self, balls)
    BallDevice._balls_missing = _balls_missing

    o_li = BallDevice.lost_idle_ball

    async def lost_idle_ball(self):
        rec("lost_idle", self.name)
        return await o_li(self)
    BallDevice.lost_idle_ball = lost_idle_ball

    o_mech = BallDevice.handle_mechanical_eject_during_idle

    async def handle_mechanical_eject_during_idle(self):
        rec("mech_idle", self.name, self.config['eject_targets'][0].name)
        return await o_mech(self)
    BallDevice.handle_mechanical_eject_during_idle = handle_mechanical_eject_during_idle

    from mpf.devices.ball_device.entrance_switch_counter import EntranceSwitchCounter as ESC
    o_hit, o_full, o_left = ESC._entrance_switch_handler, ESC._entrance_switch_full_handler, ESC._ball_left

    def esc_hit(self, switch_name):
        ignored = bool(self.recycle_clear_time.get(switch_name, False))
        o_hit(self, switch_name)
        rec("ec", self.ball_device.name, "hit", 1 if ignored else 0, self._last_count)
    ESC._entrance_switch_handler = esc_hit

    def esc_full(self):
        o_full(self)
        rec("ec", self.ball_device.name, "full", 0, self._last_count)
    ESC._entrance_switch_full_handler = esc_full

    o_rel = ESC._entrance_switch_released_handler

    def esc_release(self, switch_name):
        o_rel(self, switch_name)
        rec("ec", self.ball_device.name, "release", 0, self._last_count)
    ESC._entrance_switch_released_handler = esc_release

    def esc_left(self, future):
        o_left(self, future)
        rec("ec", self.ball_device.name, "left", 0, self._last_count)
    ESC._ball_left = esc_left

    from mpf.devices.ball_device.incoming_balls_handler import IncomingBall
    o_ext = IncomingBall._external_confirm

    def _external_confirm(self, future):
        if not future.cancelled() and self._state == "left_device":
            rec("ext_signal", self._source.name, self._target.name)
        return o_ext(self, future)
    IncomingBall._external_confirm = _external_confirm
    o_dna = IncomingBall.did_not_arrive

    def did_not_arrive(self):
        if self._state == "left_device":
            rec("did_not_arrive", self._source.name, self._target.name)
        return o_dna(self)
    IncomingBall.did_not_arrive = did_not_arrive

    from mpf.devices.playfield import Playfield
    o_pfa = Playfield.ball_arrived

    def pf_ball_arrived(self):
        for k, b in enumerate(self._incoming_balls):
            if b.can_arrive:
                # an incoming ball whose eject has already been confirmed by its external signal is only removed here
                rec("pf_arrived", self.name, "stale" if b._confirm_future.done() else "live", b.source.name, k)
                break
        return o_pfa(self)
    Playfield.ball_arrived = pf_ball_arrived

    o_linc = BallDevice.lost_incoming_ball

    async def lost_incoming_ball(self, source):
        rec("lost_incoming", self.name)
        return await o_linc(self, source)
    BallDevice.lost_incoming_ball = lost_incoming_ball


# ---------------------------------------------------------------------------------------------------------------------
# the world
# ---------------------------------------------------------------------------------------------------------------------

class World:
    def __init__(self, run, p, outcomes, timing):
        self.run = run
        self.p = p
        self.topo = topology(p)
        self.slots = {d: [None] * len(t["switches"]) for d, t in self.topo.items()}
        self.entr_state = {d: None for d in self.topo}     # entrance switch of d: None (open) | "pass" (ball rolling over) | "sit"
        self.plunges = list(outcomes.get("plunge", []))    # what the player's plunges do, in order (default ok)
        self.confirms = list(outcomes.get("confirm", []))  # fate of the external confirmation of each plunger eject
        self.entr_clear = {}
        self.last_left_kind = {}
        self.kick = {d: None for d in self.topo}          # (slot, ball) that has been kicked and is about to leave
        self.loose = []                                    # balls on the playfield
        self.transit = []                                  # dict(ball, src, dst, kind)
        self.q = []                                        # (time, seq, fn, args)
        self.seq = 0
        self.outcomes = {d: list(v) for d, v in outcomes.items()}
        self.timing = timing
        self.no_pf_hit_until = 0.0
        self.diverter = "pf"
        self.fired_full = []                               # property-level events
        self.overflow = []                                 # a ball reached a device without a free slot
        self.history = []
        self.last_change = 0.0
        self.delivered = {"pf": 0, "trough": 0, "plunger": 0, "lock": 0}
        self.nballs = 0
        for i in range(p["balls"]):
            self.slots["trough"][i] = self.nballs
            self.nballs += 1
        for i in range(p.get("lock_balls", 0)):
            self.slots["lock"][i] = self.nballs
            self.nballs += 1

    # -- helpers
    def exit_of(self, d):
        if d == "plunger" and self.p["topo"] == "chain":
            return self.diverter            # set from the plunger's ejecting_ball event (see TOPOLOGIES)
        return self.topo[d]["exit"]

    def now(self):
        return self.run.vm.now()

    def at(self, dt, fn, *args):
        assert dt >= GRID - 1e-12 and abs(dt / GRID - round(dt / GRID)) < 1e-9, dt
        self.seq += 1
        heapq.heappush(self.q, (self.now() + dt, self.seq, fn, args))

    def next_time(self):
        return self.q[0][0] if self.q else None

    def occupancy(self, d):
        return sum(1 for b in self.slots[d] if b is not None)

    def heading_to(self, d):
        n = sum(1 for x in self.transit if x["dst"] == d)
        for s, k in self.kick.items():
            if k is not None and k[2] == d:
                n += 1
        return n

    def note(self, *a):
        self.history.append([round(self.now() / GRID)] + list(a))
        self.last_change = self.now()

    def switch(self, name, state):
        self.run.vm.machine.switch_controller.process_switch(name, state, logical=True)

    def slot_switch(self, d, slot, state):
        name = self.topo[d]["switches"][slot]
        if name is not None:
            self.switch(name, state)

    def _entr_release(self, d):
        if self.entr_state[d] is not None:
            self.entr_state[d] = None
            self.switch(self.topo[d]["entrance"], 0)

    # -- player -> world: the mechanical plunger is pulled and let go
    def plunge(self, outcome=None):
        d = "plunger"
        occ = [i for i, b in enumerate(self.slots[d]) if b is not None]
        if not occ or self.kick[d] is not None:
            return False
        if not self.timing.get("ambiguous") and self.last_left_kind.get(d) == "fallback" and \
                self.run.vm.machine.ball_devices[d].state in ("ball_left", "failed_confirm"):
            # the weakly plunged ball is back in the lane but MPF has not seen that eject fail yet; plunging again now makes the
            # ball absent when the confirm window closes ("ball did not return" -> success by time-out, corrected later by a
            # capture): the ball-falls-back-after-eject_timeout ambiguity in another guise, not generated
            return False
        if outcome is None:
            outcome = self.plunges.pop(0) if self.plunges else "ok"
        self.history.append([round(self.now() / GRID), "plunge", d, outcome])
        self.last_change = self.now()
        slot = max(occ)
        dst = d if outcome == "fallback" else self.exit_of(d)
        self.kick[d] = (slot, self.slots[d][slot], dst, outcome)
        self.at(self.timing["leave"], self._leave, d)
        return True

    def _confirm_signal(self, own=False):
        """the external confirmation of a plunger eject: the lane-exit switch closes / the confirm event is posted"""
        if own and not self.spurious_confirm_allowed(need_loose=False):
            # the (late) signal of an earlier ball would arrive while the NEXT ball of the plunger is falling back: MPF would
            # take it for the confirmation of that eject (a signal carries no identity) - ambiguous, not generated
            self.note("confirm_signal_suppressed")
            return
        self.note("confirm_signal", self.p.get("confirm"))
        if self.p.get("confirm") == "switch":
            self.switch("s_confirm", 1)
            self.switch("s_confirm", 0)
        else:
            self.run.vm.machine.events.post("ev_confirm")

    # -- MPF -> world
    def pulse(self, d):
        self.history.append([round(self.now() / GRID), "pulse", d])
        exit_to = self.exit_of(d)
        occ = [i for i, b in enumerate(self.slots[d]) if b is not None]
        if not occ or self.kick[d] is not None:
            return                         # nothing to kick / ball already leaving: a pulse is idempotent
        if exit_to != "pf":
            # balls of OTHER sources that are on their way out towards the same device and will only later turn out to fall
            # back: at the moment of this pulse they are heading there like any other (two sources, one free slot: D16 - found
            # by the thorough stream, seed 1, as a misattributed arrival when one of the two balls happened to fall back)
            leaving = {s_ for s_, k in self.kick.items() if k is not None and s_ != d and k[3] == "fallback" and
                       self.topo[s_]["exit"] == exit_to} | \
                      {x["src"] for x in self.transit if x["src"] != d and x["kind"] == "fallback" and x.get("exit") == exit_to}
            room = len(self.slots[exit_to]) - self.occupancy(exit_to) - self.heading_to(exit_to) - len(leaving)
            if room <= 0:
                srcs = sorted({x["src"] for x in self.transit if x["dst"] == exit_to} | leaving |
                              {s for s, k in self.kick.items() if k is not None and k[2] == exit_to})
                detail = [[x["src"], x["dst"], x["kind"], x.get("left_at")] for x in self.transit if x["dst"] == exit_to] + \
                    [[s_, k[2], k[3], None] for s_, k in self.kick.items() if k is not None and k[2] == exit_to]
                self.fired_full.append({"t": round(self.now() / GRID), "source": d, "target": exit_to,
                                        "occupancy": self.occupancy(exit_to), "heading": self.heading_to(exit_to),
                                        "heading_from": srcs, "heading_detail": detail})
        lst = self.outcomes.get(d) or []
        outcome = lst.pop(0) if lst else "ok"
        self.history[-1].append(outcome)
        self.last_change = self.now()
        if outcome == "stuck":
            return
        slot = max(occ)
        dst = d if outcome == "fallback" else ("pf" if outcome == "astray" else exit_to)
        self.kick[d] = (slot, self.slots[d][slot], dst, outcome)
        self.at(self.timing["leave"], self._leave, d)

    def _leave(self, d):
        slot, ball, dst, outcome = self.kick[d]
        self.kick[d] = None
        self.slots[d][slot] = None
        tr = {"ball": ball, "src": d, "dst": dst, "kind": outcome, "left_at": round(self.now() / GRID), "exit": self.exit_of(d)}
        self.transit.append(tr)
        if outcome == "fallback" and self.exit_of(d) == "pf":
            # until the source's confirm window (eject_timeout) is over MPF takes any playfield switch hit (by another
            # ball) for the confirmation of this eject, although the ball comes back: ambiguous, not generated
            self.no_pf_hit_until = max(self.no_pf_hit_until, self.now() + self.p["eject_to"] / 1000.0 + 4 * GRID)
        self.note("left", d, ball, outcome)
        self.last_left_kind[d] = outcome
        self.slot_switch(d, slot, 0)
        if self.entr_state[d] == "sit":
            self._entr_release(d)           # the ball resting on the entrance switch rolls down into the freed place
        if d == "plunger" and self.p.get("confirm", "target") != "target" and \
                (outcome in ("ok", "late") or (outcome == "astray" and self.exit_of(d) != "pf")):
            fate = self.confirms.pop(0) if self.confirms else "ontime"
            tr["confirm"] = fate
            if fate == "ontime":
                self.at(GRID, self._confirm_signal, True)
            elif fate == "late":
                self.at(self.p["eject_to"] / 1000.0 + self.timing["late"], self._confirm_signal, True)
        if outcome == "ok":
            dt = self.timing["transit"]
        elif outcome == "fallback":
            dt = self.timing["fallback"]
        elif outcome == "late":
            dt = self.p["eject_to"] / 1000.0 + self.timing["late"]
        elif outcome == "verylate":     # only in the directed witness: arrives after MPF has declared the ball lost
            dt = (self.p["eject_to"] + self.p["missing_to"]) / 1000.0 + self.timing["late"]
        else:           # astray: the ball jumps the lane and ends up loose on the playfield
            dt = self.timing["transit"]
        self.at(dt, self._arrive, tr)

    def _arrive(self, tr):
        self.transit.remove(tr)

        self.enter(tr["dst"], tr["ball"], tr["src"], tr["kind"])

    def enter(self, dst, ball, src, tr_kind="ok"):
        if dst == "pf":
            self.loose.append(ball)
            self.note("on_pf", ball, src)
            if src != "pf":
                self.delivered["pf"] += 1
            if tr_kind == "astray":
                return
            if self.timing.get("pf_switch") and self.pf_switch_allowed():
                self.switch("s_pf", 1)
                self.at(GRID, self.switch, "s_pf", 0)
            return
        free = [i for i, b in enumerate(self.slots[dst]) if b is None]
        if not free:
            self.overflow.append({"t": round(self.now() / GRID), "device": dst, "from": src})
            self.loose.append(ball)
            self.note("bounced_to_pf", dst, ball, src)
            return
        ent = self.topo[dst].get("entrance")
        if ent and (self.entr_state[dst] == "pass" or self.now() < self.entr_clear.get(dst, 0.0)):
            # the previous ball is still rolling over the entrance switch (or the configured ignore window, which exists to
            # swallow the bounces of ONE ball, is still open): this one queues up behind it
            tr = {"ball": ball, "src": src, "dst": dst, "kind": tr_kind, "left_at": None, "exit": None}
            self.transit.append(tr)
            self.at(2 * GRID, self._arrive, tr)
            return
        self.slots[dst][free[0]] = ball
        if src != "pf":
            self.delivered[dst] += 1
        self.note("entered", dst, ball, src)
        self.slot_switch(dst, free[0], 1)
        if ent:
            full = self.occupancy(dst) == len(self.slots[dst])
            self.entr_clear[dst] = self.now() + self.p.get("lock_ignore_ms", 0) / 1000.0 + GRID
            self.switch(ent, 1)
            if full and self.topo[dst].get("sits_when_full"):
                self.entr_state[dst] = "sit"
            else:
                self.entr_state[dst] = "pass"
                self.at(self.timing.get("entr_hold", GRID), self._entr_release, dst)

    def spurious_confirm_allowed(self, need_loose=True):
        """the confirm switch closes / the confirm event arrives without a ball of the plunger having passed: generated
        except while a ball of the plunger is falling back (then MPF would, correctly by its inputs, count the eject as done:
        the same ambiguity as a playfield hit by another ball, see pf_switch_allowed)"""
        if self.timing.get("ambiguous"):
            return True
        if need_loose and self.p.get("confirm") == "switch" and not self.loose:
            return False                # something must close the switch
        for x in self.transit:
            if x["src"] == "plunger" and x["kind"] == "fallback":
                return False
        k = self.kick["plunger"]
        if k is not None and k[3] == "fallback":
            return False
        m = self.run.vm.machine
        if self.last_left_kind.get("plunger") == "fallback" and m.ball_devices["plunger"].state in ("ball_left", "failed_confirm"):
            return False                # the ball is back in the lane but MPF is still waiting for this eject's confirmation
        waiting = any(ib.source.name == "plunger" and ib._state == "left_device" and ib._external_confirm_future is not None
                      and not ib._external_confirm_future.done() for ib in m.ball_devices["playfield"]._incoming_balls)
        if waiting and m.ball_devices["plunger"].state not in ("ball_left", "failed_confirm"):
            return False                # "ball may have skipped the plunger" wait: the expected ball is in fact still on its way
        return True

    def capture_allowed(self):
        """a ball captured from the playfield (drain, lock shot) marks the playfield active exactly like a playfield switch
        hit: while a ball ejected towards the playfield is falling back (and until its confirm window has closed) that would
        confirm the eject of the returning ball - same ambiguity as pf_switch_allowed, session-3 stream only"""
        if self.now() < self.no_pf_hit_until:
            return False
        for x in self.transit:
            if x["kind"] == "fallback" and x.get("exit") == "pf":
                return False
        for d, k in self.kick.items():
            if k is not None and k[3] == "fallback" and self.exit_of(d) == "pf":
                return False
        return True

    def pf_switch_allowed(self):
        """a playfield switch can only be hit by a loose ball; and while a ball that was ejected towards the playfield
        is falling back into its device, a hit by *another* ball is indistinguishable from the confirmation of that
        eject (MPF would confirm it and let the next ball be fired at the still-returning one): not generated"""
        if not self.loose:
            return False
        if self.timing.get("ambiguous"):
            return True                 # directed witness histories only
        if self.now() < self.no_pf_hit_until:
            return False
        for x in self.transit:
            if x["kind"] == "fallback" and x.get("exit") == "pf":
                return False
        for d, k in self.kick.items():
            if k is not None and k[3] == "fallback" and self.exit_of(d) == "pf":
                return False
        return True

    def committed_unfired_towards(self, dst):
        """a source device whose MPF state is `ejecting` towards dst while the simulated coil has not been pulsed yet"""
        m = self.run.vm.machine
        for s_, t in self.topo.items():
            if s_ == dst or t.get("exit") != dst or s_ not in m.ball_devices:
                continue
            dev = m.ball_devices[s_]
            cur = dev.outgoing_balls_handler._current_target
            if dev.state == "ejecting" and cur is not None and cur.name == dst and self.kick[s_] is None and \
                    not any(x["src"] == s_ for x in self.transit):
                return True
        return False

    # -- player / physics actions
    def move_loose_to(self, dst):
        """a loose ball rolls into a device (drain, lock shot); returns False when physically impossible"""
        if not self.loose:
            return False
        if self.occupancy(dst) + self.heading_to(dst) >= len(self.slots[dst]):
            return False
        if not self.timing.get("ambiguous") and (self.kick[dst] is not None or any(x["src"] == dst for x in self.transit)):
            # a ball entering a device while that device's own ejected ball is still under way is physically
            # indistinguishable (switch-counted device without entrance switch) from the ejected ball coming back:
            # MPF then retries while the first ball may still arrive (reported as a finding, not generated here)
            return False
        if self.timing.get("strict_capture") and not self.timing.get("ambiguous") and not self.capture_allowed():
            return False
        if not self.timing.get("ambiguous") and self.committed_unfired_towards(dst):
            # a source has passed its readiness check for an eject towards dst (state "ejecting") but has not fired yet - it
            # waits for its own count lock in BallCountHandler.start_eject().  A ball rolling into dst in that window is
            # not counted there before the pulse (switch settle time): MPF cannot know (the code's own TODO "block one spot in
            # target device"); same class as D16 - directed witness, not generated here
            return False
        if self.topo[dst].get("entrance") and (self.entr_state[dst] is not None or self.now() < self.entr_clear.get(dst, 0.0)):
            return False                # the entrance is occupied by the previous ball: this shot bounces off (stays loose)
        if dst == "trough" and self.p.get("plunger") in ("mech", "combo") and not self.timing.get("ambiguous") and \
                self.run.vm.machine.ball_devices[dst].state in ("ball_left", "failed_confirm"):
            # same ambiguity as above, seen from MPF's side: with a mechanical plunger a ball can pass the lane faster than the
            # plunger's count delay, so the trough's eject stays unconfirmed (and the "ball may have skipped" logic runs) long
            # after the ball is physically gone; a drain in that window is taken for the trough's ball coming back
            return False
        if self.topo[dst].get("entrance") and not self.timing.get("ambiguous") and \
                self.run.vm.machine.ball_devices[dst].state in ("ball_left", "failed_confirm"):
            # an entrance-counted device counts an entry during its own still unconfirmed eject on top of the ball that has
            # left: counted_balls reads capacity + 1 until the eject is confirmed (directed witness, not generated here)
            return False
        if self.topo[dst].get("sits_when_full") and self.occupancy(dst) + 1 == len(self.slots[dst]) and \
                not self.timing.get("ambiguous"):
            dev = self.run.vm.machine.ball_devices[dst]
            oh = dev.outgoing_balls_handler
            if dev.state != "idle" or not oh._eject_queue.empty() or oh._current_target is not None:
                # the ball that fills an entrance-counted device with entrance_switch_full_timeout is only counted when it rests
                # on the entrance switch for the full time-out; a shorter hit is a bounce by design.  If the device ejects a
                # ball meanwhile the resting ball rolls down early and is never counted (directed witness, not generated)
                return False
        ball = self.loose.pop(0)
        self.enter(dst, ball, "pf")
        return True

    def escape(self, d):
        """a resting ball bounces out of a device onto the playfield"""
        occ = [i for i, b in enumerate(self.slots[d]) if b is not None]
        if not occ or self.kick[d] is not None or self.topo[d].get("entrance"):
            return False                    # (a ball leaving an entrance-counted device unseen cannot be noticed by anything)
        slot = max(occ)
        ball = self.slots[d][slot]
        self.slots[d][slot] = None
        self.note("escaped", d, ball)
        self.slot_switch(d, slot, 0)
        self.loose.append(ball)
        return True

    def new_ball(self):
        self.loose.append(self.nballs)
        self.nballs += 1
        self.note("new_ball_on_pf")
        return True

    def run_due(self):
        n = 0
        while self.q and self.q[0][0] <= self.now() + 1e-12:
            _, _, fn, args = heapq.heappop(self.q)
            fn(*args)
            n += 1
        return n

    def truth(self):
        t = {d: self.occupancy(d) for d in self.slots}
        t["playfield"] = len(self.loose)
        return t


# ---------------------------------------------------------------------------------------------------------------------
# one real machine + world + observation log
# ---------------------------------------------------------------------------------------------------------------------

DEVS = ("trough", "plunger", "lock")
NODES = DEVS + ("playfield",)
EVENTS = ("ball_eject_attempt", "ejecting_ball", "ball_eject_success", "ball_eject_failed", "broken", "ball_enter",
          "ball_missing")


class Run:
    def __init__(self, p, outcomes, timing):
        _install_hooks()
        self.p = p
        self.vm = VMachine(build_config(p))
        self.world = None
        self.outcomes = outcomes
        self.timing = timing
        self.obs = []           # observation log: [tick, kind, ...]
        self.finishing = {}     # device -> eject finished (end_eject done) but BallDevice._state not yet back to idle
        self.transient_negative = 0
        self.last_negative = None
        self.claim_lock = 0     # number of balls the (harness-side) lock logic will claim on entry
        self.claim_plunger = 0  # same for a ball hold at the plunger lane
        self.crash = None

    def log(self, *a):
        self.obs.append([round(self.vm.now() / GRID)] + list(a))
        if a[0] in ("ball_eject_success", "lost_ejected"):
            self.finishing[a[1]] = True
        elif a[0] == "state":
            self.finishing[a[1]] = False

    def avail_vector(self):
        m = self.vm.machine
        return [m.ball_devices[n].available_balls for n in NODES]

    def start(self):
        self.vm.start()
        m = self.vm.machine
        self.world = World(self, self.p, self.outcomes, self.timing)
        for d, t in self.world.topo.items():
            if t["coil"] is None:
                continue
            hw = m.coils[t["coil"]].hw_driver

            def mk(d, f):
                def g(*a, **k):
                    self.world.pulse(d)
                    return f(*a, **k)
                return g
            hw.pulse = mk(d, hw.pulse)
        ev = m.events
        for d in DEVS:
            for e in EVENTS:
                ev.add_handler("balldevice_%s_%s" % (d, e), self._mk_handler(d, e), priority=1000)
        ev.add_handler("balldevice_captured_from_playfield", self._captured, priority=1000)
        ev.add_handler("found_new_ball", self._found, priority=1000)
        ev.add_handler("balldevice_lock_ball_enter", self._lock_claim, priority=5)
        ev.add_handler("balldevice_plunger_ball_enter", self._plunger_claim, priority=5)
        for d, ticks in (self.p.get("hold_attempt") or {}).items():
            # something on the machine (a diverter, a queue_relay_player, a show that has to finish) holds the device's
            # ball_eject_attempt QUEUE event for a while before the eject may go on
            ev.add_handler("balldevice_%s_ball_eject_attempt" % d, self._mk_hold(d, ticks), priority=1)
        _active[0] = self
        self.vm.align(GRID)
        return self

    def _mk_handler(self, d, e):
        def h(**kwargs):
            t = kwargs.get("target")
            a = [e, d]
            if t is not None:
                a.append(t.name)
            if e in ("ball_eject_attempt", "ejecting_ball", "ball_eject_failed"):
                a.append(kwargs.get("num_attempts"))
            if e == "ball_eject_failed":
                a.append(bool(kwargs.get("retry")))
            if e == "ball_enter":
                a.append(kwargs.get("unclaimed_balls"))
            if e == "ejecting_ball" and d == "plunger" and t is not None:
                self.world.diverter = "pf" if t.name == "playfield" else t.name
            self.log(*a)
        return h

    def _captured(self, **kwargs):
        self.log("captured", kwargs.get("balls"))

    def _found(self, **kwargs):
        self.log("found_new_ball")

    def _lock_claim(self, unclaimed_balls=0, **kwargs):
        """what a ball_lock/multiball_lock does: claim an entering ball so the device keeps it"""
        if unclaimed_balls and self.claim_lock:
            self.claim_lock -= 1
            self.log("claimed", "lock")
            return {"unclaimed_balls": unclaimed_balls - 1}
        return None

    def _mk_hold(self, d, ticks):
        def hold(queue, **kwargs):
            queue.wait()
            self.log("attempt_held", d, ticks)
            self.world.history.append([round(self.vm.now() / GRID), "attempt_held", d, ticks])
            self.world.at(ticks * GRID, self._release_hold, d, queue)
        return hold

    def _release_hold(self, d, queue):
        self.world.note("attempt_released", d)
        queue.clear()

    def _plunger_claim(self, unclaimed_balls=0, **kwargs):
        if unclaimed_balls and self.claim_plunger:
            self.claim_plunger -= 1
            self.log("claimed", "plunger")
            return {"unclaimed_balls": unclaimed_balls - 1}
        return None

    # -- stepping
    def next_loop_timer(self):
        sch = self.vm.tc.loop._scheduled
        best = None
        for h in sch:
            if not h._cancelled and (best is None or h._when < best):
                best = h._when
        return best

    def settle(self):
        """run the loop at the current instant until nothing is ready and no timer is due"""
        loop = self.vm.tc.loop
        for _ in range(100000):
            self.vm.run()
            if loop._ready:
                continue
            lt = self.next_loop_timer()
            if lt is not None and lt <= self.vm.now():
                continue
            if self.world.run_due():
                continue
            return
        raise util.InfraError("loop does not settle")

    def step_to(self, t_end, on_step=None):
        """advance virtual time to t_end, stopping at every world event and every loop timer"""
        self.settle()
        if on_step is not None:
            on_step()
        while True:
            now = self.vm.now()
            if now >= t_end - 1e-12:
                break
            nxt = t_end
            w = self.world.next_time()
            if w is not None and w < nxt:
                nxt = w
            lt = self.next_loop_timer()
            if lt is not None and now < lt < nxt:
                nxt = lt
            self.vm.advance(max(0.0, nxt - now))
            self.settle()
            if on_step is not None:
                on_step()

    def snap(self):
        m = self.vm.machine
        s = {}
        for d in DEVS:
            dev = m.ball_devices[d]
            balls, state = dev.balls, dev.state
            pending = dev.outgoing_balls_handler._eject_queue.qsize() + \
                (1 if dev.outgoing_balls_handler._current_target is not None else 0)
            if self.finishing.get(d) and state in ("ball_left", "failed_confirm"):
                # end_eject() has already decremented counted_balls but the state (and with it the `balls` property,
                # which subtracts one in these states) only changes after counter.count_balls() has settled: the
                # ledger treats "eject finished" as one transition, so the observation is normalised here
                if balls < 0:
                    self.transient_negative += 1
                    self.last_negative = {"device": d, "balls": balls, "counted_balls": dev.counted_balls, "state": state}
                balls, state = dev.counted_balls, "idle"
                pending -= 1
            s[d] = {"balls": balls, "counted": dev.counted_balls, "avail": dev.available_balls, "state": state,
                    "incoming": dev.incoming_balls_handler.get_num_incoming_balls(), "reqs": dev.requested_balls,
                    "queue": pending,      # queued ejects + the current one
                    "cap": dev.capacity}
            if self.p.get("lock_counter") == "entrance" and d == "lock":
                s[d]["ec"] = dev.ball_count_handler.counter._last_count
        pf = m.ball_devices["playfield"]
        s["playfield"] = {"balls": pf.balls, "avail": pf.available_balls, "incoming": len(pf._incoming_balls)}
        s["known"] = m.ball_controller.num_balls_known
        return s

    def stop(self):
        if _active[0] is self:
            _active[0] = None
        self.vm.stop()


# ---------------------------------------------------------------------------------------------------------------------
# trace abstraction: MPF's observable events -> ledger transitions (input lines of the Lean monitor)
# ---------------------------------------------------------------------------------------------------------------------

IDX = {n: i for i, n in enumerate(NODES)}


def cfg_line(p, snap):
    """the monitor's configuration: nodes, capacities, max attempts, initial counts, eject_targets edges"""
    tries = {"trough": p["tries_trough"], "plunger": p["tries_plunger"], "lock": p["tries_lock"]}
    toks = ["cfg", str(IDX["playfield"])]
    for d in DEVS:
        toks.append("d,%d,%d,%d" % (snap[d]["cap"], tries[d], snap[d]["counted"]))
    toks.append("p")
    if p.get("lock_counter") == "entrance":
        toks.append("ec,%d,%d,%d,%d" % (IDX["lock"], snap["lock"]["cap"], 1 if p.get("lock_full_to") else 0, snap["lock"]["ec"]))
    if p.get("plunger") in ("mech", "combo"):
        toks.append("mech,%d" % IDX["plunger"])
    if p.get("confirm", "target") != "target":
        toks.append("ext,%d" % IDX["plunger"])
    toks.append("|")
    for a, b in edges(p):
        toks.append("%d>%d" % (IDX[a], IDX[b]))
    return " ".join(toks)


def snap_line(s):
    parts = ["ok known=%d" % s["known"]]
    for d in DEVS:
        x = s[d]
        parts.append("%d/%d/%d/%d/%s/%d/%d" % (x["balls"], x["counted"], x["avail"], x["incoming"], x["state"], x["queue"],
                                              x["reqs"]))
    x = s["playfield"]
    parts.append("%d/%d/%d" % (x["balls"], x["avail"], x["incoming"]))
    if "ec" in s["lock"]:
        parts.append("ec=%d" % s["lock"]["ec"])
    return " ".join(parts)


class Abstraction:
    def __init__(self):
        self.state = {d: "idle" for d in DEVS}
        self.manual = {d: False for d in DEVS}      # a mechanical eject during idle is under way
        self.extsig = {d: False for d in DEVS}      # the external confirm signal of the current eject has arrived
        self.skipping = {d: False for d in DEVS}    # _skipping_ball is waiting

    def ops(self, obs):
        out = []
        unexpected = [o[2] for o in obs if o[1] == "ball_enter" and o[3]]     # k-th capture belongs to the k-th of these
        for i, o in enumerate(obs):
            kind, a = o[1], o[2:]
            if kind == "request":
                out.append("request")
            elif kind == "plan":
                out.append("plan " + " ".join(str(IDX[x]) for x in a[0]))
            elif kind == "queue_req":
                out.append("queueReq %d" % IDX[a[0]])
            elif kind == "req_pop":
                out.append("reqPop %d" % IDX[a[0]])
            elif kind == "state":
                d, st = a
                self.state[d] = st
                if st in ("waiting_for_target_ready", "ejecting"):
                    self.extsig[d] = False
                if st != "failed_confirm":
                    self.manual[d] = False
                m = {"waiting_for_ball": "waitBall", "waiting_for_target_ready": "waitTarget", "ball_left": "ballLeft",
                     "failed_confirm": "confirmTimeout"}.get(st)
                if m and self.manual[d] and st == "failed_confirm":
                    out.append("manualTimeout %d" % IDX[d])
                elif m:
                    out.append("%s %d" % (m, IDX[d]))
            elif kind == "ball_eject_attempt":
                out.append("%s %d %d %d" % ("retry" if a[2] else "attempt", IDX[a[0]], IDX[a[1]], a[2]))
            elif kind == "mech_idle":
                self.manual[a[0]] = True
                out.append("manualLeft %d %d" % (IDX[a[0]], IDX[a[1]]))
            elif kind == "ec":
                out.append("ec %s %d" % (a[1], a[2]))
            elif kind == "ejecting_ball" and self.manual[a[0]] and self.state[a[0]] == "idle":
                pass                                # part of manualLeft (already_left eject: no readiness check, no coil)
            elif kind == "ejecting_ball" and self.state[a[0]] in ("waiting_for_ball", "idle"):
                self.skipping[a[0]] = True
                out.append("skipStart %d %d" % (IDX[a[0]], IDX[a[1]]))      # _skipping_ball (mechanical device)
            elif kind == "ball_eject_success" and self.skipping[a[0]] and self.state[a[0]] in ("waiting_for_ball", "idle"):
                self.skipping[a[0]] = False
                out.append("%s %d %d" % ("skipConfirm" if self.state[a[0]] == "waiting_for_ball" else "skipConfirmIdle",
                                         IDX[a[0]], IDX[a[1]]))
                self.state[a[0]] = "idle"
            elif kind == "ball_eject_failed" and self.skipping[a[0]] and self.state[a[0]] in ("waiting_for_ball", "idle"):
                self.skipping[a[0]] = False
                out.append("skipFail %d %d" % (IDX[a[0]], IDX[a[1]]))
            elif kind == "ball_eject_success" and self.manual[a[0]] and self.state[a[0]] == "idle":
                self.manual[a[0]] = False
                out.append("confirmManual %d %d" % (IDX[a[0]], IDX[a[1]]))
            elif kind == "ejecting_ball":
                out.append("ejectStart %d %d" % (IDX[a[0]], IDX[a[1]]))
            elif kind == "did_not_arrive":
                if self.manual[a[0]] and self.state[a[0]] == "failed_confirm":
                    self.manual[a[0]] = False
                    out.append("manualReturn %d" % IDX[a[0]])   # no failure event: the eject loop takes the request over
            elif kind == "ext_signal":
                self.extsig[a[0]] = True
            elif kind == "ball_eject_success" and self.extsig[a[0]] and \
                    (self.state[a[0]] == "ball_left" or (self.state[a[0]] == "failed_confirm" and a[1] != "playfield")):
                self.extsig[a[0]] = False
                out.append("extConfirm %d %d" % (IDX[a[0]], IDX[a[1]]))
            elif kind == "ball_eject_success":
                self.manual[a[0]] = False
                self.extsig[a[0]] = False
                out.append("%s %d %d" % ("lateConfirm" if self.state[a[0]] == "failed_confirm" else "confirm", IDX[a[0]],
                                         IDX[a[1]]))
            elif kind == "ball_eject_failed":
                d, t, n, retry = a
                if not retry:
                    continue            # reported by the `broken` observation that follows
                lost = False
                for o2 in obs[i + 1:]:
                    if o2[1] == "lost_ejected" and o2[2] == d:
                        lost = True
                        break
                    if o2[1] in ("ball_eject_attempt", "ejecting_ball", "state") and o2[2] == d:
                        break
                if lost:
                    continue            # reported by `lostEjected`
                out.append("%s %d %d" % ("ejectFailedReturn" if self.state[d] == "failed_confirm" else "ejectFailedStuck",
                                         IDX[d], n))
            elif kind == "broken":
                out.append("broken %d" % IDX[a[0]])
            elif kind == "lost_ejected":
                out.append("lostEjected %d" % IDX[a[0]])
            elif kind == "lost_idle":
                out.append("lostIdle %d" % IDX[a[0]])
            elif kind == "lost_incoming":
                out.append("incomingTimeout %d" % IDX[a[0]])
            elif kind == "captured":
                d = unexpected.pop(0) if unexpected else None
                out.append("pfCapture %s" % ("?" if d is None else IDX[d]))
            elif kind == "ball_enter":
                out.append("%s %d" % ("enterUnexpected" if a[1] else "enterExpected", IDX[a[0]]))
            elif kind == "found_new_ball":
                out.append("newBallFound")
            elif kind == "pf_arrived":
                if a[1] == "stale":
                    out.append("pfArrivedStale %d %d" % (IDX[a[0]], IDX[a[2]]))
                elif a[3] > 0:
                    out.append("pfArrivedFrom %d %d" % (IDX[a[0]], IDX[a[2]]))     # not the head of the list
                else:
                    out.append("pfArrived %d" % IDX[a[0]])
        return out


# ---------------------------------------------------------------------------------------------------------------------
# one case: ops on the real machine + world, monitor, oracles
# ---------------------------------------------------------------------------------------------------------------------

MAX_CASE_S = 400.0
ENV_OPS = ("drain", "lock", "plunge", "launch", "spurious_confirm", "pf_to_plunger", "pf_hit")


class CaseResult:
    def __init__(self):
        self.failures = []      # (signature, detail)
        self.mismatch = None    # first monitor mismatch: dict
        self.steps = 0
        self.ops_fed = 0
        self.hist = {}
        self.rests = 0
        self.nontrivial = False

    focus = "C04"

    def fail(self, sig, detail):
        if not any(f[0] == sig for f in self.failures):
            self.failures.append((sig, detail))

    @property
    def blocking(self):
        if self.focus == "C04":
            return self.failures
        return [f for f in self.failures if is_progress_sig(f[0]) or f[0].startswith(("crash:", "fired-into", "misattributed:",
                                                                                      "ball-reached"))]

    def count(self, k, n=1):
        self.hist[k] = self.hist.get(k, 0) + n


def _rest_len(p):
    return (p["eject_to"] + p["missing_to"] + p["idle_to"]) / 1000.0 + 2.0


PROGRESS_PREFIXES = ("progress:", "stuck:", "rest:servable", "rest:requested", "rest:request-dropped", "rest:never",
                     "rest:device-not-idle", "rest:eject-queue")


def is_progress_sig(sig):
    """signatures owned by C05 (progress); everything else belongs to C04 (counts)"""
    return sig.startswith(PROGRESS_PREFIXES)


def run_case(case, model=None, focus="C04"):
    """returns CaseResult.  `model` = LeanProc of the ledger monitor or None (oracle only).  A case stops at the first
    failure that belongs to the property in `focus` (or that makes the rest of the history meaningless: crash, double
    fire); with focus C05 a pure count failure (C04's business) is recorded but the history goes on, so that its
    consequences for progress - a request never served - are seen by C05's own oracle."""
    p, timing = case["p"], case["timing"]
    res = CaseResult()
    res.focus = focus
    run = Run(p, case.get("outcomes", {}), timing)
    run.start()
    try:
        _run_case(case, run, res, model)
    finally:
        run.stop()
    return res


def _run_case(case, run, res, model):
    p = case["p"]
    timing = case["timing"]
    m = run.vm.machine
    world = run.world
    ab = Abstraction()
    fed = [0]
    monitor_on = [False]
    requests = {"pf": 0}
    expected_pf = [0]       # requests served so far must end up as loose balls; drains/locks take them away

    def crash(e, where):
        res.fail("crash:" + type(e).__name__, {"where": where, "error": repr(e)[:300], "obs": run.obs[-12:],
                                               "world": world.history[-12:]})

    def sample():
        res.steps += 1
        s = run.snap()
        if case.get("report_transient") and run.transient_negative:
            res.fail("count-negative:balls-property-after-eject-success",
                     {"raw": run.last_negative, "tick": round(run.vm.now() / GRID), "obs": run.obs[-8:], "world": world.history[-6:]})
        # oracle, every sample: no count negative or above capacity
        for d in DEVS:
            x = s[d]
            if x["balls"] < 0 or x["counted"] < 0 or x["balls"] > x["cap"] or x["counted"] > x["cap"]:
                sig = "count-out-of-bounds:" + d
                if "ec" in x and x["counted"] == x["cap"] + 1 and 0 <= x["balls"] <= x["cap"] and \
                        m.ball_devices[d].state in ("ball_left", "failed_confirm"):
                    sig = "count-above-capacity:counted_balls-entry-during-unconfirmed-eject"
                res.fail(sig, {"device": d, "snap": x, "tick": round(run.vm.now() / GRID),
                               "obs": run.obs[-10:], "world": world.history[-10:]})
                if sig.startswith("count-above-capacity:"):
                    monitor_on[0] = False       # the ledger keeps counted <= capacity: the rest of the history is outside it
        for ff in world.fired_full:
            if "sig" not in ff:         # classified once, from the history up to the event
                ff["sig"] = classify_fired_full(ff, p, run.obs, world.history)
            res.fail(ff["sig"], dict(ff, obs=run.obs[-14:], world=world.history[-10:]))
        if world.fired_full:
            monitor_on[0] = False      # the consequences of a double fire are outside the ledger
            return
        if world.overflow and not world.fired_full:
            res.fail("ball-reached-full-device", {"overflow": world.overflow, "world": world.history[-10:]})
        if monitor_on[0]:
            new = run.obs[fed[0]:]
            fed[0] = len(run.obs)
            if any(o[1] == "broken" for o in new) or any(s[d]["state"] == "eject_broken" for d in DEVS):
                # a device has reported itself broken (the property's terminal outcome for it): what the OTHER devices do
                # towards it from now on (e.g. an eject to it that was being set up in the same instant) is outside the
                # ledger, which takes no transition into a broken device.  The oracles go on (rest_with_broken_device).
                monitor_on[0] = False
                res.count("monitor_off_after_broken_device")
                return
            for o in new:
                if o[1] == "plan" and o[2][0] in DEVS and s[o[2][0]]["counted"] == 0 and s[o[2][0]]["incoming"] > 0:
                    # a chain planned from a device that is empty and only EXPECTS its ball (its held ball was used for another
                    # chain, the replacement is under way): the real device takes the eject as current target at once but keeps
                    # the state label `idle` while it waits for the incoming ball; the ledger dequeues with the state change.
                    # Outside the ledger's granularity: the monitor stops here (counted), the oracles go on
                    monitor_on[0] = False
                    res.count("monitor_off_plan_from_expected_ball")
                    return
            ans = None
            for line in ab.ops(new):
                ans = model.ask(line)
                res.ops_fed += 1
                res.count("op_" + line.split(" ")[0])
                if not ans.startswith("ok"):
                    res.mismatch = {"what": "transition not enabled in the ledger", "op": line, "answer": ans,
                                    "tick": round(run.vm.now() / GRID), "obs": new, "impl": snap_line(s)}
                    monitor_on[0] = False
                    return
            if ans is None:
                ans = model.ask("show")
            impl = snap_line(s)
            if ans != impl:
                res.mismatch = {"what": "counts differ after the step", "model": ans, "impl": impl,
                                "tick": round(run.vm.now() / GRID), "obs": new}
                monitor_on[0] = False
            else:
                res.count("samples_agree")

    def advance(dt):
        try:
            run.step_to(run.vm.now() + dt, sample)
            return True
        except util.InfraError:
            raise
        except BaseException as e:   # an exception escaping MPF is an observation
            crash(e, "advance")
            return False

    def at_rest_check(final):
        if res.blocking:
            return
        res.rests += 1
        s = run.snap()
        truth = world.truth()
        tick = round(run.vm.now() / GRID)
        ctxd = {"tick": tick, "snap": s, "truth": truth, "obs": run.obs[-16:], "world": world.history[-16:]}
        broken = [d for d in DEVS if s[d]["state"] == "eject_broken"]
        starved = None
        if p["topo"] == "two_src" and not broken:
            # second recorded finding of the two-sources topology: a source waiting in wait_for_ready_to_receive (room taken
            # by the other source's incoming ball) is only woken by a ball-count change of the target; when that incoming
            # ball is declared lost the room is free again but nobody re-checks: the source waits for ever
            t = s["plunger"]
            for d in ("trough", "lock"):
                if s[d]["state"] == "waiting_for_target_ready" and t["cap"] - t["counted"] > t["incoming"] and \
                        any(o[1] == "lost_ejected" and o[3] == "plunger" for o in run.obs):
                    starved = d
        if starved:
            res.fail("stuck:source-not-woken-after-incoming-ball-lost:two-sources", dict(ctxd, waiting_source=starved))
            return
        if p["topo"] == "two_src" and not broken and s["plunger"]["state"] == "waiting_for_ball" and s["plunger"]["counted"] == 0:
            # third recorded finding of the two-sources topology: a source's ball is declared lost on its way to the target;
            # lost_ejected_ball restores the path by asking the SAME source for another ball (self.eject(target)) after
            # debiting the target (available_balls -= 1).  A source that has no ball left (the lock) only queues the request:
            # the target waits for that ball for ever although the other source holds an available ball
            for d, other in (("lock", "trough"), ("trough", "lock")):
                if s[d]["counted"] == 0 and s[d]["reqs"] >= 1 and s[d]["state"] == "idle" and \
                        s[other]["counted"] > 0 and s[other]["state"] == "idle" and s[other]["avail"] > 0 and \
                        any(o[1] == "lost_ejected" and o[2] == d and o[3] == "plunger" for o in run.obs):
                    res.fail("stuck:path-restored-through-empty-source:two-sources", dict(ctxd, empty_source=d))
                    return
        if p["topo"] == "chain" and not broken and s["plunger"]["state"] == "waiting_for_target_ready" and \
                s["lock"]["cap"] - s["lock"]["counted"] > s["lock"]["incoming"] and s["lock"]["state"] == "idle" and \
                not s["lock"]["queue"] and any(o[1] == "lost_incoming" and o[2] == "lock" for o in run.obs):
            # the same finding by another route (session 3): the launcher waits in wait_for_ready_to_receive because a ball whose
            # eject was confirmed by the confirm switch / event is registered as incoming at the lock; that ball times out
            # (lost_incoming_ball), the room is free, but the waiter is only woken by ball-count changes of the lock
            res.fail("stuck:source-not-woken-after-incoming-ball-lost:incoming-timeout", dict(ctxd, waiting_source="plunger"))
            return
        for d in DEVS:
            if s[d]["balls"] != truth[d] and not (d in broken and d == "plunger" and p.get("plunger") in ("mech", "combo")):
                # (a device that has reported itself broken has stopped its counting tasks - by design; out of a MECHANICAL
                # one the player can still plunge the ball, so only there can the frozen count differ from the content)
                res.fail("rest:device-count-differs:" + d, ctxd)
            if s[d]["state"] not in ("idle", "eject_broken") and not _blocked_by_broken(s, d, broken, p) \
                    and not _waits_for_unavailable_ball(s, d, p):
                res.fail("rest:device-not-idle:" + d, ctxd)
        if not broken:
            if s["playfield"]["balls"] != truth["playfield"]:
                res.fail("rest:playfield-count-differs", ctxd)
            tot = sum(s[d]["balls"] for d in DEVS) + s["playfield"]["balls"]
            if tot != s["known"] or s["known"] != world.nballs:
                res.fail("rest:sum-differs-from-known", ctxd)
            av = sum(s[d]["avail"] for d in DEVS) + s["playfield"]["avail"]
            if av != s["known"]:
                res.fail("rest:available-sum-differs-from-known", ctxd)
            for d in DEVS:
                owed = _waits_for_unavailable_ball(s, d, p)     # a claim on a ball that is not there yet (restored path)
                pending = any(s[x]["queue"] or s[x]["state"] != "idle" for x in DEVS)   # a planned chain claims its ball at
                # the final target before the ball is there; otherwise nothing may be available that is not in the device
                if (s[d]["avail"] < 0 and not owed) or (s[d]["avail"] > s[d]["balls"] and not pending):
                    res.fail("rest:available-out-of-range:" + d, ctxd)
            # progress: every requested ball delivered, or no ball can serve the request
            queued = sum(s[d]["reqs"] for d in DEVS)
            if queued and _servable(s, p):
                res.fail("rest:servable-request-still-queued", ctxd)
            for d in DEVS:
                if s[d]["queue"] and not _waits_for_unavailable_ball(s, d, p):
                    res.fail("rest:eject-queue-not-empty:" + d, ctxd)
            quiescent = all(s[d]["queue"] == 0 and s[d]["state"] == "idle" for d in DEVS)
            if quiescent and not queued:
                # nothing pending anywhere: no claim may be left over - available_balls is exactly the belief, which is
                # exactly the physical content (no phantom availability, no forgotten debt)
                for d in DEVS:
                    if s[d]["avail"] != truth[d]:
                        res.fail("rest:available-differs-from-physical-content:" + d, ctxd)
                if s["playfield"]["avail"] != truth["playfield"]:
                    res.fail("rest:available-differs-from-physical-content:playfield", ctxd)
            plans_total = 0
            for node in NODES:
                plans = sum(1 for o in run.obs if o[1] == "plan" and o[2][-1] == node)
                plans_total += plans
                # a hop whose ball was declared lost is re-planned to the same node (restore branch): count it as accounted for
                got = world.delivered["pf" if node == "playfield" else node] + \
                    sum(1 for o in run.obs if o[1] == "lost_ejected" and o[3] == node) + _assumed_skips(run.obs, node)
                if node != "playfield" and plans:
                    # the property asks that the target receives a ball per request, not by which route: a ball that went astray
                    # and rolls into the target from the playfield while a chain to it is open is taken by MPF for the chain's
                    # ball (balls have no identity) - count every physical entry into the node since the first plan to it
                    t_first = min(o[0] for o in run.obs if o[1] == "plan" and o[2][-1] == node)
                    got = sum(1 for h in world.history if h[1] == "entered" and h[2] == node and h[4] != node and h[0] >= t_first) + \
                        sum(1 for o in run.obs if o[1] == "lost_ejected" and o[3] == node) + _assumed_skips(run.obs, node) + \
                        sum(1 for o in run.obs if o[1] == "lost_incoming" and o[2] == node)
                    # (lost_incoming: the source's eject was confirmed by its confirm switch / event, the ball timed out at the
                    # target - declared lost like a lost_ejected ball, and re-planned if a ball is available)
                if quiescent and not queued and got < plans:     # every chain MPF committed to this target physically delivered a ball
                    res.fail("rest:requested-ball-not-delivered", dict(ctxd, target=node, planned=plans, delivered=got))
            nreq = sum(1 for o in run.obs if o[1] == "request")
            if plans_total + queued < nreq:
                res.fail("rest:request-dropped", dict(ctxd, requests=nreq, planned=plans_total, queued=queued))
        else:
            res.count("rest_with_broken_device")
            tot_truth = sum(truth.values())
            if tot_truth != world.nballs:
                raise util.InfraError("world lost a ball")
        if s["playfield"]["balls"] < 0:
            res.fail("rest:playfield-count-negative", ctxd)
        run.claim_lock = 0          # a claim that found no ball expires

    def go_to_rest():
        """run until the world has stopped changing and MPF has been quiet for longer than every configured timeout"""
        quiet = _rest_len(p)
        t0 = run.vm.now()
        while True:
            n_obs, n_hist = len(run.obs), len(world.history)
            if not advance(quiet):
                return False
            if res.blocking:
                return False
            if p.get("plunger") in ("mech", "combo") and world.occupancy("plunger") and world.kick["plunger"] is None \
                    and m.ball_devices["plunger"].state not in ("idle", "eject_broken") and run.vm.now() - t0 <= MAX_CASE_S:
                # a ball is waiting in the plunger lane for the player: the player eventually plunges (weak fairness of the
                # environment), and does it properly
                if case.get("env_offset"):
                    if not advance(GRID / 8):
                        return False
                world.plunge("ok")
                res.count("auto_plunge")
                if case.get("env_offset"):
                    if not advance(GRID - GRID / 8):
                        return False
                continue
            if len(run.obs) == n_obs and len(world.history) == n_hist and not world.q:
                return True
            if run.vm.now() - t0 > MAX_CASE_S:
                res.fail("rest:never-comes-to-rest", {"obs": run.obs[-20:], "world": world.history[-12:],
                                                      "snap": run.snap()})
                return False

    # -- boot settles; monitor gets the configuration
    if not advance(1.0):
        return
    s0 = run.snap()
    if model is not None:
        ans = model.ask(cfg_line(p, s0))
        if ans != snap_line(s0):
            res.mismatch = {"what": "initial state", "model": ans, "impl": snap_line(s0)}
        else:
            monitor_on[0] = True
            fed[0] = len(run.obs)
    expected_pf[0] = 0
    alive = True
    for op in case["ops"]:
        if not alive or res.blocking:
            break
        k = op[0]
        res.count("act_" + k)
        env = bool(case.get("env_offset")) and k in ENV_OPS
        try:
            if env:
                # what the player and the balls do is not synchronised with MPF's clock: environment actions happen 1/128 s
                # after a grid instant, so a physical event never falls on exactly the same loop instant as an unrelated MPF
                # timer (those same-instant races are covered by directed witnesses, see C04.WITNESSES)
                alive = advance(GRID / 8)
                if not alive:
                    break
            if k == "add_ball":
                run.log("request")
                m.playfield.add_ball(1)
                expected_pf[0] += 1
            elif k == "add_ball_pc":
                run.log("request")
                m.playfield.add_ball(1, player_controlled=True)     # what the game does at ball start
                expected_pf[0] += 1
            elif k == "plunge":
                if p.get("plunger") in ("mech", "combo") and m.ball_devices["plunger"].state != "eject_broken" and world.plunge():
                    pass        # (a device that has reported itself broken has stopped counting by design: not plunged)
                else:
                    res.count("act_noop")
            elif k == "launch":
                if p.get("plunger") == "combo":
                    m.events.post("ev_launch")
                else:
                    res.count("act_noop")
            elif k == "spurious_confirm":
                if p.get("confirm", "target") != "target" and world.spurious_confirm_allowed():
                    world._confirm_signal()
                else:
                    res.count("act_noop")
            elif k == "pf_to_plunger":
                if world.move_loose_to("plunger"):
                    if op[1]:
                        run.claim_plunger += 1
                else:
                    res.count("act_noop")
            elif k == "drain":
                if world.move_loose_to("trough"):
                    expected_pf[0] -= 1
                else:
                    res.count("act_noop")
            elif k == "lock":
                before = world.occupancy("lock")
                if world.move_loose_to("lock"):
                    if op[1]:
                        run.claim_lock += 1
                        expected_pf[0] -= 1
                    elif p["topo"] == "two_src":
                        pass            # unclaimed: re-ejected via plunger to the playfield
                    del before
                else:
                    res.count("act_noop")
            elif k == "release_lock":
                dev = m.ball_devices["lock"]
                oh = dev.outgoing_balls_handler
                pending = oh._eject_queue.qsize() + (1 if oh._current_target is not None else 0)
                if dev.available_balls > 0 and dev.balls - pending > 0 and dev.state != "eject_broken":
                    run.log("request")
                    dev.eject(1, target=m.playfield)
                    expected_pf[0] += 1
                else:
                    res.count("act_noop")
            elif k == "stale_release":
                # the eject hole gets its (config driven) eject event while it is empty: MPF keeps it as a queued request
                # ("eject the next ball you get") - legal, and it makes the lock a second requester
                if p["topo"] != "chain" and m.ball_devices["lock"].state != "eject_broken":
                    run.log("request")
                    m.events.post("ev_release_lock")
                else:
                    res.count("act_noop")
            elif k == "request_lock":
                dev = m.ball_devices["lock"]
                if p["topo"] == "chain" and dev.state != "eject_broken" and dev.available_balls < dev.capacity:
                    run.log("request")
                    dev.request_ball()          # multi-hop request to a non-playfield target: trough -> plunger -> lock
                else:
                    res.count("act_noop")
            elif k == "escape":
                dev = m.ball_devices["lock"]
                if dev.state == "idle" and dev.available_balls == dev.balls and world.escape("lock"):
                    alive = advance(p["idle_to"] / 1000.0 + 1.0)    # nothing else moves until MPF has noticed
                    continue
                res.count("act_noop")
            elif k == "pf_hit":
                if world.pf_switch_allowed():
                    world.switch("s_pf", 1)
                    world.switch("s_pf", 0)
                else:
                    res.count("act_noop")
            elif k == "wait":
                alive = advance(op[1] * GRID)
                continue
            elif k == "rest":
                alive = go_to_rest()
                if alive:
                    at_rest_check(False)
                continue
            else:
                raise util.InfraError("unknown op %r" % (op,))
            alive = advance(GRID - GRID / 8 if env else 0)
        except util.InfraError:
            raise
        except BaseException as e:
            crash(e, "op " + k)
            alive = False
    if alive and not res.blocking:
        if go_to_rest():
            at_rest_check(True)
    # -- C05 on the event stream: every failed eject is retried with the next attempt number, reported lost, or the
    #    device reports itself broken exactly once and never tries again
    _retry_or_report(run.obs, res, p)
    res.count("transient_balls_property_minus_one", run.transient_negative)
    res.obs_len = len(run.obs)
    res.world_len = len(world.history)
    res.nontrivial = any(h[1] in ("left",) for h in world.history)
    for h in world.history:
        if h[1] == "pulse" and len(h) > 3:
            res.count("outcome_" + h[3])
    for o in run.obs:
        if o[1] in ("lost_ejected", "lost_idle", "broken", "found_new_ball", "queue_req", "captured"):
            res.count("mpf_" + o[1])


def _assumed_skips(obs, node):
    """number of times MPF declared, by time-out, that an expected ball has passed a mechanical device unseen and is at `node`
    (`_skipping_ball`): like a ball declared lost it is a stated assumption, not a delivery; when it is wrong the ball turns
    up as an unexpected ball and is planned again"""
    state, skipping, manual, n = {}, {}, {}, 0
    for i, o in enumerate(obs):
        k = o[1]
        if k == "state":
            state[o[2]] = o[3]
            manual[o[2]] = False
        elif k == "mech_idle":
            manual[o[2]] = True         # a mechanical eject during idle posts the same event pair; it is a real eject
        elif k == "ball_eject_success" and manual.get(o[2]):
            manual[o[2]] = False
        elif k == "ejecting_ball" and manual.get(o[2]):
            pass
        elif k == "ejecting_ball" and state.get(o[2], "idle") in ("waiting_for_ball", "idle") and o[4] == 1:
            skipping[o[2]] = True
        elif k == "ball_eject_failed" and skipping.get(o[2]):
            skipping[o[2]] = False
        elif k == "ball_eject_success" and skipping.get(o[2]) and state.get(o[2], "idle") in ("waiting_for_ball", "idle"):
            skipping[o[2]] = False
            by_signal = i > 0 and obs[i - 1][0] == o[0] and obs[i - 1][1] in ("pf_arrived", "ext_signal")
            if o[3] == node and not by_signal:
                n += 1
    return n


def classify_fired_full(ff, p, obs, history):
    """signature of a "fired into a full device" event: which class of history led to it"""
    src, tgt = ff["source"], ff["target"]
    det = ff.get("heading_detail", [])
    if any(a == tgt and b == tgt and k == "fallback" for a, b, k, _ in det):
        # the target's own ball (ejected towards the playfield) is falling back while the next ball is fired at it:
        # MPF had confirmed that eject - by a playfield switch hit of *another* ball, or by the timeout
        last = fired = None
        for i, o in enumerate(obs):
            if o[1] == "ball_eject_success" and o[2] == tgt:
                last = i
            if o[1] == "ejecting_ball" and o[2] == tgt:
                fired = i
        if fired is not None and (last is None or last < fired):
            # not one of the known ambiguity classes: MPF has NOT confirmed the target's own eject (no success event, the
            # target is still in ball_left / failed_confirm) and fires the next ball at it although its ball may come back
            return "fired-into-full-device:target-eject-unconfirmed"
        by_pf = last is not None and last > 0 and obs[last - 1][1] == "pf_arrived" and obs[last - 1][0] == obs[last][0]
        return "misattributed:playfield-hit-after-return" if by_pf else "fired-into-full-device:fallback-after-eject-timeout"
    if any(k == "verylate" for _, _, k, _ in det):
        return "fired-into-full-device:arrival-after-ball-missing-timeout"
    own = [x for x in det if x[0] == src and x[2] in ("late", "ok")]
    if own and any(h[1] == "entered" and h[2] == src and h[4] == "pf" and h[0] >= (own[0][3] or 0) - 4 for h in history):
        # the source retried because a ball that entered it during its own eject was taken for the ejected ball returning
        return "misattributed:entry-during-own-eject"
    if p["topo"] == "two_src" and set(ff["heading_from"]) - {src}:
        return "fired-into-full-device:two-sources"
    committed = [o[0] for o in obs if o[1] == "state" and o[2] == src and o[3] == "ejecting" and o[0] <= ff["t"]]
    if committed and not det and any(h[1] == "entered" and h[2] == tgt and h[4] == "pf" and committed[-1] <= h[0] <= ff["t"]
                                     for h in history):
        # a ball rolled from the playfield into the target after the source had passed its readiness check and before it fired
        return "fired-into-full-device:entry-between-readiness-check-and-pulse"
    return "fired-into-full-device"


def _blocked_by_broken(s, d, broken, p):
    """a device may legitimately wait for ever for a ball that a broken upstream device will never deliver"""
    return bool(broken) and s[d]["state"] in ("waiting_for_ball", "waiting_for_target_ready")


def _upstream(p):
    return {"trough": [], "plunger": ["trough"] + (["lock"] if p["topo"] == "two_src" else []),
            "lock": ["plunger", "trough"] if p["topo"] == "chain" else []}


def _waits_for_unavailable_ball(s, d, p):
    """the device holds a planned eject but neither it nor any device upstream has a ball: nothing can be served; or
    (chain topology) the launcher holds a ball for the lock and the lock is physically full and idle: no room to serve"""
    if p["topo"] == "chain" and d == "plunger" and s[d]["state"] == "waiting_for_target_ready" and \
            s["lock"]["counted"] >= s["lock"]["cap"] and s["lock"]["state"] == "idle" and not s["lock"]["queue"]:
        return True
    if p["topo"] == "chain" and d == "trough" and s[d]["state"] == "waiting_for_target_ready" and s["plunger"]["counted"] >= 1 \
            and _waits_for_unavailable_ball(s, "plunger", p):
        return True             # ... and the trough's next ball waits behind the launcher that cannot get rid of its ball
    return s[d]["state"] == "waiting_for_ball" and s[d]["counted"] == 0 and \
        all(s[x]["counted"] == 0 and s[x]["state"] in ("idle", "eject_broken") for x in _upstream(p)[d])


def _servable(s, p):
    """some queued request could be served: the device holding it, or a device upstream of it, has an available ball"""
    up = _upstream(p)
    for d in DEVS:
        # requests queued at the lock are for the lock itself (request_ball); a claim of a pending chain (available without
        # a counted ball) serves nothing
        cands = up[d] + ([d] if d != "lock" or p["topo"] != "chain" else [])
        if s[d]["reqs"] and any(s[x]["avail"] > 0 and s[x]["counted"] > 0 and s[x]["state"] != "eject_broken" for x in cands):
            return True
    return False


def _retry_or_report(obs, res, p=None):
    """C05 on the event stream: attempts are numbered 0,1,2,...; every failed eject is retried with the next number,
    reported lost, or (last attempt) the device reports itself broken exactly once and never tries again; never more
    attempts than max_eject_attempts"""
    pending = {}      # device -> (n, retry)
    broken = {}
    last_attempt = {}
    maxes = {} if p is None else {"trough": p["tries_trough"], "plunger": p["tries_plunger"], "lock": p["tries_lock"]}
    state = {}
    for o in obs:
        k = o[1]
        if k == "state":
            state[o[2]] = o[3]
        if k == "ball_eject_failed" and state.get(o[2], "idle") in ("waiting_for_ball", "idle"):
            continue        # _skipping_ball: the expected ball did not pass the mechanical device unseen after all - no
            #                 physical eject of this device has failed, the eject loop goes on waiting for its ball
        if k == "ball_eject_failed":
            d, t, n, retry = o[2:]
            if d in pending and pending[d] is not None:
                res.fail("progress:failed-eject-neither-retried-nor-reported:" + d, {"obs": o, "pending": pending[d]})
            pending[d] = (n, retry, o[0])
        elif k == "ball_eject_attempt":
            d, t, n = o[2:]
            if broken.get(d):
                res.fail("progress:attempt-after-broken:" + d, {"obs": o})
            if maxes.get(d) and n >= maxes[d]:
                res.fail("progress:more-attempts-than-max_eject_attempts:" + d, {"obs": o, "max": maxes[d]})
            if pending.get(d) is not None:
                pn, retry, _ = pending[d]
                if not retry or n != pn or n != last_attempt.get(d, -1) + 1:
                    res.fail("progress:retry-with-wrong-attempt-number:" + d,
                             {"obs": o, "failed": pending[d], "previous_attempt": last_attempt.get(d)})
                pending[d] = None
            elif n != 0:
                res.fail("progress:retry-without-failure:" + d, {"obs": o})
            last_attempt[d] = n
        elif k == "lost_ejected":
            pending[o[2]] = None
        elif k == "broken":
            d = o[2]
            broken[d] = broken.get(d, 0) + 1
            if broken[d] > 1 or pending.get(d) is None or pending[d][1]:
                res.fail("progress:broken-report-wrong:" + d, {"obs": o, "pending": pending.get(d), "count": broken[d]})
            pending[d] = None
    for d, v in pending.items():
        if v is not None:
            res.fail("progress:failed-eject-neither-retried-nor-reported:" + d, {"failed": v})
