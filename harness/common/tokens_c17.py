"""C17: show-token substitution - the real Show.get_show_steps_with_token (mpf/assets/show.py) on generated nested step
dicts against the Lean model (Model/ShowToken.lean, driver line `tok ...`) and a model-independent oracle."""
import copy
import re

NAMES = ["a", "b", "c", "lt", "x1"]
VALUES = ["R", "l1", "ff0000", "250ms", "v_w", "7", "led_2", "Rb"]
LITS = ["x", "led_", "s", "_", "-f", "+1", "ms", "0", "a", "b"]
ODD = ["()", ")", "q)", "(", "w("]       # no token: empty parentheses, unbalanced ones (an open one only at the very end)
SECTIONS = ["lights", "events", "p1"]


def gen_str(r, names, tokp=0.5):
    parts = []
    for _ in range(r.choice([1, 1, 2, 2, 3, 4])):
        k = r.random()
        if k < tokp and names:
            parts.append("(%s)" % r.choice(names))
        elif k < tokp + 0.06:
            parts.append(r.choice(ODD[:3]))
        else:
            parts.append(r.choice(LITS))
    if r.random() < 0.04:
        parts.append(r.choice(ODD[3:]))
    return "".join(parts)


def gen_dict(r, names, depth):
    d = {}
    for _ in range(r.choice([1, 1, 2, 3])):
        key = gen_str(r, names, 0.35)
        if key in d:
            continue
        if depth > 0 and r.random() < 0.45:
            d[key] = gen_dict(r, names, depth - 1)
        elif r.random() < 0.1:
            # a list value (like events_when_played of a nested show): its items are values, addressed by their index
            d[key] = [gen_str(r, names, 0.5) for _ in range(r.choice([1, 2, 3]))]
        else:
            d[key] = gen_str(r, names, 0.45) if r.random() < 0.9 else r.choice([3, 250, True])
    return d


def gen_case(r):
    names = r.sample(NAMES, r.choice([0, 1, 2, 2, 3, 4]))
    steps = []
    for _ in range(r.choice([1, 1, 2, 3])):
        step = {"duration": r.choice([1, 0.5, -1])}
        for sec in r.sample(SECTIONS, r.choice([1, 1, 2])):
            step[sec] = gen_dict(r, names, r.choice([0, 1, 1, 2]))
        steps.append(step)
    k = r.random()
    supplied = list(names) if k < 0.55 else r.sample(names, r.randint(0, len(names))) if k < 0.8 else \
        list(names) + r.sample([n for n in NAMES if n not in names], min(1, len(NAMES) - len(names)))
    r.shuffle(supplied)
    toks = {n: r.choice(VALUES) for n in supplied}
    return {"steps": steps, "tokens": toks}


def flatten(x, path=()):
    """[(path of keys as strings, value as string)] of a nested dict / list of steps"""
    out = []
    if isinstance(x, dict):
        for k, v in x.items():
            out += flatten(v, path + (str(k),))
    elif isinstance(x, list):
        for i, v in enumerate(x):
            out += flatten(v, path + (str(i),))
    else:
        out.append((path, str(x)))
    return out


class _SC:
    show_players = {}


class _Machine:
    show_controller = _SC()


def real_subst(case):
    """(flattened result, flattened show_steps afterwards, flattened second call) or the exception"""
    from mpf.assets.show import Show
    show = Show(_Machine(), "gen")
    show.show_steps = copy.deepcopy(case["steps"])
    show._get_tokens()
    first = show.get_show_steps_with_token(dict(case["tokens"]))
    res = sorted(flatten(first))
    again = sorted(flatten(show.get_show_steps_with_token(dict(case["tokens"]))))
    return res, sorted(flatten(show.show_steps)), again, sorted(show.tokens)


def model_line(case):
    ents = sorted(flatten(case["steps"]))
    w = ["tok", str(len(case["tokens"]))]
    for n, v in case["tokens"].items():
        w += ["." + n, "." + v]
    w.append(str(len(ents)))
    for path, val in ents:
        w.append(str(len(path)))
        w += ["." + k for k in path] + ["." + val]
    return " ".join(w)


def parse_answer(ans):
    """'t <tokens left> <d> .k ... .v ...' -> (tokens left, sorted entries)"""
    w = ans.split(" ")
    if w[0] != "t":
        return None
    left = int(w[1])
    i = 2
    out = []
    while i < len(w):
        d = int(w[i])
        ks = tuple(x[1:] for x in w[i + 1:i + 1 + d])
        out.append((ks, w[i + 1 + d][1:]))
        i += d + 2
    return left, sorted(out)


TOK = re.compile(r"\(([^)]+)\)")


def tokens_in(ents):
    out = set()
    for path, val in ents:
        for s in list(path) + [val]:
            out |= set(TOK.findall(s))
    return out


def _values(d):
    for v in d.values():
        if isinstance(v, dict):
            yield from _values(v)
        else:
            yield v


def one_case(ctx, model, case):
    """returns False when a failure / disagreement was recorded"""
    before = sorted(flatten(case["steps"]))
    present = tokens_in(before)
    toks = case["tokens"]
    ctx.evaluated(dict(case, kind="tokens"), bool(present & set(toks)))
    ctx.count("tok_cases")
    if not toks:
        ctx.count("tok_no_tokens_supplied")
    elif not present:
        ctx.count("tok_show_without_tokens")
    elif present <= set(toks):
        ctx.count("tok_all_supplied")
    else:
        ctx.count("tok_some_missing")
    if set(toks) - present:
        ctx.count("tok_extra_token_supplied")
    if any(isinstance(v, list) and any(TOK.search(str(x)) for x in v) for st in case["steps"] for v in _values(st)):
        ctx.count("tok_token_in_list_value")
    if any(len(TOK.findall(k)) > 1 for p, _ in before for k in p):
        ctx.count("tok_several_tokens_in_one_key")
    if any(len([k for k in p if TOK.search(k)]) > 1 for p, _ in before):
        ctx.count("tok_token_key_below_token_key")
    # what the result must be, computed here without the model: every string with all supplied tokens replaced at once
    def sub(s):
        return TOK.sub(lambda m: toks.get(m.group(1), m.group(0)), s)
    want = sorted((tuple(sub(k) for k in p), sub(v)) for p, v in before)
    # two sibling keys that become equal (user error: the dict merges) are outside the comparison
    prefixes = {p[:i + 1] for p, _ in before for i in range(len(p))}
    collide = len({tuple(sub(k) for k in q) for q in prefixes}) != len(prefixes)
    if collide:
        ctx.count("tok_keys_collide_after_substitution_not_compared")
        return True
    try:
        res, after, again, found = real_subst(case)
    except Exception as e:  # noqa
        ctx.fail("token-substitution-crash", dict(case, kind="tokens"), {"error": repr(e)})
        return False
    ok = True
    if found != sorted(present):
        ctx.fail("token-substitution-wrong", dict(case, kind="tokens"), {"what": "tokens found in the show", "found": found, "want": sorted(present)})
        ok = False
    elif res != want:
        ctx.fail("token-substitution-wrong", dict(case, kind="tokens"), {"what": "substituted steps", "got": res, "want": want})
        ok = False
    elif after != before:
        ctx.fail("token-substitution-wrong", dict(case, kind="tokens"), {"what": "the show's own steps were changed (shared by all plays)", "after": after, "before": before})
        ok = False
    elif again != res:
        ctx.fail("token-substitution-wrong", dict(case, kind="tokens"), {"what": "second play with the same tokens (step cache)", "got": again, "want": res})
        ok = False
    if model is not None:
        ans = model.ask(model_line(case))
        m = parse_answer(ans)
        if m is None:
            ok = ctx.compare(dict(case, kind="tokens"), res, ans) and ok
        else:
            ok = ctx.compare(dict(case, kind="tokens"), res, m[1]) and ok
            ok = ctx.compare(dict(case, kind="tokens", what="number of tokens left"), sum(len(TOK.findall(s)) for p, v in res for s in list(p) + [v]), m[0]) and ok
    return ok


CORPUS = [
    # fix 4ec5a75: a key with two tokens, a token key nested below another replaced key
    {"steps": [{"duration": 1, "p1": {"(a)(b)": {"(b)": "v(a)(b)", "x(a)": "(a)"}}}], "tokens": {"a": "1", "b": "2"}},
    {"steps": [{"duration": 1, "lights": {"(lt)": {"color": "(c)", "fade": "(a)ms"}}}, {"duration": -1, "events": {"s(a)v_(b)_0": "x"}}],
     "tokens": {"b": "B", "lt": "l1", "a": "250", "c": "ff0000"}},
    # no tokens supplied / a show without tokens / an unknown token
    {"steps": [{"duration": 1, "p1": {"(a)": "(b)"}}], "tokens": {}},
    {"steps": [{"duration": 1, "p1": {"k": "v", "()": "q)"}}], "tokens": {"a": "R"}},
    {"steps": [{"duration": 1, "p1": {"(a)": "x(b)y(a)"}}], "tokens": {"a": "R"}},
    # a token inside a list value (defect found in session 3c: KeyError, the show could not be played)
    {"steps": [{"duration": 1, "shows": {"child": {"events_when_played": ["child_(a)", "q"], "k": "(a)"}}}], "tokens": {"a": "R"}},
]
