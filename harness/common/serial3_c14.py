"""C14 extension (session 3, second job): model side MpfVerif.Model.Framing3.

(a) OPP input reports on the platform level: the real OppHardwarePlatform (own __init__, stub machine) with one or two
    chains; per chain the real OPPSerialCommunicator._identify_connection (incl. _read_id when no serial is configured)
    against a simulated card chain through a real asyncio.StreamReader under generated chunkings, the reply to the initial
    input read intact or damaged; then the real initialize() (handler swap), the real get_hw_switch_states(), then
    steady-state polls of both chains through _parse_msg under generated chunkings, interleaved.
(b) FAST NN: / ID: / config responses for numbers beyond the tables through the real FastNetNeuronCommunicator.
(c) PKONE connect phase: the real PKONESerialCommunicator._identify_connection against a simulated controller.
"""
import asyncio
import logging
import random
from types import SimpleNamespace

from harness.common import serial_c14 as S
from harness.common.shrink import ddmin
from harness.common.util import InfraError


# =============================================================================================== (a) OPP platform level
def bits_lsb(v, n):
    return "".join("1" if (v >> i) & 1 else "0" for i in range(n))


class _Noop:
    def __await__(self):
        return iter(())


def plat_boot(chains, chunk_seed, mangle):
    """chains: [{'serial': str|None, 'id': int, 'cards': [...]}]; mangle(ci, kind, reply) -> reply.
    Runs the real connect sequence chain after chain.  Returns (loop, platform, sc, comms, log) - the caller closes the loop."""
    from mpf.platforms.opp.opp_serial_communicator import OPPSerialCommunicator

    class Spy(OPPSerialCommunicator):
        def _parse_msg(self, msg):
            n = super()._parse_msg(msg)
            self.plog.append((bytes(msg), n))
            return n

    loop = S.VLoop()
    asyncio.set_event_loop(loop)
    p, sc = S.make_opp_platform(loop)
    rr = random.Random(chunk_seed)
    if chunk_seed == 0:
        chunker = lambda b: [b]
    elif chunk_seed == 1:
        chunker = lambda b: [bytes([x]) for x in b]
    else:
        chunker = lambda b: S.chunkings(rr, b, 1)[2] if len(b) > 1 else [b]
    comms = []
    log = []

    def spin():
        for _ in range(4):
            loop.run_until_complete(asyncio.sleep(0))
    for ci, ch in enumerate(chains):
        comm = Spy(p, "com%d" % (ci + 1), 115200, ch["serial"])
        comm.plog = []
        comm.reader = asyncio.StreamReader(limit=2 ** 16, loop=loop)
        w = S.FakeWriter()
        comm.writer = w
        task = loop.create_task(comm._identify_connection())
        seen = 0
        queue = []
        idle = 0
        for _ in range(6000):
            spin()
            if task.done():
                break
            while seen < len(w.log):
                m = w.log[seen]
                seen += 1
                if m[:2] == b"\x20\x00" and len(m) == 8:
                    body = bytes([0x20, 0]) + ch["id"].to_bytes(4, "big")
                    rep, kind = body + bytes([S.crc8_real(body)]) + b"\xff", "id"
                else:
                    rep = S.chain_reply(ch["cards"], m)
                    kind = "inp" if (len(m) > 2 and m[1] in (0x08, 0x19)) else "other"
                rep = mangle(ci, kind, rep)
                if rep:
                    queue.extend(chunker(rep))
            if queue:
                comm.reader.feed_data(queue.pop(0))
                idle = 0
            else:
                loop.vt += 0.015625
                idle += 1
                if idle > 12:
                    break
        res = {"done": task.done(), "err": None}
        if task.done():
            e = task.exception()
            res["err"] = (type(e).__name__ + ": " + str(e)[:80]) if e else None
        else:
            task.cancel()
            spin()
        res["serial"] = comm.chain_serial
        res["registered"] = comm.chain_serial in p.opp_connection
        res["reads"] = list(comm.plog)
        res["left"] = bytes(comm.reader._buffer) + b"".join(queue)
        res["cardlist"] = [(c.addr, c.is_matrix, mask_bits(c)) for c in p.opp_inputs if c.chain_serial == comm.chain_serial]
        comm.plog = []
        log.append(res)
        comms.append(comm)
        if not res["registered"]:
            break
    return loop, p, sc, comms, log


def plat_cards(p, serial):
    return [c for c in p.opp_inputs if c.chain_serial == serial]


def card_line(sc, c, hw):
    """one card as the model prints it: addr kind : old_state bits : MPF's state of the configured inputs"""
    n, base = (64, 32) if c.is_matrix else (32, 0)
    old = "none" if isinstance(c.old_state, list) else bits_lsb(c.old_state, n)
    sw = ""
    for i in range(n):
        if c.is_matrix or (c.mask >> i) & 1:
            num = "%s-%s-%d" % (c.chain_serial, c.card_num, base + i)
            v = sc.table.get(num, hw.get(num) if hw is not None else None)
            sw += "?" if v is None else str(v)
        else:
            sw += "-"
    return "%d%s:%s:%s" % (c.addr, "m" if c.is_matrix else "i", old, sw)


def mask_bits(c):
    if c.is_matrix:
        return "1" * 64
    return bits_lsb(c.mask, 32)


def gen_steady(r, cards, mode):
    """cards: [(is_matrix, addr)]; returns items [(bytes, meta)]"""
    from harness.corr.C14 import opp_frame
    items = []
    for _ in range(r.randint(2, 6)):
        for mtx, addr in cards:
            if r.random() < 0.85:
                n = 64 if mtx else 32
                v = r.getrandbits(n)
                if r.random() < 0.35:
                    v = (1 << n) - 1 - (1 << r.randrange(n))
                items.append((opp_frame(addr, "m" if mtx else "i", v), ("frame", mtx, addr, v)))
        if r.random() < 0.15:
            items.append((opp_frame(0x2f, "i", r.getrandbits(32)), ("unknown-card",)))
        items.append((b"\xff" * r.choice([1, 1, 2]), ("eom",)))
    if mode == "payload":
        idxs = [i for i, (_, m) in enumerate(items) if m[0] == "frame"]
        if idxs:
            i = r.choice(idxs)
            fb = bytearray(items[i][0])
            fb[r.randrange(2, len(fb))] ^= r.randrange(1, 256)
            items[i] = (bytes(fb), ("corrupt",) + items[i][1][1:])
    return items


def plat_run(case, chunk_seed):
    """the whole life of the platform for one case under one chunking; returns an observation dict"""
    chains = case["chains"]
    dmg = case["init_damage"]

    def mangle(ci, kind, rep):
        d = dmg.get(str(ci))
        if not d:
            return rep
        if kind == "id" and d[0] == "id":
            b = bytearray(rep)
            b[d[1] % len(b)] ^= d[2]
            return bytes(b)
        if kind == "inp" and d[0] == "flip":
            b = bytearray(rep)
            if len(b) > 1:
                b[d[1] % (len(b) - 1)] ^= d[2]
            return bytes(b)
        if kind == "inp" and d[0] == "del":
            return rep[:d[1] % len(rep)] + rep[d[1] % len(rep) + 1:]
        if kind == "inp" and d[0] == "ins":
            return rep[:d[1] % len(rep)] + bytes([d[2]]) + rep[d[1] % len(rep):]
        return rep
    loop, p, sc, comms, log = plat_boot(chains, chunk_seed, mangle)
    obs = {"boot": [], "chains": [], "events": {}, "escapes": [], "hw": None, "log": log}
    try:
        for ci, res in enumerate(log):
            obs["boot"].append({"done": res["done"], "err": res["err"], "registered": res["registered"],
                                "serial": res["serial"], "reads": [(a.hex(), n) for a, n in res["reads"]]})
        obs["after_init"] = {ci: [card_line(sc, c, None) for c in plat_cards(p, comms[ci].chain_serial)]
                             for ci in range(len(comms)) if comms[ci].chain_serial is not None}
        if not all(r["registered"] for r in log) or len(log) < len(chains):
            obs["stage"] = "connect-failed"
            obs["cards"] = {ci: [card_line(sc, c, None) for c in plat_cards(p, comms[ci].chain_serial)]
                            for ci in range(len(comms)) if comms[ci].chain_serial is not None}
            return obs
        p._connect_to_hardware = lambda: _Noop()
        loop.run_until_complete(p.initialize())
        logging.disable(logging.CRITICAL)
        try:
            hw = loop.run_until_complete(p.get_hw_switch_states())
        except TypeError as e:
            obs["stage"] = "hw-crash"
            obs["hw_err"] = str(e)[:80]
            return obs
        obs["hw"] = hw
        obs["after_hw"] = {ci: [card_line(sc, c, hw) for c in plat_cards(p, comms[ci].chain_serial)]
                           for ci in range(len(comms))}
        # steady state: what the reader had not consumed of the init replies comes first
        rr = random.Random(chunk_seed * 7919 + 13)
        streams = []
        for ci, comm in enumerate(comms):
            data = log[ci]["left"] + bytes.fromhex(case["steady"][ci])
            if chunk_seed == 0:
                chunks = [data] if data else []
            elif chunk_seed == 1:
                chunks = [bytes([b]) for b in data]
            else:
                chunks = S.chunkings(rr, data, 1)[2] if len(data) > 1 else ([data] if data else [])
            streams.append(list(chunks))
        order = []
        idx = [0] * len(streams)
        while any(idx[i] < len(streams[i]) for i in range(len(streams))):
            ci = rr.choice([i for i in range(len(streams)) if idx[i] < len(streams[i])])
            order.append((ci, streams[ci][idx[ci]]))
            idx[ci] += 1
        steps = []
        for ci, chunk in order:
            comm = comms[ci]
            e0 = len(sc.events)
            try:
                comm._parse_msg(chunk)
            except Exception as e:
                obs["escapes"].append("%s: %s" % (type(e).__name__, str(e)[:60]))
            evs = sc.events[e0:]
            steps.append((ci, chunk.hex(), S2_tokens(evs), p.bad_crc[comm.chain_serial], bytes(comm.part_msg).hex() or "-",
                          1 if comm._lost_synch else 0))
            obs["events"].setdefault(ci, []).extend(S2_tokens(evs))
        obs["steps"] = steps
        obs["stage"] = "ran"
        obs["final"] = {ci: [card_line(sc, c, hw) for c in plat_cards(p, comms[ci].chain_serial)]
                        for ci in range(len(comms))}
        obs["bad_crc"] = {ci: p.bad_crc[comms[ci].chain_serial] for ci in range(len(comms))}
        return obs
    finally:
        asyncio.set_event_loop(None)
        loop.close()


def S2_tokens(evs):
    out = []
    for num, st in evs:
        _, cardnum, idx = num.rsplit("-", 2)
        out.append("s%d.%s=%d" % (int(cardnum) + 0x20, idx, st))
    return out


def gen_plat_case(r):
    nch = r.choice([1, 1, 2])
    chains = []
    dmg = {}
    used = set()
    for ci in range(nch):
        cards = S.gen_chain(r)[:3]
        if r.random() < 0.6:      # make sure inputs are there
            cards[0]["wings"] = r.choice([[2, 2, 2, 2], [2, 4, 0x0a, 2], [1, 2, 0, 0], [4, 0x0a, 0, 0]])
        # the second chain may reuse card addresses of the first: the dictionaries are keyed by chain-address
        serial = None if (ci == 0 and r.random() < 0.4) else "com%d" % (ci + 1)
        sid = r.choice([0x12345, 1, 0xffffffff, 0xff, r.getrandbits(32)])
        while str(sid) in used:
            sid += 1
        used.add(str(sid))
        chains.append({"serial": serial, "id": sid, "cards": cards})
        k = r.random()
        if serial is None and k < 0.12:
            dmg[str(ci)] = ["id", r.randrange(8), r.randrange(1, 256)]
        elif k < 0.35:
            dmg[str(ci)] = ["flip", r.randrange(200), r.randrange(1, 256)]
        elif k < 0.42:
            dmg[str(ci)] = ["del", r.randrange(200), 0]
        elif k < 0.48:
            dmg[str(ci)] = ["ins", r.randrange(200), r.choice([0xff, 0x20, 0x08, 0x19, r.randrange(256)])]
    mode = r.choice(["valid", "valid", "payload", "payload", "garbage", "header"])
    return {"kind": "opp-plat", "chains": chains, "init_damage": dmg, "mode": mode, "steady": [], "meta": []}


def fill_steady(r, case):
    """steady-state streams need the card list MPF derived from the wings: taken from the generator's own reading"""
    out = []
    metas = []
    for ch in case["chains"]:
        inputs, _ = S.opp_init_expected(ch["cards"])
        cl = [(m, a) for a, m, _ in inputs]
        items = gen_steady(r, cl, case["mode"]) if cl else [(b"\xff", ("eom",))]
        data = b"".join(b for b, _ in items)
        if case["mode"] == "garbage" and data:
            pos = r.randrange(len(data) + 1)
            g = bytes(r.choice([r.randrange(256), 0x20, 0x08, 0x19, 0xff, 0x3f, 0x40]) for _ in range(r.randint(1, 14)))
            data = data[:pos] + g + data[pos:]
        elif case["mode"] == "header" and data:
            data, _ = S.corrupt(r, data, list(range(256)), r.randint(1, 3))
        out.append(data.hex())
        metas.append([[b.hex(), list(m)] for b, m in items])
    case["steady"] = out
    case["meta"] = metas


def expected_inputs(cards):
    """the generator's own reading of which cards have inputs: (addr, is_matrix, initial value)"""
    return S.opp_init_expected(cards)[0]


def plat_oracle(case, obs):
    """property clauses on one run; returns (signature, detail) or None"""
    if obs["escapes"]:
        return "opp-parser-crash", {"escapes": obs["escapes"][:3]}
    dmg = case["init_damage"]
    # initial reads: CRC-8 detects every single damaged byte, so after a one-byte flip in the reply a card holds either what
    # the board really sent or what it held before - never anything else (a wrong checksum never changes a state)
    for ci, lines in obs.get("after_init", {}).items():
        d = dmg.get(str(ci))
        if d is not None and d[0] not in ("flip", "id"):
            continue
        sent = {(m, a): v for a, m, v in expected_inputs(case["chains"][ci]["cards"])}
        for line in lines:
            head, old, _ = line.split(":")
            a, m = int(head[:-1]), head[-1] == "m"
            n = 64 if m else 32
            allowed = {"none" if m else "0" * 32, bits_lsb(sent.get((m, a), 0), n)}
            if d is None and obs["boot"][ci]["registered"]:
                allowed = {bits_lsb(sent.get((m, a), 0), n)}
            if old not in allowed:
                return "opp-plat-initial-read-wrong", {"chain": ci, "card": head, "old_state": old, "sent": sorted(allowed)}
    if obs.get("stage") != "ran":
        return None
    for ci, ch in enumerate(case["chains"]):
        # last valid report per card: the initial read (when it was not damaged) then the steady-state frames
        if case["mode"] not in ("valid", "payload"):
            continue
        last = {}
        if str(ci) not in dmg or dmg[str(ci)][0] == "id":
            for a, m, v in expected_inputs(ch["cards"]):
                last[(m, a)] = v
        for _, m in case["meta"][ci]:
            if m[0] == "frame":
                last[(bool(m[1]), m[2])] = m[3]
        for line in obs["final"][ci]:
            head, old, sw = line.split(":")
            a, m = int(head[:-1]), head[-1] == "m"
            if (m, a) not in last:
                continue
            n = 64 if m else 32
            want_old = bits_lsb(last[(m, a)], n)
            want_sw = "".join("-" if s == "-" else ("0" if o == "1" else "1") for o, s in zip(want_old, sw))
            if str(ci) in dmg and dmg[str(ci)][0] != "id":
                # the initial value was lost: MPF starts from its default; only inputs a valid report could tell apart count
                pass
            if old != want_old or sw != want_sw:
                return "opp-plat-last-report", {"chain": ci, "card": head, "old_state": old, "mpf": sw,
                                                "last_report": want_old}
    return None


def plat_case(ctx, r, model, case=None):
    if case is None:
        case = gen_plat_case(r)
        fill_steady(r, case)
    ctx.count("oppplat_cases")
    ctx.count("oppplat_chains", len(case["chains"]))
    ctx.count("oppplat_mode_" + case["mode"])
    for d in case["init_damage"].values():
        ctx.count("oppplat_initdamage_" + d[0])
    seeds = [0, 1, 2 + r.getrandbits(20)]
    runs = [plat_run(case, s) for s in seeds]
    base = runs[0]
    ctx.count("oppplat_stage_" + base["stage"])
    ctx.evaluated({k: case[k] for k in ("kind", "chains", "init_damage", "mode", "steady")},
                  len(case["chains"]) > 1 or bool(case["init_damage"]) or case["mode"] != "valid")
    small = {k: case[k] for k in ("kind", "chains", "init_damage", "mode", "steady", "meta")}
    # (1) the connect phase must not depend on how the replies were split
    for s, o in zip(seeds, runs):
        key = lambda ob: ([(b["done"], b["err"], b["registered"], b["serial"]) for b in ob["boot"]], ob["stage"])
        if key(o) != key(base):
            sig = "opp-read-id-chunking" if any(b["err"] and "index out of range" in b["err"] for b in o["boot"]) \
                else "opp-init-chunking"
            ctx.fail(sig, dict(small, chunk_seed=s), {"got": key(o), "one_chunk": key(base)})
            return
    # observations outside the property (counted, never failed on)
    for ci, b in enumerate(base["boot"]):
        if b["err"]:
            ctx.count("oppplat_connect_error_" + b["err"].split(":")[0])
        elif not b["done"]:
            ctx.count("observed_outside_property_init_read_waits_for_ever")
    if base["stage"] == "hw-crash":
        ctx.count("observed_outside_property_bad_crc_initial_matrix_read_counted_then_TypeError")
    if base["stage"] in ("ran", "hw-crash"):
        for ci, b in enumerate(base["boot"]):
            d = case["init_damage"].get(str(ci))
            if d and d[0] == "flip" and b["registered"]:
                ctx.count("observed_outside_property_bad_crc_initial_read_counted_as_card_read")
    # (2) property clauses per run; chunking independence of the whole life
    for s, o in zip(seeds, runs):
        bad = plat_oracle(case, o)
        if bad:
            ctx.fail(bad[0], dict(small, chunk_seed=s), bad[1])
            return
        if o["stage"] == "ran" and base["stage"] == "ran":
            if o["final"] != base["final"] or o["events"] != base["events"] or o["bad_crc"] != base["bad_crc"] or \
                    o["after_hw"] != base["after_hw"]:
                ctx.fail("opp-plat-chunking", dict(small, chunk_seed=s),
                         {"got": o["final"], "one_chunk": base["final"], "events": o["events"], "events_one": base["events"]})
                return
    # (3) a frame with a wrong CRC changes nothing: the same life without that frame
    if base["stage"] == "ran" and case["mode"] == "payload":
        st2 = []
        ncorrupt = 0
        for metas in case["meta"]:
            ncorrupt += sum(1 for _, m in metas if m[0] == "corrupt")
            st2.append("".join(h for h, m in metas if m[0] != "corrupt"))
        if ncorrupt:
            ref = plat_run(dict(case, steady=st2), 0)
            if ref["stage"] == "ran":
                tot = sum(base["bad_crc"].values()) - sum(ref["bad_crc"].values())
                if ref["final"] != base["final"] or ref["events"] != base["events"] or tot != ncorrupt:
                    ctx.fail("opp-bad-crc-accepted", small, {"with": base["final"], "without": ref["final"],
                                                             "bad_crc": base["bad_crc"]})
                    return
    # (4) model
    if model is not None:
        for s, o in zip(seeds, runs):
            if not plat_model(ctx, model, dict(small, chunk_seed=s), case, o):
                return


def plat_model(ctx, model, ccase, case, o):
    model.ask("oreset")
    # _read_id
    for ci, ch in enumerate(case["chains"]):
        if ch["serial"] is None and ci < len(o["boot"]):
            body = bytes([0x20, 0]) + ch["id"].to_bytes(4, "big")
            rep = body + bytes([S.crc8_real(body)]) + b"\xff"
            d = case["init_damage"].get(str(ci))
            if d and d[0] == "id":
                b = bytearray(rep)
                b[d[1] % len(b)] ^= d[2]
                rep = bytes(b)
            b = o["boot"][ci]
            impl = ("id " + str(b["serial"])) if b["serial"] is not None else \
                ("reject" if (b["err"] or "").startswith("AssertionError: Failed to read ID") else "other:" + str(b["err"]))
            if not ctx.compare(dict(ccase, what="_read_id chain %d" % ci), impl, model.ask("oppid " + rep.hex())):
                return False
    if o["stage"] == "connect-failed" and not any(b["reads"] for b in o["boot"]):
        return True
    for ci, b in enumerate(o["boot"]):
        model.ask("ochain")
        ch = case["chains"][ci]
        for (a, m, mask) in o["log"][ci]["cardlist"]:
            model.ask("ocard %d %d %s %s" % (ci, a, "m" if m else "i", mask))
        model.ask("oneed %d %d" % (ci, len(o["log"][ci]["cardlist"])))
        stream = b""
        for resp, n in b["reads"]:
            ans = model.ask("oinit %d %s" % (ci, resp))
            if not ctx.compare(dict(ccase, what="initial read %s chain %d" % (resp, ci)), "found=%d" % n, ans.split(" ")[0]):
                return False
        ans = model.ask("ostate %d" % ci)
        want_reg = "reg=%d" % (1 if b["registered"] else 0)
        if b["reads"] and not ctx.compare(dict(ccase, what="registered after the initial reads, chain %d" % ci), want_reg,
                                          [t for t in ans.split(" ") if t.startswith("reg=")][0]):
            return False
    if o["stage"] == "connect-failed":
        return True
    model.ask("oswap")
    ans = model.ask("ohw")
    if not ctx.compare(dict(ccase, what="get_hw_switch_states"), "crash" if o["stage"] == "hw-crash" else "ok", ans):
        return False
    if o["stage"] != "ran":
        return True
    for ci in range(len(case["chains"])):
        ans = model.ask("ostate %d" % ci).split(" ")
        if not ctx.compare(dict(ccase, what="cards after get_hw_switch_states, chain %d" % ci), o["after_hw"][ci],
                           [t for t in ans if ":" in t]):
            return False
    for ci, chunk, evs, crc, buf, lost in o["steps"]:
        ans = model.ask("oread %d %s" % (ci, chunk))
        impl = " ".join(evs + ["crc=%d" % crc, "buf=" + buf, "lost=%d" % lost])
        if not ctx.compare(dict(ccase, what="steady chunk %s chain %d" % (chunk, ci)), impl, ans):
            return False
    for ci in range(len(case["chains"])):
        ans = model.ask("ostate %d" % ci).split(" ")
        if not ctx.compare(dict(ccase, what="final cards, chain %d" % ci), o["final"][ci], [t for t in ans if ":" in t]):
            return False
    return True


def opp_msgu_case(ctx, r, model):
    """inventory / GET_GEN2_CFG / GET_VERS replies as _identify_connection hands them over (connection not registered yet),
    intact or with damage incl. the inventory reply, which carries no CRC"""
    cards = S.gen_chain(r)
    inv = b"\xf0" + bytes(c["addr"] for c in cards) + b"\xff"
    cfg = S.chain_reply(cards, b"".join(bytes([c["addr"], 0x0d, 0, 0, 0, 0, 0]) for c in cards) + b"\xff")
    ver = S.chain_reply(cards, b"".join(bytes([c["addr"], 0x02, 0, 0, 0, 0, 0]) for c in cards) + b"\xff")
    msgs = [bytearray(inv), bytearray(cfg), bytearray(ver)]
    which = r.choice([0, 0, 1, 2])
    mode = r.choice(["valid", "flip", "flip", "del", "ins"])
    m = msgs[which]
    if mode == "flip":
        pos = r.randrange(0, len(m) - 1)
        m[pos] ^= r.randrange(1, 256)
        if m[pos] == 0xff or (pos == 1 and m[pos] in (0x08, 0x19)):
            m[pos] = 0x41          # readuntil would have ended the reply there; initial input reads: plat_case
    elif mode == "del" and len(m) > 2:
        del m[r.randrange(0, len(m) - 1)]
    elif mode == "ins":
        m.insert(r.randrange(0, len(m)), r.choice([0x20, 0x21, 0x2f, 0x00, 0x41, 0xf0, 0x0d, 0x02]))
    msgs = [bytes(x) for x in msgs]
    case = {"kind": "opp-msgu", "cards": cards, "which": which, "mode": mode, "msgs": [x.hex() for x in msgs]}
    ctx.count("oppmsgu_" + mode)
    ctx.evaluated(case, mode != "valid")
    obs, p, boards = S.opp_msg_run(cards, msgs, registered=False)
    if any("crash:" in o for o in obs):
        ctx.fail("opp-init-message-crash", case, {"observations": obs})
        return
    if "keyerror" in obs:
        ctx.count("observed_outside_property_lost_synch_before_registration_KeyError")
    elif len(obs) < len(msgs):
        ctx.count("observed_outside_property_inventory_reply_not_recognised_KeyError")
    # a damaged inventory reply carries no checksum: what it lists is what MPF believes (counted, nothing to demand)
    if which == 0 and mode != "valid" and obs and obs[0].startswith("inv ") and \
            obs[0] != "inv " + ",".join(str(c["addr"]) for c in cards):
        ctx.count("observed_outside_property_damaged_inventory_believed")
    if model is not None:
        model.ask("oppinit reset")
        for m_, o in zip(msgs, obs):
            if not ctx.compare(dict(case, what="init message (unregistered) " + m_.hex()), o, model.ask("oppinitu 0 " + m_.hex())):
                return


# =============================================================================================== (b) FAST NN: / ID:
IO_LOOP = [("io3208", "FP-I/O-3208"), ("io0804", "FP-I/O-0804"), ("io1616", "FP-I/O-1616"), ("cab", "FP-I/O-0024")]


def make_fast_nn(nboards):
    from mpf.platforms.fast.communicators.net_neuron import FastNetNeuronCommunicator

    class Spy(FastNetNeuronCommunicator):
        __slots__ = ["toks"]

        def _dispatch_incoming_msg(self, msg):
            if isinstance(msg, str) and msg in self.IGNORED_MESSAGES:
                self.toks.append("ign")
                return super()._dispatch_incoming_msg(msg)
            hdr = msg[:3]
            self.done_waiting.clear()
            q0 = self.send_queue.qsize()
            try:
                super()._dispatch_incoming_msg(msg)
            except ValueError:
                self.toks.append("bad")
                raise
            except AssertionError:
                self.toks.append("assert")
                raise
            except Exception as e:
                self.toks.append("crash:" + type(e).__name__)
                raise
            if hdr not in self.message_processors:
                self.toks.append("unk")
            elif hdr == "ID:":
                self.toks.append("id")
            elif self.send_queue.qsize() > q0:
                self.toks.append(hdr[:2] + "w")
            else:
                self.toks.append(hdr[:2] + ("d" if self.done_waiting.is_set() else "n"))
            return None

    m, sc = S.stub_machine("fast", {})
    platform = SimpleNamespace(machine=m, debug=False, switches_initialized=False, hw_switch_data={},
                               new_switch_data=asyncio.Event(), io_boards={}, io_boards_by_name={}, machine_type="neuron",
                               log=logging.getLogger("x"))

    def reg(board):      # FastHardwarePlatform.register_io_board
        if board.node_id in platform.io_boards:
            raise AssertionError("Duplicate node_id")
        platform.io_boards[board.node_id] = board
        platform.io_boards_by_name[board.name] = board
    platform.register_io_board = reg
    io = {name: {"model": model, "order": i + 1} for i, (name, model) in enumerate(IO_LOOP[:nboards])}
    comm = Spy(platform, "net", {"debug": False, "port": ["x"], "baud": 1, "io_loop": io, "watchdog": None})
    logging.disable(logging.CRITICAL)
    comm.ignore_decode_errors = False
    comm.create_switches()
    comm.create_drivers()
    comm.toks = []
    return comm, sc, platform


def boards_str(platform):
    bs = platform.io_boards
    return ",".join("%d:%d/%d@%d/%d" % (b.node_id, b.switch_count, b.driver_count, b.start_switch, b.start_driver)
                    for b in bs.values()) or "-"


def fnn_run(nboards, chunks):
    comm, sc, platform = make_fast_nn(nboards)
    escapes = []
    per_chunk = []
    for c in chunks:
        n0 = len(comm.toks)
        data = c
        for _ in range(len(c) + 3):
            try:
                comm.parse_incoming_raw_bytes(data)
                break
            except UnicodeDecodeError:
                comm.toks.append("und")
                escapes.append("und")
            except AssertionError:
                pass                                          # model / firmware mismatch, CH:F: deliberate stops
            except Exception as e:
                escapes.append("crash:" + type(e).__name__ + ": " + str(e)[:60])
            data = b""
        else:
            raise InfraError("FAST parser does not drain")
        per_chunk.append((comm.toks[n0:], bytes(comm.received_msg), boards_str(platform)))
    return comm, platform, escapes, per_chunk


def nn_frame(r, node, nboards):
    model = IO_LOOP[node % len(IO_LOOP)][1]
    sw, dr = r.choice([(0x20, 8), (8, 4), (0x10, 0x10), (0x18, 8), (0, 0), (0xff, 0xff)])
    rev = r.choice(["-3   ", "-3", "", "-2\x00\x00", "-3 "])
    fw = r.choice(["01.10", "01.10", "1.09", "01.08", "1.9", "2", "v1.10", "1.10.0", "0.99"])
    return "NN:%02X,%s%s,%s,%02X,%02X,00,00,00,00,00,00" % (node, model, rev, fw, dr, sw)


def gen_fnn_frames(r, nboards):
    frames = []
    order = list(range(nboards))
    k = r.random()
    if k < 0.2:
        r.shuffle(order)
    elif k < 0.3:
        order = order + [r.randrange(nboards + 2)]
    for node in order:
        j = r.random()
        if j < 0.7:
            frames.append((nn_frame(r, node, nboards), "nn"))
        elif j < 0.78:
            frames.append(("NN:%02X,!Node Not Found!,00.00,00,00,00,00,00,00,00,00" % node, "nn-notfound"))
        elif j < 0.84:
            frames.append(("NN:F", "nn-f"))
        elif j < 0.9:
            frames.append((nn_frame(r, node, nboards), "nn"))
            frames.append((nn_frame(r, node, nboards), "nn-again"))
        else:
            frames.append((r.choice([
                "NN:", "NN:00", "NN:0G,FP-I/O-3208-3,01.10,08,20,00,00,00,00,00,00", "NN:00,FP-I/O-3208-3,01.10,08,20,00,00,00,00,00",
                "NN:00,FP-I/O-3208-3,01.10,08,20,00,00,00,00,00,00,00", "NN:00,FP-I/O-3208-3,01.10,0G,20,00,00,00,00,00,00",
                "NN:00,FP-I/O-3208-3,01.10,08,,00,00,00,00,00,00", "NN:00,FP-I/O-3208-3,zz,08,20,00,00,00,00,00,00",
                "NN:00,FP-I/O-3208-3,1..1,08,20,00,00,00,00,00,00", "NN:00,,01.10,08,20,00,00,00,00,00,00",
                "NN:%02X,FP-I/O-3208-3,01.10,08,20,00,00,00,00,00,00" % (nboards + r.randrange(3)),
                "NN:01,FP-I/O-3208-3,01.10,08,20,00,00,00,00,00,00", "NN:FFF,FP-I/O-3208-3,01.10,08,20,00,00,00,00,00,00",
                "NN:00,FP-I/O-3208-3,01.10,08,20,00,00,00,00,00,00NN:01,FP-I/O-0804-3,01.10,04,08,00,00,00,00,00,00",
            ]), "malformed"))
        if r.random() < 0.25:
            frames.append((r.choice([
                "ID:NET FP-CPU-2000  02.13", "ID:NET FP-CPU-2000 2.06", "ID:NET FP-CPU-2000 v2", "ID:NET FP-CPU-2000 2.", "ID:NET FP-CPU-2000 .2",
                "ID:NET FP-CPU-2000 2..1", "ID:NET FP-CPU-2000 02.13.7", "ID:NET FP-CPU-2000 V1", "ID:NET FP-CPU-2000 v", "ID:NET FP-CPU-2000 2,1",
                "ID:NET FP-CPU-2000", "ID:EXP FP-EXP-0201 0.11", "WD:P", "CH:P", "SL:68,00,00,00", "SL:FF,01,02,03", "DL:30" + ",00" * 8,
                "DL:FF,81,00,10,0A,FF,00,00,00", "SL:67,00,00,00", "DL:2F" + ",00" * 8]), "other"))
    return frames


FNN_NOISE = [ord(c) for c in "0123456789FG,:N.IO/"] + [13]      # no blank, sign, underscore, 'x', no letter of a/b/c/rc/post/dev/v


def fnn_sig(escapes):
    for e in escapes:
        if e.startswith("crash"):
            return "fast-config-response-raises:" + e.split(":")[1]
    return "fast-undecodable-frame-raises" if escapes else None


def fnn_case(ctx, r, model, frames=None, ncorr=None, nboards=None):
    nboards = nboards if nboards is not None else r.choice([1, 2, 4, 4])
    frames = frames if frames is not None else gen_fnn_frames(r, nboards)
    data = b"".join(f.encode("latin-1") + b"\r" for f, _ in frames)
    k = ncorr if ncorr is not None else r.choice([0, 0, 1, 1, 2])
    clog = []
    if k:
        data, clog = S.corrupt(r, data, FNN_NOISE + (S.HIGH_NOISE if r.random() < 0.08 else []), k)
    if not data:
        return
    case = {"kind": "fast-nn", "nboards": nboards, "data": data.hex(), "corruptions": clog}
    ctx.count("fnn_streams")
    for _, kd in frames:
        ctx.count("fnn_" + kd)
    ctx.evaluated(case, True)
    results = [(chunks,) + fnn_run(nboards, chunks) for chunks in S.chunkings(r, data)]
    base = results[0]
    failed = False
    for chunks, comm, platform, escapes, per_chunk in results:
        sig = fnn_sig(escapes)
        if sig and not failed:
            failed = True
            small = data
            if sig != "fast-undecodable-frame-raises":
                parts = [x + b"\r" for x in data.split(b"\r")[:-1]]
                keep = ddmin(parts, lambda ps: fnn_sig(fnn_run(nboards, [b"".join(ps)])[2]) == sig)
                small = b"".join(keep)
            ctx.fail(sig, dict(case, chunks=[c.hex() for c in chunks], shrunk=small.hex()),
                     {"escapes": escapes[:3], "decoded": comm.toks[:12]})
        if comm.toks != base[1].toks or bytes(comm.received_msg) != bytes(base[1].received_msg) or \
                boards_str(platform) != boards_str(base[2]):
            ctx.fail("fast-config-chunking", dict(case, chunks=[c.hex() for c in chunks]),
                     {"got": comm.toks, "one_chunk": base[1].toks})
            return
    for t in base[1].toks:
        if t in ("SLn", "DLn"):
            ctx.count("observed_outside_property_config_response_beyond_table_waiter_not_released")
    if not failed and not clog:
        # valid node responses in loop order register every board with the running totals as start numbers
        if all(kd == "nn" for _, kd in frames) and [int(f[3:5], 16) for f, _ in frames] == list(range(nboards)):
            want, ps, pd = [], 0, 0
            for f, _ in frames:
                fl = f[3:].split(",")
                want.append("%d:%d/%d@%d/%d" % (int(fl[0], 16), int(fl[4], 16), int(fl[3], 16), ps, pd))
                ps += int(fl[4], 16)
                pd += int(fl[3], 16)
            if boards_str(base[2]) != ",".join(want):
                ctx.fail("fast-nn-boards-not-registered", case, {"got": boards_str(base[2]), "want": ",".join(want)})
                return
    if model is not None and not failed:
        for chunks, comm, platform, escapes, per_chunk in results[:3]:
            model.ask("nninit")
            for name, mdl in IO_LOOP[:nboards]:
                model.ask("nnloop " + mdl.encode().hex())
            for c, (ptoks, buf, boards) in zip(chunks, per_chunk):
                ans = model.ask("fcfg3 " + c.hex())
                impl = " ".join(ptoks + ["buf=" + (buf.hex() or "-"), "boards=" + boards])
                if not ctx.compare(dict(case, chunks=[x.hex() for x in chunks], what="fast-nn chunk " + c.hex()), impl, ans):
                    return


def fnn_replay(ctx, case):
    data = bytes.fromhex(case.get("shrunk") or case["data"])
    for chunks in ([data], [bytes.fromhex(c) for c in case.get("chunks", [])] or [data]):
        comm, platform, escapes, _ = fnn_run(case["nboards"], chunks)
        s = fnn_sig(escapes)
        if s:
            ctx.fail(s, case, {"escapes": escapes[:3], "decoded": comm.toks[:12]})
            return


# =============================================================================================== (c) PKONE connect phase
def pkc_run(replies, chunk_seed):
    """the real PKONESerialCommunicator._identify_connection against a simulated controller.
    replies: {command: [reply bytes, ...]} consumed in order per command ('' = no answer: time-out)"""
    from mpf.platforms.pkone.pkone import PKONEHardwarePlatform
    from mpf.platforms.pkone.pkone_serial_communicator import PKONESerialCommunicator

    class Spy(PKONESerialCommunicator):
        async def _read_with_timeout(self, timeout):
            r = await super()._read_with_timeout(timeout)
            self.rlog.append(r)
            return r

    loop = S.VLoop()
    try:
        asyncio.set_event_loop(loop)
        m, sc = S.stub_machine("pkone", S.PKCFG, loop)
        m.variables = SimpleNamespace(set_machine_var=lambda *a, **k: None)
        p = PKONEHardwarePlatform(m)
        logging.disable(logging.CRITICAL)
        comm = Spy(p, "com", 1)
        comm.rlog = []
        comm.reader = asyncio.StreamReader(limit=2 ** 16, loop=loop)
        w = S.FakeWriter()
        comm.writer = w
        rr = random.Random(chunk_seed)
        if chunk_seed == 0:
            chunker = lambda b: [b]
        elif chunk_seed == 1:
            chunker = lambda b: [bytes([x]) for x in b]
        else:
            chunker = lambda b: S.chunkings(rr, b, 1)[2] if len(b) > 1 else [b]
        pending = {k: list(v) for k, v in replies.items()}
        task = loop.create_task(comm._identify_connection())
        seen = 0
        queue = []
        asked = []

        def spin():
            for _ in range(4):
                loop.run_until_complete(asyncio.sleep(0))
        for _ in range(4000):
            spin()
            if task.done():
                break
            while seen < len(w.log):
                cmd = w.log[seen].decode("latin-1")
                seen += 1
                asked.append(cmd)
                lst = pending.get(cmd)
                rep = bytes.fromhex(lst.pop(0)) if lst else b""
                if rep:
                    queue.extend(chunker(rep))
            if queue:
                comm.reader.feed_data(queue.pop(0))
            else:
                loop.vt += 0.0625
                if len(asked) > 40 or loop.vt > 30:
                    break
        res = {"done": task.done(), "err": None}
        if task.done():
            e = task.exception()
            res["err"] = (type(e).__name__ + ": " + str(e)[:70]) if e else None
        else:
            task.cancel()
            spin()
        asked.extend(x.decode("latin-1") for x in w.log[seen:])     # written just before the task ended
        res["asked"] = asked
        res["reads"] = list(comm.rlog)
        res["fw"] = comm.remote_firmware
        res["hw"] = comm.remote_hardware_rev
        res["ext"] = sorted((a, b.firmware_version, b.hardware_rev) for a, b in p.pkone_extensions.items())
        res["light"] = sorted((a, b.firmware_version, b.hardware_rev, b.rgbw_firmware) for a, b in p.pkone_lightshows.items())
        res["hwdata"] = S.pk2_hw(p)
        res["connected"] = p.controller_connection is comm
        return res
    finally:
        asyncio.set_event_loop(None)
        loop.close()


def gen_pkc(r):
    rep = {}
    fw = r.choice(["11"] * 14 + ["10", "10", "105", "9", "09", "00", "2"])
    k = r.random()
    if k < 0.75:
        rep["PCNE"] = [("PCNF%sH%dE" % (fw, r.randint(1, 3))).encode().hex()]
    elif k < 0.85:
        rep["PCNE"] = ["", ("PCNF%sH1E" % fw).encode().hex()]           # the first request is not answered
    else:
        rep["PCNE"] = [r.choice([b"PCNE", b"PCNF11E", b"PCNFH1E", b"PCNF11H1XE", b"PXXE", b"PCN11H1E", b"PWDE"]).hex(),
                       b"PCNF11H1E".hex()]
    rep["PRSE"] = [r.choice([b"PRSE", b"PRSE", b"PWDEPRSE", b"PXX03E", b"PSW0011EPRSE"]).hex()]
    boards = {}
    for a in range(8):
        j = r.random()
        if j < 0.55:
            m = "PCB%dNE" % a
        elif j < 0.8:
            m = "PCB%dXF%sH%d%sE" % (a, r.choice(["11"] * 14 + ["10", "10", "123", "9", "09"]), r.randint(1, 3), r.choice(["PY", "PN", ""]))
            boards[a] = "x"
        elif j < 0.95 and (a < 4 or r.random() < 0.1):
            m = "PCB%dLF%sH%d%sE" % (a, r.choice(["10"] * 10 + ["11", "11", "1"]), r.randint(1, 2), r.choice(["RGB", "RGBW", "", "PYRGBW"]))
        elif j < 0.95:
            m = "PCB%dNE" % a
        else:
            m = r.choice(["", "PCB%dE" % a, "PCB%dNF10H1E" % a, "PCB%dXF11H2PZE" % a, "PCB%dXFH2E" % a, "PCB8XF11H2E",
                          "PCB%dXF11H2RGBWPYE" % a, "PCB%dNE" % ((a + 1) % 8), "PWDE", "PCB%dXF11H2 E" % a,
                          "PCB%dXF11H2PYRGBE" % a, "PCB%dLF10H1RGBWE" % ((a + 2) % 8)])
        rep["PCB%dE" % a] = [m.encode().hex()]
    for a in range(8):
        bits = "".join(r.choice("01") for _ in range(35))
        rep["PSA%dE" % a] = [r.choice([("PSA%d%sE" % (a, bits)).encode(), ("PWDEPSA%d%sE" % (a, bits)).encode(),
                                       ("PSW%d011EPSA%d%sE" % (a, a, bits)).encode()]).hex()]
    return rep


PKC_NOISE = [ord(c) for c in "0123456789PCNBXLFHYRGWE"]


def pkc_case(ctx, r, model, replies=None):
    replies = replies if replies is not None else gen_pkc(r)
    clog = []
    if r.random() < 0.3:
        key = r.choice([k for k in replies if replies[k] and replies[k][-1]])
        data, clog = S.corrupt(r, bytes.fromhex(replies[key][-1]), PKC_NOISE + (S.HIGH_NOISE if r.random() < 0.1 else []), 1)
        replies = dict(replies)
        replies[key] = replies[key][:-1] + [data.hex()]
    case = {"kind": "pkone-connect", "replies": replies, "corruptions": clog}
    ctx.count("pkc_cases")
    seeds = [0, 1, 2 + r.getrandbits(20)]
    runs = [pkc_run(replies, s) for s in seeds]
    base = runs[0]
    ctx.evaluated(case, bool(clog) or base["err"] is not None or len(base["ext"]) + len(base["light"]) >= 2)
    ctx.count("pkc_outcome_" + ("connected" if base["connected"] else (base["err"] or "hangs").split(":")[0]))
    for s, o in zip(seeds, runs):
        if o != base:
            ctx.fail("pkone-connect-chunking", dict(case, chunk_seed=s),
                     {"got": {k: o[k] for k in ("err", "ext", "light", "hwdata", "connected")},
                      "one_chunk": {k: base[k] for k in ("err", "ext", "light", "hwdata", "connected")}})
            return
    if base["err"] and base["err"].startswith("AttributeError: 'NoneType'"):
        ctx.count("observed_outside_property_pkone_unexpected_board_reply_AttributeError")
    # a reply with a byte that is not UTF-8 ends the connect phase inside _read_with_timeout (msg_raw.decode()) before the
    # reply is handed on: start-up stops, as it does for any other garbled reply; that read is not in `reads`, so none of the
    # logged replies is the one the phase ended on
    undecodable = bool(base["err"]) and base["err"].startswith("UnicodeDecodeError")
    if undecodable:
        ctx.count("observed_outside_property_pkone_connect_reply_not_utf8_UnicodeDecodeError")
    if model is not None:
        # every reply the connect phase took, in order: PCN replies, then one per PCB query
        reads = list(base["reads"])
        asked = [a for a in base["asked"] if a.startswith(("PCN", "PCB"))]
        for i, (a, msg) in enumerate(zip(asked, reads)):
            is_last = i == len(reads) - 1 and not undecodable
            if a.startswith("PCN"):
                ans = model.ask("pkcn " + (msg.encode("latin-1").hex() or "-"))
            else:
                ans = model.ask("pkcb %s %s" % (a[3], msg.encode("latin-1").hex() or "-"))
            addr = int(a[3]) if a.startswith("PCB") else None
            if ans.startswith("ext "):
                impl = "ext " + " ".join(next(([e[1].replace(".", ""), e[2]] for e in base["ext"] if e[0] == addr), ["?"]))
            elif ans.startswith("light "):
                impl = "light " + " ".join(next(([e[1].replace(".", ""), e[2], "rgbw" if e[3] else "rgb"]
                                                 for e in base["light"] if e[0] == addr), ["?"]))
            elif ans.startswith("ctrl "):
                impl = "ctrl %s %s" % ((base["fw"] or "?").replace(".", ""), base["hw"])
            elif ans in ("assert", "attr", "value"):
                want = {"assert": "AssertionError", "attr": "AttributeError", "value": "InvalidVersion"}[ans]
                impl = ans if (base["err"] or "").startswith(want) and is_last else "continued:" + str(base["err"])
            elif ans == "none":
                impl = "none" if addr not in [e[0] for e in base["ext"] + base["light"]] else "registered"
            elif ans == "retry":
                impl = "retry" if not is_last or base["err"] is None or not base["done"] else "stopped"
            else:
                impl = "?"
            if not ctx.compare(dict(case, what="connect reply %r to %s" % (msg, a)), impl, ans):
                return


def pkc_replay(ctx, case):
    runs = [pkc_run(case["replies"], s) for s in [0, 1] + ([case["chunk_seed"]] if "chunk_seed" in case else [])]
    for o in runs[1:]:
        if o != runs[0]:
            ctx.fail("pkone-connect-chunking", case, {"got": o["err"], "one_chunk": runs[0]["err"]})
            return


def plat_replay(ctx, case):
    seeds = [0, 1] + ([case["chunk_seed"]] if "chunk_seed" in case else [])
    runs = [plat_run(case, s) for s in seeds]
    base = runs[0]
    key = lambda ob: ([(b["done"], b["err"], b["registered"], b["serial"]) for b in ob["boot"]], ob["stage"])
    for s, o in zip(seeds, runs):
        if key(o) != key(base):
            sig = "opp-read-id-chunking" if any(b["err"] and "index out of range" in b["err"] for b in o["boot"]) \
                else "opp-init-chunking"
            ctx.fail(sig, case, {"got": key(o), "one_chunk": key(base)})
            return
        bad = plat_oracle(case, o)
        if bad:
            ctx.fail(bad[0], case, bad[1])
            return
        if o["stage"] == "ran" and base["stage"] == "ran" and (o["final"] != base["final"] or o["events"] != base["events"]):
            ctx.fail("opp-plat-chunking", case, {"got": o["final"], "one_chunk": base["final"]})
            return
