"""Run a property's case range in fresh worker processes (used by C20 / C11 in the thorough tier and in search mode).

A stopped MPF machine leaves ~0.4 MB of garbage that the collector does not get back, so thousands of cases in one
process become slow; every chunk of cases gets its own process (and its own Lean driver) instead.
`mod.run_range(ctx, lo, hi)` must run cases lo..hi-1, deriving everything from ctx.rng("case", i).
"""
import importlib
import multiprocessing


def _work(a):
    mod_name, pid, tier, seed, factor, search, model_unavailable, lo, hi = a
    from harness.main import Ctx
    mod = importlib.import_module(mod_name)
    ctx = Ctx(pid, tier, seed, factor, search)
    if model_unavailable:
        ctx.model_unavailable = True
    mod.run_range(ctx, lo, hi)
    return {"evaluations": ctx.evaluations, "nontrivial": list(ctx.nontrivial), "samples": ctx.samples, "hist": ctx.hist,
            "failures": ctx.failures, "disagreements": ctx.disagreements[:5], "n_disagreements": len(ctx.disagreements),
            "validated": ctx.validated, "checked": ctx.disagreements_checked}


def run_parallel(ctx, mod_name, total, chunk=300, workers=8):
    jobs = [(mod_name, ctx.id, ctx.tier, ctx.seed, ctx.factor, ctx.search, bool(getattr(ctx, "model_unavailable", False)),
             lo, min(lo + chunk, total)) for lo in range(0, total, chunk)]
    with multiprocessing.get_context("fork").Pool(min(workers, len(jobs)), maxtasksperchild=1) as pool:
        for res in pool.imap(_work, jobs):
            ctx.evaluations += res["evaluations"]
            ctx.nontrivial |= set(res["nontrivial"])
            for s in res["samples"]:
                if len(ctx.samples) < 6:
                    ctx.samples.append(s)
            for k, v in res["hist"].items():
                ctx.count(k, v)
            seen = {f["signature"] for f in ctx.failures}
            ctx.failures += [f for f in res["failures"] if f["signature"] not in seen]
            ctx.disagreements += res["disagreements"]
            ctx.validated += res["validated"]
            ctx.disagreements_checked += res["checked"]
            if len(ctx.failures) >= 3:
                pool.terminate()
                break


class CaseTimeout(BaseException):
    """a case ran longer than its budget (raised from SIGALRM inside the running code)"""


class watchdog:
    """with watchdog(20): ...   raises CaseTimeout in the main thread after that many wall seconds (no hang, ever)"""

    def __init__(self, seconds):
        self.seconds = seconds

    def __enter__(self):
        import signal

        def on_alarm(signum, frame):
            raise CaseTimeout("case exceeded %s s" % self.seconds)
        self.old = signal.signal(signal.SIGALRM, on_alarm)
        signal.setitimer(signal.ITIMER_REAL, self.seconds)
        return self

    def __exit__(self, *a):
        import signal
        signal.setitimer(signal.ITIMER_REAL, 0)
        signal.signal(signal.SIGALRM, self.old)
        return False
