"""C05 - ball requests make progress: no lost or stuck ejects (partial proof: ledger protocol + refinement monitor).

Same machinery as C04 (harness/common/ballworld.py: physical-world simulator around the REAL ball devices, ledger monitor
in Lean); this module owns the *progress* oracle: after the simulated world has stopped changing and virtual time has
been advanced past every configured timeout, every device is idle (or reported broken), no eject is queued, no
servable request is queued, every chain MPF planned to the playfield physically delivered a ball, every failed eject
was retried with the next attempt number / reported lost / reported broken exactly once, and the case came to rest.
"""
from harness.common import gameworld_c05 as gw, leanproc
from harness.common.shrink import ddmin
from harness.corr import C04

ID = "C05"
LEAN_MODULES = ["MpfVerif.Props.C05"]
PROPS_FILE = "MpfVerif/Props/C05.lean"
GEN = []
MANIFEST = {
    "text": "PARTIAL proof. Proved in Lean about the eject loop of the ball ledger (Model/BallLedger.lean, shared with C04): a failed eject that is accepted as retryable carries attempt number tries+1, is only possible while attempts remain and excludes the broken report; the following attempt is only accepted with exactly that number; broken is enabled only at tries+1 = max_eject_attempts > 0, at most once, and a broken device takes no further eject-loop transition (no silent retry); ball_left can always time out (no stuck phase); a work measure (queued ejects, remaining attempts, phase) strictly decreases on every step inside an attempt and on every retryable failure when max_eject_attempts > 0, so an eject cannot loop for ever. Session 3 (mechanical / player-controlled ejects): a manual eject with no request pending is ADOPTED, not lost (manual_eject_adopted: the claim moves from the device to the target, the sum of available_balls is unchanged, an eject towards the target is tracked and the ball registered as incoming there, belief ledger untouched); its confirm window can always close (manual_eject_can_time_out); when the plunged ball comes back the request is kept with the same target, attempt 0, and the eject loop's waitTarget is enabled at once (manual_return_is_retried). Round 10 (game-level requests: ball start, ball save with eject_delay, multiball start / add-a-ball / shoot again; Model/BallPromise.lean): for every history of announcements, saves and delay expiries promised + over = requested + pending (promises_requested_or_pending: every ball announced to the player has been requested from the playfield or sits in a delayed _add_balls call that is still pending; over = balls a multiball asks for beyond a clamped balls_in_play), with nothing pending promised <= requested (all_delays_fired_all_requested), a pending delayed eject can always fire and requests exactly its balls (pending_save_can_fire), letting all pending delays fire is a run of the model that ends with nothing pending (pending_saves_drain); named_delay_loses_save_witness: a NAMED delay would drop a save announced inside the eject_delay window of another. Tied to the real BallSave / Multiball / Game / Playfield.add_ball by feeding every observed announcement, _schedule_balls / delayed _add_balls call and delivery to the model and comparing promised / requested / pending (read from the ball save's DelayManager) / delivered after every step; the functions are source-pinned. NOT proved: liveness of the real asyncio coroutines. That is explored on every run: the real devices run inside a physical-world simulator through failure sequences up to max_eject_attempts+2 (stuck, fall-back, late, astray), overlapping requests, drains and lock shots; the ledger monitor must accept every observed step, and the quiescence oracle checks that all devices come to rest idle or broken-and-reported with no servable request left and every planned ball physically delivered.",
    "note": "Outside the model (named runtime behaviour): asyncio task interleaving and timer expiry inside the coroutines, switch debounce, fairness of the event loop, ball search; of ball_save: active_time / hurry-up / grace timers, delayed_eject_events, ball_locks as sources, only_last_ball; of multiball: ball_locks, replace_balls_in_play, the shoot-again timers; in the game world every physical eject succeeds (eject failures are generated in the ball-device streams, where requests enter through playfield.add_ball). Trusted: Lean kernel + standard axioms; the hand-written ledger; harness/common/ballworld.py.",
    "technique": "Lean theorems on a hand-written protocol model (guards, exclusion, strictly decreasing measure) and on a promise ledger of the game-level requests (invariant by induction over all histories) + runtime refinement monitor and quiescence oracle on the real devices, real game, ball save and multiball",
    "translated": False,
}
RULE = C04.RULE + "; C05 (stream 1): half of the cases put a failure sequence of 1-5 outcomes in front of one device's outcome list " \
    "and issue 1-5 overlapping requests; game stream (round 10): a real game (1-2 balls per game, 3-5 balls) with a real ball_save " \
    "(balls_to_save 1 / 2 / -1, eject_delay 0 / 1 / 2 / 3 s, auto_launch yes / no) and a real multiball (ball_count 1-2, add / total, " \
    "shoot_again 0 / 10 / 30 s) on trough -> plunger -> playfield: 7 directed two-drain cases + random walks over start / mb_start / " \
    "mb_add / mb_stop / save_on / save_early / save_off / drain / wait / rest, every second one built around 'two balls in play, ball " \
    "save on, two or three drains a generated gap apart' with the gap biased into the eject_delay window and onto its edges; a case is " \
    "non-trivial when at least two balls were promised and one was delivered"
TRUSTED = C04.TRUSTED + ["modelled, not verified: BallSave._schedule_balls / _add_balls, Multiball.start / add_a_ball / "
                        "_ball_drain_shoot_again and Game.ball_started are tied to Model/BallPromise.lean by the differential run "
                        "(every observed step compared) and by source pins, not by a translator; harness/common/gameworld_c05.py"]
ASSUMPTIONS = C04.ASSUMPTIONS + ["weak fairness of the environment: the simulated world always completes a transit; a ball "
                                 "that falls back does so within eject_timeout",
                                 "game stream: every delay of the ball save fires (C13); drains happen 1/128 s off MPF's grid and "
                                 "never while the trough's own eject is under way (known ambiguity misattributed:entry-during-own-eject)"]


GW_TIMING = {"leave": gw.GRID, "transit": 4 * gw.GRID}


def gen_game_case(r, i):
    """a real game with a ball save and a multiball; half of the cases are built around the skeleton `two balls in play, ball
    save on, two drains a generated gap apart` (gap biased to fall inside the eject_delay window), the rest are random walks"""
    delay = r.choice([0, 1000, 2000, 3000, 3000])
    count = r.choice([1, 1, 2])
    case = {"kind": "game", "balls": r.choice([3, 4, 5]), "bpg": r.choice([1, 1, 2]),
            "save": {"n": r.choice([1, 2, 2, -1, -1]), "delay": delay, "auto": r.random() < 0.7},
            "mb": {"count": count, "type": "total" if count == 2 and r.random() < 0.4 else "add",
                   "shoot": r.choice([0, 0, 10000, 30000])},
            "timing": dict(GW_TIMING, transit=r.choice([2, 4, 6]) * gw.GRID)}
    window = max(1, delay * 16 // 1000)

    def gap():
        x = r.random()
        if x < 0.5:
            return r.randint(1, window)                 # inside the eject_delay window
        if x < 0.7:
            return r.choice([window - 1, window, window + 1, window + 2]) if window > 1 else r.randint(1, 3)
        return r.randint(window + 1, window + 80)
    ops = [["start"], ["wait", r.randint(40, 100)]]
    if i % 2 == 0:
        ops += [[r.choice(["mb_start", "mb_start", "mb_add"])], ["wait", r.randint(100, 200)], ["save_on"], ["drain"],
                ["wait", gap()], ["drain"]]
        if r.random() < 0.4:
            ops += [["wait", gap()], ["drain"]]
    pool = ["drain"] * 5 + ["wait"] * 5 + ["mb_start"] * 2 + ["mb_add"] * 2 + ["save_on"] * 3 + ["save_early", "save_off", "mb_stop",
                                                                                             "rest", "rest", "start"]
    for _ in range(r.randint(2, 12)):
        k = r.choice(pool)
        ops.append(["wait", gap()] if k == "wait" else [k])
    ops.append(["rest"])
    case["ops"] = ops
    return case


def seeded_window_case(delay, n, gap):
    """directed: two balls in play, ball save with eject_delay, both balls drain `gap` ticks apart"""
    return {"kind": "game", "balls": 4, "bpg": 1, "save": {"n": n, "delay": delay, "auto": True},
            "mb": {"count": 1, "type": "add", "shoot": 0}, "timing": dict(GW_TIMING),
            "ops": [["start"], ["wait", 80], ["mb_start"], ["wait", 160], ["save_on"], ["drain"], ["wait", gap], ["drain"], ["rest"]]}


def shrink_game(case, sig):
    def fails(ops):
        return any(f[0] == sig for f in gw.run_case(dict(case, ops=ops), None).failures)
    try:
        return dict(case, ops=ddmin(case["ops"], fails, max_tests=60))
    except Exception:
        return case


def eval_game_case(ctx, case, model):
    res = gw.run_case(case, model)
    ctx.evaluated(case, res.nontrivial)
    for k, v in res.hist.items():
        ctx.count(k, v)
    if model is not None:
        # one comparison per case: after every step the model's promised / requested / pending / delivered equal the real ones
        ctx.compare(dict(case, what="promise-ledger"), "agrees" if res.mismatch is None else res.mismatch, "agrees")
        ctx.count("promise_ledger_samples_compared", res.compared)
    for sig, detail in res.failures:
        c2 = case
        if not ctx.failures:
            c2 = shrink_game(case, sig)
        ctx.fail(sig, c2, detail)
    return res


def run_game_stream(ctx):
    model = None if getattr(ctx, "model_unavailable", False) else leanproc.LeanProc(ID)
    try:
        directed = {}
        for delay, n, gap in ((2000, -1, 8), (2000, 2, 8), (2000, 1, 8), (0, -1, 8), (3000, -1, 47), (3000, -1, 49), (1000, 2, 80)):
            res = eval_game_case(ctx, seeded_window_case(delay, n, gap), model)
            directed["delay%d_n%d_gap%d" % (delay, n, gap)] = {"failures": [f[0] for f in res.failures], "ledger": res.ledger}
        ctx.notes["game_directed_cases"] = directed
        for i in range(ctx.n(150, 1200)):
            eval_game_case(ctx, gen_game_case(ctx.rng("game", i), i), model)
            if len(ctx.failures) >= 3:
                break
    finally:
        if model is not None:
            model.close()


def race_at_ball_missing_deadline_case():
    """observation of a round-10 breaker, reproduced (NOT failed on: the damage is to the counts, C04's business, and the mechanism is
    the one of C04's known finding race:ball-counted-at-source-eject-timeout-instant): trough -> plunger -> playfield, the trough's
    ball is late and is counted by the plunger (entrance count delay 0.5 s) in the very loop instant at which the trough's
    ball_missing_timeout expires; lost_ejected_ball -> cancel_path_if_target_is completes the plunger's _cancel_future, Util.first in
    _ejecting cancels BallCountHandler.wait_for_ball() between `self._ball_count = new_balls` and `_set_ball_count()`"""
    G = gw.GRID
    return {"p": dict(C04.WP), "timing": {"leave": G, "transit": 4 * G, "fallback": 6 * G, "late": -8 * G, "pf_switch": False,
                                          "ambiguous": True},
            "outcomes": {"trough": ["verylate"]}, "ops": [["add_ball"], ["rest"]]}


def run(ctx):
    C04.run(ctx, focus="C05", ident=ID)
    try:
        res = C04.bw.run_case(race_at_ball_missing_deadline_case(), None, "C04")
        ctx.notes["observed_race_ball_counted_at_ball_missing_deadline"] = [f[0] for f in res.failures]
        ctx.count("observed_outside_property_race_ball_counted_at_ball_missing_deadline", 1 if res.failures else 0)
    except Exception as e:         # an observation only
        ctx.notes["observed_race_ball_counted_at_ball_missing_deadline"] = "error: %r" % (e,)
    if len([f for f in ctx.failures if f["signature"] not in C04.LISTED]) < 3:
        run_game_stream(ctx)


def replay(ctx, rep):
    if rep["case"].get("kind") == "game":
        case = dict(rep["case"])
        case["timing"] = {k: (float(v) if isinstance(v, str) else v) for k, v in case["timing"].items()}
        eval_game_case(ctx, case, None)
        return
    C04.replay(ctx, rep, focus="C05")
