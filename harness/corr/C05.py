"""C05 - ball requests make progress: no lost or stuck ejects (partial proof: ledger protocol + refinement monitor).

Same machinery as C04 (harness/common/ballworld.py: physical-world simulator around the REAL ball devices, ledger monitor
in Lean); this module owns the *progress* oracle: after the simulated world has stopped changing and virtual time has
been advanced past every configured timeout, every device is idle (or reported broken), no eject is queued, no
servable request is queued, every chain MPF planned to the playfield physically delivered a ball, every failed eject
was retried with the next attempt number / reported lost / reported broken exactly once, and the case came to rest.
"""
from harness.corr import C04

ID = "C05"
LEAN_MODULES = ["MpfVerif.Props.C05"]
PROPS_FILE = "MpfVerif/Props/C05.lean"
GEN = []
MANIFEST = {
    "text": "PARTIAL proof. Proved in Lean about the eject loop of the ball ledger (Model/BallLedger.lean, shared with C04): a failed eject that is accepted as retryable carries attempt number tries+1, is only possible while attempts remain and excludes the broken report; the following attempt is only accepted with exactly that number; broken is enabled only at tries+1 = max_eject_attempts > 0, at most once, and a broken device takes no further eject-loop transition (no silent retry); ball_left can always time out (no stuck phase); a work measure (queued ejects, remaining attempts, phase) strictly decreases on every step inside an attempt and on every retryable failure when max_eject_attempts > 0, so an eject cannot loop for ever. Session 3 (mechanical / player-controlled ejects): a manual eject with no request pending is ADOPTED, not lost (manual_eject_adopted: the claim moves from the device to the target, the sum of available_balls is unchanged, an eject towards the target is tracked and the ball registered as incoming there, belief ledger untouched); its confirm window can always close (manual_eject_can_time_out); when the plunged ball comes back the request is kept with the same target, attempt 0, and the eject loop's waitTarget is enabled at once (manual_return_is_retried). NOT proved: liveness of the real asyncio coroutines. That is explored on every run: the real devices run inside a physical-world simulator through failure sequences up to max_eject_attempts+2 (stuck, fall-back, late, astray), overlapping requests, drains and lock shots; the ledger monitor must accept every observed step, and the quiescence oracle checks that all devices come to rest idle or broken-and-reported with no servable request left and every planned ball physically delivered.",
    "note": "Outside the model (named runtime behaviour): asyncio task interleaving and timer expiry inside the coroutines, switch debounce, fairness of the event loop, ball_save and multiball devices (their requests enter through playfield.add_ball, which is what the harness calls), ball search. Trusted: Lean kernel + standard axioms; the hand-written ledger; harness/common/ballworld.py.",
    "technique": "Lean theorems on a hand-written protocol model (guards, exclusion, strictly decreasing measure) + runtime refinement monitor and quiescence oracle on the real devices",
    "translated": False,
}
RULE = C04.RULE + "; C05 (stream 1): half of the cases put a failure sequence of 1-5 outcomes in front of one device's outcome list " \
    "and issue 1-5 overlapping requests"
TRUSTED = C04.TRUSTED
ASSUMPTIONS = C04.ASSUMPTIONS + ["weak fairness of the environment: the simulated world always completes a transit; a ball "
                                 "that falls back does so within eject_timeout"]


def run(ctx):
    C04.run(ctx, focus="C05", ident=ID)


def replay(ctx, rep):
    C04.replay(ctx, rep, focus="C05")
