"""C10 - hardware switch-to-coil rules installed on the platform match the enabled flippers / autofires / kickbacks.

Implementation side: real Flipper / AutofireCoil / Kickback devices on a real machine (virtual platform).  The platform's
rule setters/clearers are wrapped *in the harness process* to count calls, the platform's own `rules` dict is the observed
rule table, the switch controller's registered handlers give the auxiliary handlers (PSU notification, software EOS
repulse manager), the platform driver objects are wrapped to log pulse/enable/disable.
Model side: MpfVerif.Model.Rules (table + aux handlers + per-device state + software timers).
Oracle (model independent): table == expected rules of the devices whose `_enabled` is true (expected rules computed from
the generated wiring variant); aux handlers likewise; after a disabling trigger no rule of the device remains, it stays
disabled until something enables it, no coil of a disabled flipper is energised; enable/disable are idempotent.
"""
import functools

from harness.common import leanproc
from harness.common.shrink import ddmin
from harness.common.vmachine import VMachine, BootError

ID = "C10"
LEAN_MODULES = ["MpfVerif.Props.C10"]
PROPS_FILE = "MpfVerif/Props/C10.lean"


def _gen_rules_ops():
    from translate import rules_eff
    return rules_eff.generate()


GEN = [_gen_rules_ops]
MANIFEST = {
    "text": "Proof on a Lean model of flippers (single/dual wound, with/without EOS switch, software EOS repulse or a platform that repulses in hardware, power_setting_name), autofire coils and kickbacks (timeout protection, re-enable delay, ball search, delayed pulse rule, reverse_switch, switch_overwrite / coil_overwrite) writing and clearing rows of a platform rule table keyed by (switch, coil), every row carrying the settings it is written with (invert, debounce, pulse ms, pulse power, hold power, recycle, delay, hardware repulse settings - selected from the overwrites and the coil / switch defaults inside the model): for every configuration whose rule keys are pairwise distinct and every sequence of enable/disable/sw_flip/sw_release/ball-search/switch/hit/lifecycle-event/clock/power-setting ops, the table holds exactly the rules of the enabled devices, each key once, with exactly the configured settings (rule_content_exact; a power-scaled pulse uses the setting sampled when the device was enabled), and every auxiliary switch handler belongs to an enabled device; enable and disable are idempotent; after an event listed in the disable events of every device and in no enable events (ball_will_end, service_mode_entered by default; tilt, slam tilt and game end reach ball_will_end through the real game) table and handlers are empty, no coil is energised and every device stays disabled until something enables one; after a disable no re-enable delay is pending and the device stays disabled through any later ops that do not enable it. In every reachable state (any configuration, any interleaving of button / EOS / enable / disable / timer ops, also after the EOS has closed again) a coil energised by a software command is owed to the sw_flipped / repulse-enabled flag of an enabled flipper, so no coil is energised on behalf of a disabled flipper. The five handlers of SoftwareEosRepulseManager are translated from platform_controller.py on every check (Gen/RulesOps.lean, stateful deep embedding Model/PyStore.lean) and proved to do exactly what the hand model's transitions do (eos_manager_refines_source). AutofireCoil.enable and AutofireCoil.disable are translated from autofire.py the same way and proved to do exactly what the model's enableDev / disableDev do for an autofire coil or kickback whose rule the platform accepts, including the selection of recycle / debounce / invert / pulse settings and of the plain or delayed rule setter (autofire_refines_source). The rest of the model is tied to flipper.py/autofire.py/kickback.py/platform_controller.py/virtual.py by a correspondence run on real devices of a real machine (with and without a running game) after every op, including the settings every rule setter of the platform was called with; the oracle checks the platform's rules dict (presence and settings) and the registered switch handlers against the enabled devices on every op.",
    "note": "Trusted: Lean kernel + {propext, Classical.choice, Quot.sound}; the hand-written model Model/Rules.lean (validated by differential runs; its software-EOS-repulse transitions additionally by the translator tie: translate/rules_eff.py, the interpreter Model/PyStore.lean and the 40-line meaning function Model/RulesGen.lean applyMgr); the virtual platform's rules dict stands for the hardware (real platforms' own set/clear implementations are not covered; a delayed-pulse rule setter and the feature flag hardware_eos_repulse are supplied by the harness, as no shipped virtual platform has them); game flow (which lifecycle events a tilt / drain / game end posts) is taken from the real game and fed to the model as events; asyncio timers via the repo's TimeTravelLoop. Assumes devices do not share a (switch, coil) pair and kickback switches are not shared. AutofireCoil.enable/disable are translated too (Gen/RulesOps.lean) and proved against the model (autofire_refines_source; meaning function Model/RulesGen.lean applyAf, ~45 lines: the row a rule setter writes for the arguments it is called with, clear_hw_rule(self._rule) = clearRules, delay.remove); a rule setter that raises (coil limits, unsupported platform) is covered by the correspondence only (the translation assumes collaborators answer). Three defects fixed earlier (half-installed flipper after a refused rule, autofire enabled without a rule, software EOS repulse leaving the coil on after disable).",
    "technique": "Lean 4 theorems (invariant + induction over all op sequences) on a hand model + translated manager handlers proved equal to the model's transitions + differential correspondence and rule-table / rule-content oracle on real devices",
    "translated": True,
}
RULE = ("a case = 1-4 devices (flipper wiring variant single/dual/single+EOS/dual+EOS, optional EOS repulse in software (0 or "
        "250 ms debounce) or by the platform, no activation switch, zero-length pulse, main/hold coil overwrites of pulse ms / "
        "pulse power / hold power, NC switches, coil limits that refuse the main or hold rule; autofire / "
        "kickback with coil_overwrite (pulse ms, power, recycle), coil default_recycle, switch_overwrite and the switch's own "
        "debounce, reverse_switch, NC switch, timeout protection, coil_pulse_delay on a platform with or without delayed-pulse "
        "rules, ball_search_order, kickback disabling itself on its fired event, a kickback's fired event as another device's "
        "enable / disable event; flippers with power_setting_name; shared switches, generated or default enable/disable events, "
        "some with an event|ms delay) + 6-30 ops (enable/disable by API or event incl. repeats, sw_flip/sw_release incl. twice in "
        "a row and while disabled, ball-search callback with phase 1-3, switch changes incl. hits that trigger the timeout "
        "protection, lifecycle events, clock advances on the 1/8 s grid, flipper_power setting changes); directed streams for "
        "software EOS repulse cycles (incl. the EOS closing again while the repulse holds the coil, then a disable) and for timeout "
        "hits inside / at / outside the code's actual window; without a game (events posted) or with a real game (start, drain, "
        "tilt, slam tilt, service, end). non-trivial = at least one rule was written and one cleared; distinct = canonical JSON of "
        "(devices, ops)")
TRUSTED = ["modelled, not verified: the virtual platform's rules dict as the hardware; real hardware platforms' "
           "set_*_rule/clear_hw_rule; a delayed-pulse rule setter and the hardware_eos_repulse feature are supplied by the "
           "harness; game flow (lifecycle events are taken from the real game); asyncio timers "
           "(TimeTravelLoop); Driver.pulse/enable/disable limit handling (C08); the ball search scheduler (callbacks are "
           "called directly with phase / iteration)",
           "Model/Rules.lean is hand-written; tied to flipper.py / autofire.py / kickback.py / platform_controller.py by "
           "correspondence on every run, its SoftwareEosRepulseManager transitions also by translation "
           "(translate/rules_eff.py + Model/PyStore.lean + Model/RulesGen.lean applyMgr)"]
ASSUMPTIONS = ["two devices never use the same (switch, coil) pair and a coil belongs to one device (the platform table is "
               "keyed by that pair; the virtual platform asserts on such a config)",
               "a kickback's switch is not shared with another autofire device",
               "a control event with a delay (event|ms) is an enable/disable request at the instant the delay fires: MPF "
               "does not cancel it on a later disable, so 'enable_events: ball_started|2s' can enable a device after the "
               "ball ended - that is the configured behaviour, not claimed as a violation",
               "outside C10: AutofireCoil._hit divides timeout_watch_time by 1000 twice, so the timeout protection only "
               "counts hits within watch_time/1000 (1 s -> 1 ms).  C10 is about the rules matching the enabled devices "
               "however the timeout trips; the model reproduces the code's actual window and the generator produces "
               "hits inside it (same instant, or 125 ms apart with watch times >= 130 s) and outside it",
               "an enable refused by coil limits raises out of the event handler (MPF stops); the case ends there",
               "the rule of a device = what its configuration describes when the rule is written: a flipper with "
               "power_setting_name keeps the pulse computed from the setting at enable; MPF does not rewrite the rule when the "
               "setting changes while the flipper is enabled (counted as observed_outside_property_rule_keeps_old_power_setting, "
               "not a failure)",
               "rule settings follow the code as it is: the EOS rule of the main coil takes pulse ms / power from "
               "hold_coil_overwrite and the hold coil's rule its hold power from main_coil_overwrite; the PSU notification "
               "handler of a rule on an NC switch is registered on logical state 0",
               "hold_coil without main_coil cannot be configured (main_coil is required by config_spec)"]

KINDS = {"pulse_on_hit": 0, "pulse_on_hit_and_enable_and_release": 1, "pulse_on_hit_and_release": 2,
         "pulse_on_hit_and_release_and_disable": 3, "pulse_on_hit_and_enable_and_release_and_disable": 4,
         "delayed_pulse_on_hit": 5}
LIFE = ["ball_started", "ball_will_end", "tilt", "slam_tilt", "service_mode_entered", "game_ended", "ball_ended",
        "game_started", "ball_ending", "all_on", "all_off"]
MGR = {"_button_active": 1, "_button_inactive": 2, "_eos_closed_long_enough": 3, "_repulse_on_eos_open": 4}
NSW = 5    # device switches s0..s4
SW_DEB = {3: "normal", 4: "quick"}      # the switches' own debounce setting (the others: auto)
MPF_PULSE = 10                          # mpf: default_pulse_ms


# ---------------------------------------------------------------------------------------------------------- generation
def gen_events(r, i, game, kick):
    """(enable_events, disable_events) or None for MPF's defaults"""
    if game and r.random() < 0.8:
        return None
    if r.random() < 0.12:
        return None
    en = ["d%d_on" % i]
    dis = ["d%d_off" % i]
    if r.random() < 0.35:
        en.append("all_on")
    if r.random() < 0.35:
        dis.append("all_off")
    if r.random() < 0.4:
        en.append("ball_started")
    if r.random() < 0.5:
        dis += r.sample(["ball_will_end", "service_mode_entered", "tilt", "slam_tilt", "game_ended"], r.randint(1, 3))
    if r.random() < 0.06:
        dis.append(r.choice(en))          # same event enables and disables (disable runs first)
    if r.random() < 0.1 and i > 0:
        en.append("d%d_on" % r.randrange(i))
    if r.random() < 0.3:          # event|ms delays: the request arrives later and is not cancelled by what happens meanwhile
        for lst_ in (en, dis) if r.random() < 0.4 else ((en,) if r.random() < 0.7 else (dis,)):
            k = r.randrange(len(lst_))
            if "|" not in lst_[k] and lst_[k] not in [x.split("|")[0] for x in (en + dis) if x is not lst_[k]]:
                lst_[k] += "|%dms" % r.choice([125, 250, 250, 500, 1000])
    return [en, dis]


def gen_dev(r, i, game, used_kick_sw):
    k = r.random()
    if k < 0.5:
        variant = r.choice(["single", "dual", "single_eos", "dual_eos"])
        eos = variant.endswith("_eos")
        act = r.randrange(NSW)
        d = {"t": "F", "variant": variant, "act": act,
             "eos": r.choice([s for s in range(NSW) if s != act]) if eos else None,
             "repulse": eos and r.random() < 0.6, "eos_ms": r.choice([0, 0, 250]),
             "noswitch": r.random() < 0.05, "fail": None, "mo0": r.random() < 0.12, "ho0": r.random() < 0.12,
             "search": r.random() < 0.5, "hold_ms": r.choice([250, 500, 1000]), "power": r.random() < 0.25,
             "mo": {"pulse_ms": r.choice([None, None, 15]), "pulse_power": r.choice([None, None, 0.5]),
                    "hold_power": r.choice([None, None, 0.0625])},
             "ho": {"pulse_ms": r.choice([None, None, 12]), "pulse_power": r.choice([None, None, 0.75])},
             "hwrep": False}
        if r.random() < 0.12:
            d["fail"] = r.choice(["main", "hold"]) if variant.startswith("dual") else "main"
            d["mo0"] = d["ho0"] = False
            d["mo"] = {"pulse_ms": None, "pulse_power": None, "hold_power": None}
            d["ho"] = {"pulse_ms": None, "pulse_power": None}
    else:
        kick = k > 0.85
        free = [s for s in range(NSW) if s not in used_kick_sw] or [0]
        d = {"t": "K" if kick else "A", "sw": r.choice(free), "nc": r.random() < 0.15, "reverse": r.random() < 0.2,
             "pulse_ms": r.choice([None, None, 0, 30]), "pulse_power": r.choice([None, None, 0.5]),
             "recycle": r.choice([None, None, True, False]), "debounce": r.choice([None, None, "normal", "quick"]),
             "fail": None, "watch": 0, "max_hits": 0, "dis_ms": 0, "order": r.choice([0, 100, 100, 50]),
             "self_disable": kick and r.random() < 0.4,
             "def_recycle": r.choice([None, None, True, False]), "delay": r.choice([None, None, None, 50, 125])}
        if r.random() < 0.55:
            # the code's window is watch/1000 ms: 1000 -> 1 ms (same instant only); 130000 / 200000 -> hits 125 ms
            # apart are inside, 250 ms apart outside; 125000 -> the boundary itself (125 ms apart is outside)
            d["watch"] = r.choice([1000, 1000, 500, 5000, 125000, 130000, 200000, 200000])
            d["max_hits"] = r.choice([1, 2, 2, 3, 0])
            d["dis_ms"] = r.choice([0, 250, 500, 500, 1000])
        if r.random() < 0.1:
            d["fail"] = r.choice(["limit", "delay"])
            d["delay"] = None
            if d["fail"] == "limit":
                d["pulse_ms"] = 100
    d["ev"] = gen_events(r, i, game, d["t"] == "K")
    return d


def gen_devs(r, game):
    devs = []
    kick_sw = set()
    for i in range(r.choice([1, 2, 2, 3, 3, 4])):
        d = gen_dev(r, i, game, kick_sw)
        if d["t"] == "K":
            if any(x["t"] != "F" and x["sw"] == d["sw"] for x in devs):
                d["t"] = "A"
                d["self_disable"] = False
            else:
                kick_sw.add(d["sw"])
        devs.append(d)
    # one platform per case: without delayed-pulse support when a device is meant to be refused for it; with or without
    # hardware EOS repulse
    if any(d.get("fail") == "delay" for d in devs):
        for d in devs:
            if d["t"] != "F":
                d["delay"] = None
    if r.random() < 0.25:
        for d in devs:
            if d["t"] == "F":
                d["hwrep"] = True
    # a kickback's fired event as somebody else's enable / disable event
    kicks = [j for j, d in enumerate(devs) if d["t"] == "K"]
    for i, d in enumerate(devs):
        if kicks and d["ev"] is not None and r.random() < 0.2:
            j = r.choice(kicks)
            if j != i:
                d["ev"][r.choice([0, 1])].append("kickback_k%d_fired" % j)
    return devs


def gen_ops(r, devs, game):
    ops = []
    n = len(devs)
    fl = [i for i, d in enumerate(devs) if d["t"] == "F"]
    af = [i for i, d in enumerate(devs) if d["t"] != "F"]
    custom = [i for i, d in enumerate(devs) if d["ev"] is not None]
    if game and r.random() < 0.85:
        ops.append(["game", "start"])
    for _ in range(r.randint(6, 30)):
        k = r.random()
        i = r.randrange(n)
        if k < 0.16:
            if devs[i]["ev"] is None and game:
                continue      # devices on MPF's default events are only driven by the game
            ops.append(["enable", i, r.choice(["api", "event"]) if i in custom else "api"])
            if r.random() < 0.25:
                ops.append(list(ops[-1]))
        elif k < 0.3:
            ops.append(["disable", i, r.choice(["api", "event"]) if i in custom else "api"])
            if r.random() < 0.25:
                ops.append(list(ops[-1]))
        elif k < 0.4 and fl:
            ops.append(["sw_flip", r.choice(fl), r.choice(["api", "event"])])
            if r.random() < 0.25:
                ops.append(list(ops[-1]))
        elif k < 0.47 and fl:
            ops.append(["sw_release", r.choice(fl), r.choice(["api", "event"])])
            if r.random() < 0.25:
                ops.append(list(ops[-1]))
        elif k < 0.55:
            if searchable(devs[i]):
                ops.append(["search", i, r.choice([1, 2, 3]), r.choice([1, 2])])
        elif k < 0.75:
            s = r.randrange(NSW)
            if af and r.random() < 0.5:
                s = devs[r.choice(af)]["sw"]
            if r.random() < 0.45:
                gap = r.choice([0, 0, 1, 1, 2])            # a burst of hits at one instant or 125 / 250 ms apart
                for _ in range(r.choice([1, 2, 3])):
                    ops.append(["sw", s, 1])
                    ops.append(["sw", s, 0])
                    if gap:
                        ops.append(["advance", gap])
            else:
                ops.append(["sw", s, r.choice([0, 1])])
        elif k < 0.87:
            if game:
                ops.append(["game", r.choice(["start", "drain", "drain", "tilt", "slam_tilt", "service", "end"])])
            else:
                ops.append(["ev", r.choice(LIFE[:6] + ["all_on", "all_off", "ball_started", "ball_will_end"])])
        elif k < 0.9 and any(d.get("power") for d in devs):
            ops.append(["setting", r.choice([0.8, 1.0, 1.2])])
        else:
            ops.append(["advance", r.choice([1, 1, 2, 2, 3, 4, 8])])
    return ops


# -------------------------------------------------------------------------------------------------------------- config
def ev_names(d, i):
    return d["ev"]


def build_config(devs, game):
    co = ["coils:"]
    fl, af, kb = ["flippers:"], ["autofire_coils:"], ["kickbacks:"]
    nc_sw = nc_switches(devs)
    sw = ["switches:"]
    for s in range(NSW):
        sw += ["  s%d:" % s, "    number: %d" % s]
        if s in nc_sw:
            sw.append("    type: NC")
        if s in SW_DEB:
            sw.append("    debounce: %s" % SW_DEB[s])
    if game:
        sw += ["  s_tilt:", "    number: 20", "    tags: tilt", "  s_slam:", "    number: 21", "    tags: slam_tilt"]
    for i, d in enumerate(devs):
        m, h = 2 * i, 2 * i + 1
        if d["t"] == "F":
            dual = d["variant"].startswith("dual")
            eos = d["variant"].endswith("_eos")
            co += ["  c%d:" % m, "    number: %d" % m, "    default_pulse_ms: 10"]
            if dual:
                if d["fail"] == "main":
                    co.append("    max_pulse_ms: 20")
                co += ["  c%d:" % h, "    number: %d" % h]
                if d["fail"] != "hold":
                    co.append("    default_hold_power: 1.0")
            elif d["fail"] != "main":
                co.append("    default_hold_power: 0.125")
            out = ["  f%d:" % i, "    main_coil: c%d" % m]
            if dual:
                out.append("    hold_coil: c%d" % h)
            if not d["noswitch"]:
                out.append("    activation_switch: s%d" % d["act"])
            if eos:
                out += ["    eos_switch: s%d" % d["eos"], "    use_eos: true",
                        "    eos_active_ms_before_repulse: %d" % d["eos_ms"]]
                if d["repulse"]:
                    out += ["    repulse_on_eos_open: true"]
            mo = {k: v for k, v in (d.get("mo") or {}).items() if v is not None}
            ho = {k: v for k, v in (d.get("ho") or {}).items() if v is not None}
            if d["mo0"]:
                mo["pulse_ms"] = 0
            if d["ho0"]:
                ho["pulse_ms"] = 0
            if dual and d["fail"] == "main":
                (ho if eos else mo)["pulse_ms"] = 50
            for name, ov in (("main_coil_overwrite", mo), ("hold_coil_overwrite", ho)):
                if ov:
                    out.append("    %s:" % name)
                    out += ["      %s: %s" % kv for kv in ov.items()]
            if d.get("power"):
                out.append("    power_setting_name: flipper_power")
            if d["search"]:
                out += ["    include_in_ball_search: true", "    ball_search_hold_time: %dms" % d["hold_ms"]]
            out += ["    sw_flip_events: f%d_flip" % i, "    sw_release_events: f%d_release" % i]
            tgt = fl
        else:
            co += ["  c%d:" % m, "    number: %d" % m, "    default_pulse_ms: 20", "    max_pulse_ms: 50"]
            if d.get("def_recycle") is not None:
                co.append("    default_recycle: %s" % str(d["def_recycle"]).lower())
            name = ("k%d" if d["t"] == "K" else "a%d") % i
            out = ["  %s:" % name, "    coil: c%d" % m, "    switch: s%d" % d["sw"]]
            if d["reverse"]:
                out.append("    reverse_switch: true")
            ov = {k: d[k] for k in ("pulse_ms", "pulse_power", "recycle") if d[k] is not None}
            if ov:
                out.append("    coil_overwrite:")
                out += ["      %s: %s" % (k, str(v).lower() if isinstance(v, bool) else v) for k, v in ov.items()]
            if d["debounce"]:
                out += ["    switch_overwrite:", "      debounce: %s" % d["debounce"]]
            if d["watch"]:
                out += ["    timeout_watch_time: %dms" % d["watch"], "    timeout_max_hits: %d" % d["max_hits"],
                        "    timeout_disable_time: %dms" % d["dis_ms"]]
            if d["fail"] == "delay":
                out.append("    coil_pulse_delay: 50ms")
            elif d.get("delay"):
                out.append("    coil_pulse_delay: %dms" % d["delay"])
            out.append("    ball_search_order: %d" % d["order"])
            tgt = kb if d["t"] == "K" else af
        if d["ev"] is not None:
            en, dis = d["ev"]
            dis = list(dis)
            if d.get("self_disable"):
                dis.append("kickback_k%d_fired" % i)
            for key, names in (("enable_events", en), ("disable_events", dis)):
                if any("|" in n for n in names):        # a delay needs the dict form  event: ms
                    out.append("    %s:" % key)
                    out += ["      %s: %s" % ((n.split("|") + ["0"])[0], (n.split("|") + ["0"])[1]) for n in names]
                else:
                    out.append("    %s: %s" % (key, ", ".join(names) or "None"))
        elif d.get("self_disable"):
            out += ["    disable_events: ball_will_end, service_mode_entered, kickback_k%d_fired" % i]
        tgt += out
    lines = sw + co
    for sec in (fl, af, kb):
        if len(sec) > 1:
            lines += sec
    if game:
        lines += ["modes:", "  - tilt", "game:", "  balls_per_game: 2"]
    return "\n".join(lines) + "\n"


def nc_switches(devs):
    return {d["sw"] for d in devs if d["t"] != "F" and d["nc"]}


def searchable(d):
    return d["search"] if d["t"] == "F" else d["order"] != 0


def pm(x, default=1000):
    """a power as permille"""
    return default if x is None else round(x * 1000)


def pulse_of(power, factor, ow, coil_default):
    """Flipper._get_pulse_ms / _get_hold_pulse_ms + Driver.get_and_verify_pulse_ms, as documented: with a power setting the
    overwrite (the mpf default when unset or 0) times the setting, truncated; otherwise the overwrite or the coil's default"""
    if power:
        return ((ow or MPF_PULSE) * factor) // 1000
    return coil_default if ow is None else ow


def expected_rules(d, i, nc, factor=1000):
    """(table rows with their settings, aux handlers) of one device when enabled - computed from the generated description
    only.  Row = (switch, coil, kind, invert, debounce, pulse ms, pulse power, hold power + 1 | 0, recycle, delay ms,
    hardware repulse 0/1/2, repulse debounce ms); factor = the flipper power setting (permille) when the rules were written"""
    m, h = 2 * i, 2 * i + 1
    if d["t"] != "F":
        inv = d["reverse"] != (d["sw"] in nc)
        psu_state = 0 if inv else 1
        deb = (d["debounce"] == "normal") if d["debounce"] else SW_DEB.get(d["sw"]) == "normal"
        recycle = d["recycle"] if d["recycle"] is not None else d.get("def_recycle") in (True, None)
        pulse = 20 if d["pulse_ms"] is None else d["pulse_ms"]
        delay = d.get("delay") or 0
        aux = [] if d["pulse_ms"] == 0 else [(d["sw"], psu_state, 0, m)]
        return [(d["sw"], m, 5 if delay else 0, int(inv), int(deb), pulse, pm(d["pulse_power"]), 0, int(recycle), delay, 0, 0)], aux
    if d["noswitch"]:
        return [], []
    a, e = d["act"], d["eos"]
    dual = d["variant"].startswith("dual")
    eos = d["variant"].endswith("_eos")
    power = bool(d.get("power"))
    mo = dict(d.get("mo") or {"pulse_ms": None, "pulse_power": None, "hold_power": None})
    ho = dict(d.get("ho") or {"pulse_ms": None, "pulse_power": None})
    if d["mo0"]:
        mo["pulse_ms"] = 0
    if d["ho0"]:
        ho["pulse_ms"] = 0
    if dual and d["fail"] == "main":
        (ho if eos else mo)["pulse_ms"] = 50
    main_def_hold = None if dual else 125
    rows, aux = [], []
    ps = 0 if a in nc else 1
    hold_main = 1 + (pm(mo["hold_power"], None) if mo["hold_power"] is not None else (main_def_hold or 0))
    hold_hold = 1 + (pm(mo["hold_power"], None) if mo["hold_power"] is not None else 1000)
    if eos:
        kind = 3 if dual else 4
        p = pulse_of(power, factor, ho["pulse_ms"], 10)
        soft = d["repulse"] and not d.get("hwrep")
        rep = (0, 0) if soft else (2 if d["repulse"] else 1, d["eos_ms"])
        for s_, inv in ((a, a in nc), (e, e in nc)):
            rows.append((s_, m, kind, int(inv), 0, p, pm(ho["pulse_power"]), 0 if dual else hold_main, 0, 0) + rep)
        if soft:
            aux += [(a, 1, 1, m), (a, 0, 2, m), (e, 1, 3, m), (e, 0, 4, m)]
        if p != 0:
            aux.append((a, ps, 0, m))
    else:
        p = pulse_of(power, factor, mo["pulse_ms"], 10)
        rows.append((a, m, 2 if dual else 1, int(a in nc), 0, p, pm(mo["pulse_power"]), 0 if dual else hold_main, 0, 0, 0, 0))
        if p != 0:
            aux.append((a, ps, 0, m))
    if dual:
        p = pulse_of(power, factor, ho["pulse_ms"], MPF_PULSE)
        rows.append((a, h, 1, int(a in nc), 0, p, pm(ho["pulse_power"]), hold_hold, 0, 0, 0, 0))
        if p != 0:
            aux.append((a, ps, 0, h))
    return rows, aux


# ---------------------------------------------------------------------------------------------------- the real machine
class Run:
    def __init__(self, devs, game):
        self.devs, self.game = devs, game
        self.vm = VMachine(build_config(devs, game), game=game)
        self.cmds = []        # coil commands of the current op: (kind, coil)
        self.calls = 0        # platform set/clear calls of the current op
        self.events = []      # (ms, name) lifecycle events seen
        self.on = set()
        self.dead = False
        self.pending = []     # delayed control events not yet fired: (due ms, device, action)
        self.content = {}     # (switch, coil) -> settings of the rule as the platform received them
        self.factor = 1000    # flipper power setting now (permille)
        self.write_factor = {}    # device -> the setting in force when its rules were last written
        self.codes = {n: k for k, n in enumerate(LIFE)}

    def code(self, name):
        if name not in self.codes:
            self.codes[name] = 100 + len(self.codes)
        return self.codes[name]

    def start(self):
        self.vm.start()
        m = self.vm.machine
        self.m = m
        self.objs = []
        for i, d in enumerate(self.devs):
            if d["t"] == "F":
                self.objs.append(m.flippers["f%d" % i])
            elif d["t"] == "K":
                self.objs.append(m.kickbacks["k%d" % i])
            else:
                self.objs.append(m.autofire_coils["a%d" % i])
        plat = m.default_platform
        self.plat = plat
        if any(d["t"] == "F" and d.get("hwrep") for d in self.devs):
            plat.features["hardware_eos_repulse"] = True      # a platform that repulses by itself: no software manager
        if not any(d.get("fail") == "delay" for d in self.devs):
            # a platform with delayed-pulse rules (the virtual platform has none): same table, its own rule kind
            def delayed(enable_switch, coil, delay_ms):
                plat._assert_rule_does_not_exist(enable_switch.hw_switch, coil.hw_driver)
                plat.rules[(enable_switch.hw_switch, coil.hw_driver)] = "delayed_pulse_on_hit"
            plat.set_delayed_pulse_on_hit_rule = delayed
        for name in dir(plat):
            if (name.startswith("set_") and name.endswith("_rule")) or name == "clear_hw_rule":
                def mk(f, name):
                    @functools.wraps(f)
                    def g(*a, **k):
                        self.calls += 1
                        res = f(*a, **k)
                        self.record(name, a, k)
                        return res
                    return g
                setattr(plat, name, mk(getattr(plat, name), name))
        for c in m.coils.values():
            hw = c.hw_driver
            num = int(hw.number)

            def wrap(hw, num):
                for kind, name in ((0, "pulse"), (1, "enable"), (2, "disable"), (1, "timed_enable")):
                    f = getattr(hw, name)

                    def g(*a, _f=f, _kind=kind, **k):
                        self.cmds.append((_kind, num))
                        if _kind == 1:
                            self.on.add(num)
                        elif _kind == 2:
                            self.on.discard(num)
                        return _f(*a, **k)
                    setattr(hw, name, g)
            wrap(hw, num)
        names = set(LIFE)
        for o in self.objs:
            names |= set(o.config["enable_events"]) | set(o.config["disable_events"])
        for n in sorted(names):
            if n.startswith("kickback_"):
                continue       # posted by the kickback itself: part of the model's hit
            m.events.add_handler(n, self._seen, priority=10000000, _name=n)
        self.vm.align()
        self.t0 = round(self.vm.now() * 1000)
        self.sw_state = {s: 0 for s in range(NSW)}
        return self

    def record(self, name, a, k):
        """the settings a rule setter of the platform was called with (after it returned), per (switch, coil) row"""
        a = list(a) + list(k.values())
        sws = [x for x in a if type(x).__name__ == "SwitchSettings"]
        coil = [x for x in a if type(x).__name__ == "DriverSettings"][0]
        cnum = int(coil.hw_driver.number)
        if name == "clear_hw_rule":
            for sw in sws:
                self.content.pop((int(sw.hw_switch.number), cnum), None)
            return
        rep = [x for x in a if type(x).__name__ == "RepulseSettings"]
        delay = [x for x in a if isinstance(x, int) and not isinstance(x, bool)]
        ps, hs = coil.pulse_settings, coil.hold_settings
        for sw in sws:
            self.content[(int(sw.hw_switch.number), cnum)] = (
                int(bool(sw.invert)), int(bool(sw.debounce)), ps.duration, round(ps.power * 1000),
                0 if hs is None else 1 + round(hs.power * 1000), int(bool(coil.recycle)), delay[0] if delay else 0,
                0 if not rep else (2 if rep[0].enable_repulse else 1), 0 if not rep else rep[0].debounce_ms)
        self.write_factor[cnum // 2] = self.factor

    def _seen(self, _name, **kwargs):
        self.events.append((round(self.vm.now() * 1000), _name))

    def now_ms(self):
        return round(self.vm.now() * 1000)

    def ev_lists(self, i):
        """(enable events, disable events) handled at once (no delay), from the validated device config"""
        o = self.objs[i]
        return ([n for n, ms in o.config["enable_events"].items() if not ms],
                [n for n, ms in o.config["disable_events"].items() if not ms])

    def ev_delayed(self, i):
        o = self.objs[i]
        return ([(n, ms, "enable") for n, ms in o.config["enable_events"].items() if ms] +
                [(n, ms, "disable") for n, ms in o.config["disable_events"].items() if ms])

    def collect_delayed(self):
        """delayed control events (event|ms): schedule those posted in this op, return those that fired in it as
        (ms, device, action) in time order; None when two requests for one device fell on one instant"""
        for t, name in self.events:
            for i in range(len(self.devs)):
                for n, ms, action in self.ev_delayed(i):
                    if n == name:
                        self.pending.append((t + ms, i, action))
        now = self.now_ms()
        fired = sorted(p for p in self.pending if p[0] <= now)
        self.pending = [p for p in self.pending if p[0] > now]
        return fired

    # -- ops ----------------------------------------------------------------------------------------------------------
    def do(self, op):
        """run one op on the real machine; returns 'ok' | 'refused:<Exc>' | 'crash:<Exc>'"""
        self.cmds, self.calls, self.events = [], 0, []
        m, vm = self.m, self.vm
        kind = op[0]
        try:
            if kind == "enable":
                self.objs[op[1]].enable() if op[2] == "api" else m.events.post("d%d_on" % op[1])
            elif kind == "disable":
                self.objs[op[1]].disable() if op[2] == "api" else m.events.post("d%d_off" % op[1])
            elif kind == "sw_flip":
                self.objs[op[1]].sw_flip() if op[2] == "api" else m.events.post("f%d_flip" % op[1])
            elif kind == "sw_release":
                self.objs[op[1]].sw_release() if op[2] == "api" else m.events.post("f%d_release" % op[1])
            elif kind == "search":
                for cb in self.objs[op[1]].config["playfield"].ball_search.callbacks if self.devs[op[1]]["t"] == "F" \
                        else self.objs[op[1]].playfield.ball_search.callbacks:
                    if cb.name == self.objs[op[1]].name:
                        cb.callback(op[2] if len(op) > 2 else 1, op[3] if len(op) > 3 else 1)
            elif kind == "sw":
                vm.hit_switch("s%d" % op[1], op[2])
            elif kind == "ev":
                m.events.post(op[1])
            elif kind == "advance":
                vm.advance(op[1] / 8.0)
            elif kind == "setting":
                m.settings.set_setting_value("flipper_power", op[1])
                self.factor = round(op[1] * 1000)
            elif kind == "game":
                self.game_op(op[1])
            vm.run()
            return "ok"
        except BaseException as e:      # noqa
            self.dead = True
            inner = e
            while getattr(inner, "__cause__", None) is not None:
                inner = inner.__cause__
            name = type(inner).__name__
            return ("refused:" if name in ("DriverLimitsError", "AssertionError") else "crash:") + name

    def game_op(self, what):
        m, vm = self.m, self.vm
        if what == "start":
            if m.game is None:
                def _add_ball(**kwargs):
                    m.playfield.balls += 1
                    m.playfield.available_balls += 1
                m.playfield.add_ball = _add_ball
                m.ball_controller.num_balls_known = 3
                vm.hit_switch("s_start", 1)
                vm.hit_switch("s_start", 0)
                vm.advance(1.0)
        elif what == "drain":
            if m.game is not None and m.game.balls_in_play > 0:
                drained = 0
                for _ in range(m.game.balls_in_play):
                    res = vm.tc.post_relay_event_with_params("ball_drain", balls=1)
                    drained += res["balls"]
                m.playfield.balls -= drained
                m.playfield.available_balls -= drained
                vm.advance(1.0)
        elif what == "tilt":
            vm.hit_switch("s_tilt", 1)
            vm.hit_switch("s_tilt", 0)
            vm.advance(0.125)
        elif what == "slam_tilt":
            vm.hit_switch("s_slam", 1)
            vm.hit_switch("s_slam", 0)
            vm.advance(0.125)
        elif what == "service":
            m.events.post("service_mode_entered")
        elif what == "end":
            if m.game is not None:
                m.game.end_game()
                vm.advance(1.0)
                m.playfield.balls = 0
                m.playfield.available_balls = 0

    # -- observation --------------------------------------------------------------------------------------------------
    def table(self):
        """the platform's rule table, each row with the settings it was written with"""
        return sorted((int(k[0].number), int(k[1].number), KINDS.get(v, 99)) +
                      self.content.get((int(k[0].number), int(k[1].number)), (-1,) * 9) for k, v in self.plat.rules.items())

    def aux(self):
        out = []
        for sw, states in self.m.switch_controller.registered_switches.items():
            for st, lst in enumerate(states):
                for ent in lst:
                    cb = ent.callback
                    if isinstance(cb, functools.partial) and getattr(cb.func, "__name__", "") == "_notify_psu_about_pulse":
                        out.append((int(sw.hw_switch.number), st, 0, int(cb.keywords["driver"].hw_driver.number)))
                    elif type(getattr(cb, "__self__", None)).__name__ == "SoftwareEosRepulseManager":
                        out.append((int(sw.hw_switch.number), st, MGR[cb.__name__], int(cb.__self__.driver.hw_driver.number)))
        return sorted(out)

    def due(self, delays, name):
        if name not in delays:
            return "-"
        return str(round((delays[name][0].when() - self.vm.now()) * 1000))

    def dev_state(self, i):
        o, d = self.objs[i], self.devs[i]
        if d["t"] == "F":
            mgr = "-/-"
            for rule in o._active_rules:
                h = rule.software_rule_handler
                if h is not None:       # the software EOS repulse manager of the installed rule: its flags and timed handler
                    due = "-"
                    sc = self.m.switch_controller
                    for key, entries in sc._active_timed_switches.get(h.eos_switch.switch, {}).items():
                        if any(e.callback == h._eos_closed_long_enough for e in entries):
                            due = str(round((key - self.vm.now()) * 1000))
                    mgr = "%d%d%d/%s" % (h._button_is_active, h._is_eos_closed_long_enough,
                                          getattr(h, "_enabled_by_repulse", False), due)
            return "F%d%d/%s/%s" % (o._enabled, o._sw_flipped,
                                    self.due(self.m.delay.delays, "flipper_%s_ball_search" % o.name), mgr)
        return "A%d%d/%s/%s/%d" % (o._enabled, o._ball_search_in_progress, self.due(o.delay.delays, "_timeout_enable_delay"),
                                   self.due(o.delay.delays, "ball_search_ignore_done"), len(o._timeout_hits))

    def observe(self):
        return {"t": self.table(), "h": self.aux(), "on": sorted(self.on),
                "d": [self.dev_state(i) for i in range(len(self.devs))],
                "c": sorted(self.cmds, key=lambda c: c[1])}

    def stop(self):
        self.vm.stop()


# --------------------------------------------------------------------------------------------------------------- model
def opt(v):
    return "-" if v is None else str(v)


def lst(v):
    return ",".join(map(str, v)) or "-"


def ob(v):
    return "-" if v is None else str(int(v))


def model_dev_line(run, i):
    """the device's raw configuration for the model (which computes rows, settings and handlers from it)"""
    d = run.devs[i]
    en, dis = run.ev_lists(i)
    en = [run.code(n) for n in en]
    dis = [run.code(n) for n in dis]
    m, h = 2 * i, 2 * i + 1
    nc = nc_switches(run.devs)
    if d["t"] == "F":
        dual = d["variant"].startswith("dual")
        eos = d["variant"].endswith("_eos")
        mo = dict(d.get("mo") or {"pulse_ms": None, "pulse_power": None, "hold_power": None})
        ho = dict(d.get("ho") or {"pulse_ms": None, "pulse_power": None})
        if d["mo0"]:
            mo["pulse_ms"] = 0
        if d["ho0"]:
            ho["pulse_ms"] = 0
        if dual and d["fail"] == "main":
            (ho if eos else mo)["pulse_ms"] = 50
        return "dev F %s %s %d %s %d %d %d %d %d %d %s %s %s %s %s %d %d %s %s %d %d %d %s %s" % (
            opt(None if d["noswitch"] else d["act"]), opt(d["eos"] if eos else None), m, opt(h if dual else None),
            d["repulse"], d["eos_ms"], bool(d.get("hwrep")), d["act"] in nc, eos and d["eos"] in nc, bool(d.get("power")),
            opt(mo["pulse_ms"]), opt(None if mo["pulse_power"] is None else pm(mo["pulse_power"])),
            opt(None if mo["hold_power"] is None else pm(mo["hold_power"])),
            opt(ho["pulse_ms"]), opt(None if ho["pulse_power"] is None else pm(ho["pulse_power"])),
            10, MPF_PULSE, opt(None if dual else 125), opt(1000),
            d["fail"] != "main", d["fail"] != "hold", d["hold_ms"], lst(en), lst(dis))
    fired = run.code("kickback_k%d_fired" % i) if d["t"] == "K" else None
    return "dev A %d %d %d %d %d %s %s %s %s %d %s %d %d %d %d %d %s %s %s" % (
        d["sw"], m, d["reverse"], d["sw"] in nc, SW_DEB.get(d["sw"]) == "normal",
        ob(None if not d["debounce"] else d["debounce"] == "normal"), ob(d["recycle"]), ob(d.get("def_recycle")),
        opt(d["pulse_ms"]), 20, opt(None if d["pulse_power"] is None else pm(d["pulse_power"])), d.get("delay") or 0,
        d["fail"] is None, d["watch"], d["max_hits"], d["dis_ms"], opt(fired), lst(en), lst(dis))


def parse_model(line):
    parts = dict(p.split("=", 1) for p in line.split(" "))

    def tup(s):
        return [tuple(int(x) for x in t.split("/")) for t in s.split(",")] if s else []
    return {"t": sorted(tup(parts["t"])), "h": sorted(tup(parts["h"])),
            "on": sorted(int(x) for x in parts["on"].split(",")) if parts["on"] else [],
            "d": parts["d"].split(",") if parts["d"] else [], "c": tup(parts["c"]),
            "r": [int(x) for x in parts["r"].split(",")] if parts["r"] else []}


def pending_dues(mobs):
    out = set()
    for d in mobs["d"]:
        parts = d.split("/")
        dues = [parts[1], parts[3]] if d.startswith("F") else parts[1:3]
        for x in dues:
            if x != "-":
                out.add(x)
    return out


class ModelFeed:
    def __init__(self, model, run):
        self.model, self.run = model, run
        self.now = run.t0
        self.last = None
        self.synced = True
        model.ask("reset %d" % run.t0)
        for i in range(len(run.devs)):
            if model.ask(model_dev_line(run, i)) != "ok":
                raise leanproc.InfraError("model rejected device line %r" % model_dev_line(run, i))

    def lines_for(self, op, sw_before):
        run = self.run
        k = op[0]
        if k in ("enable", "disable"):
            if op[2] == "api":
                return ["%s %d" % (k, op[1])]
            return []          # posted event: arrives through the recorder
        if k == "search":
            return ["search %d" % op[1]] if searchable(run.devs[op[1]]) else []
        if k in ("sw_flip", "sw_release"):
            return ["%s %d" % (k, op[1])]
        if k == "setting":
            return ["setting %d" % round(op[1] * 1000)]
        if k == "sw":
            s, st = op[1], op[2]
            out = []
            for i, d in enumerate(run.devs):
                if d["t"] == "F":
                    if not d["noswitch"] and d["act"] == s:
                        out.append("fsw %d 0 %d" % (i, st))
                    if d["eos"] == s and d["variant"].endswith("_eos"):
                        out.append("fsw %d 1 %d" % (i, st))
                elif d["sw"] == s and st == 1 and sw_before != 1:
                    out.append("hit %d" % i)
            return out
        return []

    def feed(self, op, sw_before, events, fired, end_ms):
        """returns the model's observation after the op (cmd log accumulated over the lines), or None when unsynced.
        events: lifecycle/control events seen (ms, name); fired: delayed control events that fired (ms, device, action)"""
        cmds, refused = [], []
        lines = [("op", l) for l in self.lines_for(op, sw_before)]
        timeline = [(t, 0, "ev %d" % self.run.code(name)) for t, name in events] + \
                   [(t, 1, "%s %d" % (action, i)) for t, i, action in fired]
        stamps = [t for t, _, _ in timeline]
        if any(k == 1 and stamps.count(t) > 1 for t, k, _ in timeline):
            self.synced = False          # a delayed request and something else at one instant: order not modelled
            return None
        for t, _, l in sorted(timeline, key=lambda x: x[0]):     # stable: events keep their posting order
            lines.append(("at", t))
            lines.append(("op", l))
        lines.append(("end", end_ms))
        obs = self.last
        asked = False
        for kind, l in lines:
            if kind in ("at", "end"):
                if l <= self.now and not (kind == "end" and not asked):
                    continue
                dt = max(0, l - self.now)
                if kind == "at" and obs is not None and str(dt) in pending_dues(obs):
                    self.synced = False     # a device timer and an event / delayed request at one instant
                    self.why = (dt, obs["d"], self.run.events)
                    return None
                l = "advance %d" % dt
                self.now += dt
            ans = self.model.ask("op " + l)
            asked = True
            if ans == "bad-op":
                raise leanproc.InfraError("model answered bad-op to %r" % l)
            obs = parse_model(ans)
            cmds += obs["c"]
            refused += obs["r"]
        if obs is None:
            return None
        self.last = obs
        out = dict(obs)
        out["c"] = sorted(cmds, key=lambda c: c[1])
        out["r"] = refused
        return out


# -------------------------------------------------------------------------------------------------------------- oracle
class Oracle:
    """model-independent statement of the property on the observed platform state"""

    def __init__(self, run):
        self.run = run
        n = len(run.devs)
        self.nc = nc_switches(run.devs)
        self.off = [False] * n          # explicitly disabled and not enabled since
        self.refused_before = False
        self.inball = False

    def cls(self, i):
        return {"F": "flipper", "A": "autofire", "K": "kickback"}[self.run.devs[i]["t"]]

    def check(self, op, res, before_enabled, fired=()):
        """returns (signature, detail) or None; fired = delayed control events that fired in this op"""
        run = self.run
        obs_t, obs_h = run.table(), run.aux()
        en = [o._enabled for o in run.objs]
        if res.startswith("crash"):
            return "crash:" + res.split(":")[1], {"op": op}
        if res.startswith("refused"):
            fails = [i for i, d in enumerate(run.devs) if d["fail"]]
            if not fails:
                return "crash:" + res.split(":")[1], {"op": op, "note": "no device with refusing limits"}
            self.refused_before = True
        # the rules of a device are those its configuration describes, a power-scaled pulse with the setting in force
        # when the rule was written
        self.exp = [expected_rules(d, i, self.nc, run.write_factor.get(i, 1000)) for i, d in enumerate(run.devs)]
        exp_t = sorted(r for i in range(len(en)) if en[i] for r in self.exp[i][0])
        exp_h = sorted(a for i in range(len(en)) if en[i] for a in self.exp[i][1])
        tag = "after-refused-enable" if self.refused_before else "enabled-devices"
        if [x[:3] for x in obs_t] != [x[:3] for x in exp_t]:
            return "table-mismatch:" + tag, {"op": op, "table": obs_t, "expected": exp_t, "enabled": en}
        if obs_t != exp_t:
            bad = [x for x in obs_t if x not in exp_t][0]
            return "rule-content-mismatch:" + self.cls(bad[1] // 2), {"op": op, "table": obs_t, "expected": exp_t,
                                                                      "enabled": en}
        if obs_h != exp_h:
            return "aux-handler-mismatch:" + tag, {"op": op, "handlers": obs_h, "expected": exp_h, "enabled": en}
        # idempotence: enabling an enabled / disabling a disabled device does not touch the platform
        if op[0] in ("enable", "disable") and op[2] == "api" and res == "ok":
            i = op[1]
            if before_enabled[i] == (op[0] == "enable") and run.calls:
                return "not-idempotent:" + self.cls(i), {"op": op, "platform_calls": run.calls}
        # explicit triggers seen in this op, per device
        seen = [n for _, n in run.events]
        for i, o in enumerate(run.objs):
            ens, diss = run.ev_lists(i)
            state = None
            if op[0] in ("enable", "disable") and op[2] == "api" and op[1] == i:
                state = op[0]
            trig = sorted([(t, 0, n) for t, n in run.events] + [(t, 1, a) for t, j, a in fired if j == i],
                          key=lambda x: x[0])
            for t, k, n in trig:
                if k == 1:
                    # a delayed request is an enable/disable request at the instant it fires; when something else
                    # for this device falls on the same instant the order is asyncio's: no claim
                    tie = sum(1 for t2, k2, n2 in trig if t2 == t and (k2 == 1 or n2 in diss or n2 in ens)) > 1
                    state = "unknown" if tie else n
                    continue
                if n in diss:
                    state = "disable"
                if n in ens:
                    state = "enable"
            if run.devs[i]["t"] == "K" and op[0] == "sw":
                state = state or ("keep" if self.off[i] else None)
            if state == "disable":
                self.off[i] = True
            elif state in ("enable", "unknown"):
                self.off[i] = False
            elif any(("kickback_k%d_fired" % j) in ens for j in range(len(en))):
                self.off[i] = False      # may be enabled by a kickback's fired event (not recorded): no claim
            if self.off[i]:
                if en[i]:
                    sig = "reenabled-after-disable:" if run.devs[i]["t"] != "F" else "enabled-after-disable:"
                    return sig + self.cls(i), {"op": op, "device": i}
                if run.devs[i]["t"] != "F" and "_timeout_enable_delay" in o.delay.delays:
                    return "reenable-pending-after-disable:" + self.cls(i), {"op": op, "device": i}
        # no coil of a disabled flipper is energised (command log and the virtual driver's own state)
        for i, o in enumerate(run.objs):
            if run.devs[i]["t"] == "F" and not en[i]:
                for c in (2 * i, 2 * i + 1):
                    coil = run.m.coils.get("c%d" % c) if hasattr(run.m.coils, "get") else None
                    hw_on = coil is not None and coil.hw_driver.state == "enabled"
                    if c in run.on or hw_on:
                        return "coil-energised:disabled-flipper", {"op": op, "device": i, "coil": c}
        # with a real game: devices on MPF's default events hold rules only during a ball
        if run.game:
            for _, n in run.events:
                if n == "ball_started":
                    self.inball = True
                elif n in ("ball_will_end", "service_mode_entered"):
                    self.inball = False
            nogame = run.m.game is None
            for i, d in enumerate(run.devs):
                if d["ev"] is None and en[i] and (nogame or not self.inball):
                    return "rule-outside-ball:" + self.cls(i), {"op": op, "device": i, "game": not nogame}
            if op[0] == "game" and op[1] in ("tilt", "slam_tilt", "service", "end") and not any(n == "ball_started" for n in seen):
                for i, d in enumerate(run.devs):
                    if d["ev"] is None and en[i]:
                        return "rule-after-%s:%s" % (op[1], self.cls(i)), {"op": op, "device": i}
        return None


# ---------------------------------------------------------------------------------------------------------------- case
def run_ops(devs, game, ops, model=None, ctx=None, case=None):
    """returns (signature, detail, stats) of the first oracle failure, or (None, None, stats)"""
    run = Run(devs, game)
    try:
        run.start()
    except BootError as e:
        return "boot", {"error": str(e)[:300]}, {}
    stats = {"writes": 0, "clears": 0}
    try:
        orc = Oracle(run)
        feed = ModelFeed(model, run) if model is not None else None
        prev_t = []
        for at, op in enumerate(ops):
            before = [o._enabled for o in run.objs]
            hits_before = {id(o): len(o._timeout_hits) for d, o in zip(devs, run.objs) if d["t"] != "F"}
            sw_before = run.sw_state.get(op[1]) if op[0] == "sw" else None
            res = run.do(op)
            if op[0] == "sw":
                run.sw_state[op[1]] = op[2]
            t = run.table()
            prev_rows = prev_t
            stats["writes"] += len([x for x in t if x not in prev_t])
            stats["clears"] += len([x for x in prev_t if x not in t])
            prev_t = t
            if ctx is not None:
                ctx.count("op_" + op[0] + (":" + op[1] if op[0] == "game" else ""))
                ctx.count("res_" + res.split(":")[0])
                for _, n in run.events:
                    ctx.count("life_" + n)
                if op[0] == "sw" and any(c[0] == 1 for c in run.cmds):
                    ctx.count("branch_soft_eos_repulse_enable")
                if op[0] == "sw" and any(d["t"] != "F" and "_timeout_enable_delay" in o.delay.delays
                                         for d, o in zip(devs, run.objs)) and run.calls:
                    ctx.count("branch_timeout_protection_tripped")
                if op[0] == "sw" and op[2] == 1:
                    for d, o in zip(devs, run.objs):
                        if d["t"] != "F" and d["sw"] == op[1] and d["watch"] and o._enabled and o._timeout_hits:
                            now = run.vm.now()
                            if any(t < now for t in o._timeout_hits):
                                ctx.count("branch_hit_counted_from_earlier_instant")
                            if len(o._timeout_hits) == 1 and hits_before.get(id(o), 0) >= 1:
                                ctx.count("branch_earlier_hits_outside_window")
                if op[0] == "advance" and run.calls:
                    ctx.count("branch_timer_changed_rules")
                for row in t:
                    if row not in prev_rows:
                        ctx.count("rule_written_kind_%d" % row[2])
                        if row[2] == 5:
                            ctx.count("branch_delayed_pulse_rule_written")
                        if row[10]:
                            ctx.count("branch_rule_with_hardware_repulse_settings")
                        if row[3]:
                            ctx.count("branch_rule_with_inverted_switch")
                        if row[4] or row[8]:
                            ctx.count("branch_rule_with_debounce_or_recycle")
                        dd = devs[row[1] // 2]
                        if dd["t"] == "F" and dd.get("power") and run.write_factor.get(row[1] // 2, 1000) != 1000:
                            ctx.count("branch_rule_pulse_scaled_by_setting")
                for j, (dd, o) in enumerate(zip(devs, run.objs)):
                    if dd["t"] == "F" and dd.get("power") and o._enabled and run.write_factor.get(j, 1000) != run.factor:
                        ctx.count("observed_outside_property_rule_keeps_old_power_setting")
                if op[0] in ("sw_flip", "sw_release") and not before[op[1]]:
                    ctx.count("branch_%s_while_disabled" % op[0])
                if op[0] == "search":
                    ctx.count("branch_search_phase_%d" % (op[2] if len(op) > 2 else 1))
                if op[0] in ("enable", "disable") and before[op[1]] == (op[0] == "enable"):
                    ctx.count("branch_repeated_" + op[0])
                if op[0] == "disable" and devs[op[1]]["t"] != "F" and any(x.startswith("-") is False for x in [run.dev_state(op[1]).split("/")[1]]) is False:
                    pass
            fired = run.collect_delayed()
            if ctx is not None and fired:
                ctx.count("branch_delayed_request_fired", len(fired))
                if any(a == "enable" and orc.off[j] for _, j, a in fired):
                    ctx.count("branch_delayed_enable_after_disable")
            bad = orc.check(op, res, before, fired)
            if bad:
                return bad[0], bad[1], stats
            if feed is not None and feed.synced and not res.startswith("crash"):
                single = op[0] == "enable" and op[2] == "api"
                if res.startswith("refused") and not single:
                    feed.synced = False       # an event with several handlers was cut short by the exception
                else:
                    mobs = feed.feed(op, sw_before, run.events, fired, run.now_ms())
                    if mobs is not None:
                        impl = run.observe()
                        impl["r"] = res.startswith("refused")
                        mobs["r"] = bool(mobs["r"])
                        ctx.compare(dict(case, what="state after op", op=op, at=at), impl, mobs)
                    elif ctx is not None:
                        ctx.count("unsynced_coincidence")
                        ctx.notes.setdefault("coincidence_examples", [])
                        if len(ctx.notes["coincidence_examples"]) < 4:
                            ctx.notes["coincidence_examples"].append([op, repr(getattr(feed, "why", None))])
            if run.dead:
                break
        return None, None, stats
    finally:
        run.stop()


def run_case(ctx, devs, game, ops, model, sample=True):
    case = {"game": game, "devs": devs, "ops": ops}
    sig, detail, stats = run_ops(devs, game, ops, model, ctx, case)
    if sig == "boot":
        ctx.count("config_rejected")
        ctx.notes.setdefault("config_rejected_examples", [])
        if len(ctx.notes["config_rejected_examples"]) < 3:
            ctx.notes["config_rejected_examples"].append(detail["error"])
        ctx.evaluated(case, False, sample=False)
        return
    ctx.evaluated(case, stats.get("writes", 0) > 0 and stats.get("clears", 0) > 0, sample=sample)
    for d in devs:
        ctx.count("dev_" + (d.get("variant") or d["t"]) + ("+fail" if d["fail"] else ""))
    if sig is not None:
        def fails(cand):
            s, _, _ = run_ops(devs, game, cand)
            return s == sig
        small = ddmin(ops, fails, max_tests=60)
        s2, d2, _ = run_ops(devs, game, small)
        if s2 == sig:
            ops, detail = small, d2
        ctx.fail(sig, {"game": game, "devs": devs, "ops": ops}, detail)


def gen_case(r, game):
    devs = gen_devs(r, game)
    return devs, gen_ops(r, devs, game)


def gen_eos_case(r):
    """directed stream: flippers with EOS switch and software repulse; button / EOS cycles around enable and disable"""
    devs = []
    for i in range(r.choice([1, 1, 2])):
        variant = r.choice(["single_eos", "dual_eos"])
        act = r.randrange(NSW)
        devs.append({"t": "F", "variant": variant, "act": act, "eos": r.choice([s for s in range(NSW) if s != act]),
                     "repulse": True, "eos_ms": r.choice([0, 250, 250]), "noswitch": False, "fail": None, "mo0": False,
                     "ho0": r.random() < 0.1, "search": r.random() < 0.5, "hold_ms": r.choice([250, 500]),
                     "power": r.random() < 0.5,
                     "mo": {"pulse_ms": None, "pulse_power": None, "hold_power": r.choice([None, None, 0.0625])},
                     "ho": {"pulse_ms": r.choice([None, None, 12]), "pulse_power": r.choice([None, 0.75])},
                     "hwrep": False,
                     "ev": [["d%d_on" % i, "ball_started"], ["d%d_off" % i, "ball_will_end", "service_mode_entered"]]})
    if r.random() < 0.15:      # the same button / EOS cycles on a platform that repulses in hardware: no manager at all
        for d in devs:
            d["hwrep"] = True
    ops = []
    if r.random() < 0.7:     # one full repulse cycle first; the random tail starts with the coil possibly enabled by it
        d = devs[0]
        ops += [["enable", 0, r.choice(["api", "event"])], ["sw", d["act"], 1], ["sw", d["eos"], 1],
                ["advance", r.choice([1, 2, 3, 4])], ["sw", d["eos"], 0]]
        if r.random() < 0.5:   # ... and the EOS closes again for the debounce time while the repulse holds the coil
            ops += [["sw", d["eos"], 1], ["advance", r.choice([1, 2, 3, 4])]]
            if r.random() < 0.5:
                ops.append(r.choice([["disable", 0, "api"], ["disable", 0, "event"], ["ev", "ball_will_end"]]))
    for _ in range(r.randint(4, 20)):
        i = r.randrange(len(devs))
        d = devs[i]
        k = r.random()
        if k < 0.15:
            ops.append(["enable", i, r.choice(["api", "event"])])
        elif k < 0.27:
            ops.append(r.choice([["disable", i, "api"], ["disable", i, "event"], ["ev", "ball_will_end"],
                                 ["ev", "service_mode_entered"]]))
        elif k < 0.42:
            ops.append(["sw", d["act"], r.choice([1, 1, 0])])
        elif k < 0.72:
            ops.append(["sw", d["eos"], r.choice([0, 1])])
        elif k < 0.8:
            ops.append(r.choice([["sw_flip", i, "api"], ["sw_release", i, "api"], ["search", i]]))
            if ops[-1][0] == "search" and not d["search"]:
                ops.pop()
        elif k < 0.85 and d["power"]:
            ops.append(["setting", r.choice([0.8, 1.0, 1.2])])
        else:
            ops.append(["advance", r.choice([1, 2, 2, 3, 4])])
    return devs, ops


def gen_window_case(r):
    """directed stream: autofire / kickback timeout protection with hits at one instant, 125 ms and 250 ms apart, for
    watch times whose *actual* window (watch/1000 ms in the code) is below, at and above 125 ms"""
    kick = r.random() < 0.3
    d = {"t": "K" if kick else "A", "sw": 2, "nc": False, "reverse": False, "pulse_ms": None, "pulse_power": None,
         "recycle": None, "debounce": None, "fail": None, "watch": r.choice([1000, 125000, 130000, 200000, 300000]),
         "max_hits": r.choice([2, 2, 3]), "dis_ms": r.choice([0, 250, 500]), "order": r.choice([0, 100]),
         "self_disable": False, "ev": [["d0_on", "ball_started"], ["d0_off", "ball_will_end"]]}
    ops = [["enable", 0, r.choice(["api", "event"])]]
    for _ in range(r.randint(4, 14)):
        k = r.random()
        if k < 0.55:
            ops += [["sw", 2, 1], ["sw", 2, 0]]
        elif k < 0.85:
            ops.append(["advance", r.choice([1, 1, 1, 2, 2, 3, 4])])
        elif k < 0.93:
            ops.append(r.choice([["disable", 0, "api"], ["ev", "ball_will_end"], ["enable", 0, "api"]]))
        elif d["order"]:
            ops.append(["search", 0])
    return [d], ops


DIRECTED = [
    # software EOS repulse re-enables the coil, then the flipper is disabled with the button still held
    ([{"t": "F", "variant": "single_eos", "act": 0, "eos": 1, "repulse": True, "eos_ms": 250, "noswitch": False, "fail": None,
       "mo0": False, "ho0": False, "search": True, "hold_ms": 500, "ev": [["d0_on"], ["d0_off", "ball_will_end"]]}],
     [["enable", 0, "event"], ["sw", 0, 1], ["sw", 1, 1], ["advance", 4], ["sw", 1, 0], ["ev", "ball_will_end"], ["sw", 0, 0]]),
    # ... the EOS closes again for the debounce time while the repulse holds the coil; then the flipper is disabled
    ([{"t": "F", "variant": "single_eos", "act": 0, "eos": 1, "repulse": True, "eos_ms": 250, "noswitch": False, "fail": None,
       "mo0": False, "ho0": False, "search": True, "hold_ms": 500, "ev": [["d0_on"], ["d0_off", "ball_will_end"]]}],
     [["enable", 0, "event"], ["sw", 0, 1], ["sw", 1, 1], ["advance", 4], ["sw", 1, 0], ["sw", 1, 1], ["advance", 4],
      ["ev", "ball_will_end"], ["sw", 0, 0], ["enable", 0, "api"], ["sw", 1, 0], ["disable", 0, "api"]]),
    # dual-wound flipper whose hold coil may not be enabled: second rule refused
    ([{"t": "F", "variant": "dual", "act": 0, "eos": None, "repulse": False, "eos_ms": 0, "noswitch": False, "fail": "hold",
       "mo0": False, "ho0": False, "search": False, "hold_ms": 500, "ev": [["d0_on"], ["d0_off"]]}],
     [["enable", 0, "api"], ["disable", 0, "api"], ["enable", 0, "api"]]),
    # autofire whose overwrite exceeds the coil limit, then disabled
    ([{"t": "A", "sw": 2, "nc": False, "reverse": False, "pulse_ms": 100, "pulse_power": None, "recycle": None, "debounce": None,
       "fail": "limit", "watch": 0, "max_hits": 0, "dis_ms": 0, "order": 100, "self_disable": False, "ev": [["d0_on"], ["d0_off"]]}],
     [["enable", 0, "api"], ["disable", 0, "api"]]),
    # timeout protection, then disable while the re-enable delay is pending
    ([{"t": "A", "sw": 2, "nc": False, "reverse": False, "pulse_ms": None, "pulse_power": None, "recycle": None, "debounce": None,
       "fail": None, "watch": 1000, "max_hits": 2, "dis_ms": 500, "order": 100, "self_disable": False,
       "ev": [["d0_on"], ["d0_off", "ball_will_end"]]}],
     [["enable", 0, "api"], ["sw", 2, 1], ["sw", 2, 0], ["sw", 2, 1], ["sw", 2, 0], ["advance", 2], ["ev", "ball_will_end"],
      ["advance", 8], ["enable", 0, "api"], ["sw", 2, 1], ["sw", 2, 0], ["sw", 2, 1], ["advance", 4], ["advance", 1]]),
]


def run(ctx):
    model = None if getattr(ctx, "model_unavailable", False) else leanproc.LeanProc(ID)
    try:
        for devs, ops in DIRECTED:
            run_case(ctx, devs, False, ops, model)
        for i in range(ctx.n(400, 5000)):
            r = ctx.rng("direct", i)
            devs, ops = gen_case(r, False)
            run_case(ctx, devs, False, ops, model)
        for i in range(ctx.n(130, 1200)):
            devs, ops = gen_eos_case(ctx.rng("eos", i))
            run_case(ctx, devs, False, ops, model)
        for i in range(ctx.n(70, 800)):
            devs, ops = gen_window_case(ctx.rng("window", i))
            run_case(ctx, devs, False, ops, model)
        for i in range(ctx.n(140, 1200)):
            r = ctx.rng("game", i)
            devs, ops = gen_case(r, True)
            run_case(ctx, devs, True, ops, model)
    finally:
        if model is not None:
            model.close()


def replay(ctx, rep):
    c = rep.get("case")
    if c is None:       # a correspondence / proof replay names no failing input: re-run the oracle on its first case
        dis = (rep.get("broken") or {}).get("correspondence") or []
        if not dis:
            return
        c = dis[0]["case"]
    for o in c["ops"]:
        if o[0] == "setting":
            o[1] = float(o[1])
    sig, detail, _ = run_ops(c["devs"], c["game"], c["ops"])
    if sig is not None and sig != "boot":
        ctx.fail(sig, c, detail)
