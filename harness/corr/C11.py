"""C11 - player state is isolated per player and restored on their next turn.

Implementation side: real multi-player games (MpfFakeGameTestCase scaffolding, 1-4 players) with a game mode - started
with every ball or only by request (configuration choice) - that holds a persisting counter, a non-persisting counter, a
persisting accrual (list-valued) and sequence with reset / restart events, shots with a profile, a shot group, a
persisted enable flag, two achievements and a timer (start / stop / timed pause / pause / add / subtract / jump / reset /
restart, optionally running from the start and with an end value); player variables set through Player.__setitem__ and
Player.__setattr__ and through variable_player (add / set, int / string, explicit `player:` targets, add_machine /
set_machine); extra balls; early game end; late joins; virtual time passes after every op and in explicit waits, with
turn changes placed inside the timer's pause windows.
Every `player_<var>` event is captured with its arguments; every player's vars dict is read after every op.
Model side: MpfVerif.Model.Player (per-player dictionaries, device pointer, device-local timer state, machine
variables) through the compiled driver drv_c11.
Oracle (independent of the model): per-player shadow dictionaries kept by the harness, device snapshots per player,
object identity of every mutable state object (incl. the accrual's list) across players.
"""
import gc

from harness.common import leanproc
from harness.common.shrink import ddmin
from harness.common.util import InfraError
from harness.common.pool_c20c11 import CaseTimeout, watchdog
from harness.common.vmachine import VMachine, BootError

ID = "C11"
LEAN_MODULES = ["MpfVerif.Props.C11"]
PROPS_FILE = "MpfVerif/Props/C11.lean"
GEN = []
MANIFEST = {
    "text": "Proof on a Lean model of the player store (one variable dictionary per player, Player.__setattr__ with its change event), of machine variables, and of an arbitrary list of persisting game-mode devices, each abstractly given by its player-variable key, fresh state, load rule, reaction to control events, reaction to the passing of one time unit and device-local state (for a timer: running, time to the next tick, time to the end of a timed pause), which only point into the current player's dictionary between mode start and mode stop: every request (variable set/add, any device control event, shot-group rotation, the passing of any amount of time, machine-variable set/add, player add, mode stop/start, ball drain with or without extra ball) leaves the whole dictionary of every player who is not up unchanged, single step and over whole histories - the one request that is meant to write to somebody else, a variable_player entry with an explicit `player:`, changes exactly the named player and its event carries that player's number; while no game mode runs the passing of time changes nothing at all and after a stop request / game end / a drain without automatic restart nothing points into any player (a timer in a timed pause cannot come back bound to the previous player); a stop of the game mode whose mode_<n>_stopping queue event is held by a handler (an outro) keeps the mode running bound to the player who is up, a ball end behind it changes nothing at all until the release - the game does not move on to the next player while the old mode is still active - and the release stops the mode and then lets the ball end take place exactly as for a stopped mode (hold invariant over all histories, restore after the release); every player_<var> event posted because a device wrote its state (the timer's tick variable at load, on add / subtract / jump / reset and on every tick) carries the number of the player who is up; when a ball starts - or when the mode is started by request at any later time - every device presents load(state stored under its key by the player now up) or its fresh state - one theorem over the device list, keys pairwise distinct; a new game / an added player starts from the configured initial values and fresh device states regardless of what an earlier game left; machine-scope entries touch no player and nothing else touches machine variables; a variable assignment emits exactly one event with value, previous value, change and the owner's player number iff it changed or is new. The model is instantiated with the device kinds of the property (logic-block counter, accrual with its list-valued progress, sequence, each with reset/restart; shot and profile state, shot group rotation, persisted enable flag, achievements with and without restart-on-next-ball, a timer with start/stop/timed pause/pause/add/subtract/jump/reset/restart, start_running and end value) and tied to player.py / logic_blocks.py / shot.py / shot_group.py / enable_disable_mixin.py / achievement.py / timer.py / variable_player.py / game.py by a correspondence run on real 1-4 player games in virtual time on a 1/8 s grid (events with arguments, the timer's player_<mode>_<timer>_tick events with value / previous value / change / player number, every player's dictionary incl. every device key, the timer's running flag and the machine variable after every op; stop requests held on mode_m1_stopping across drains with device events, waits and variable changes before the release; turn changes inside pause windows; modes that start with the ball and modes started by request); per-player shadow dictionaries and shadow device states are kept independently by the harness, and object identity of every mutable per-player state object (logic-block states, the accrual's list, achievement entries) is compared across players after every op.",
    "note": "Trusted: Lean kernel + standard axioms; the hand-written Model/Player.lean (validated only by the differential run; nothing is machine-translated); the concrete load/act/tick rules of the device kinds in the driver are validated by correspondence, the theorems hold for any such rules. Values in the model are immutable copies, so sharing of a mutable state object between players cannot be expressed there: on the implementation it is checked by object identity after every op. The own-turn behaviour of timer, accrual and sequence is judged by the model comparison only (the oracle adopts what the player who is up has stored); isolation, restore, fresh start and event arguments are judged by the oracle. Timer ticks live in a player variable but restart from start_value with every mode start (timer.py device_loaded_in_mode): modelled as a constant load rule. A held mode_<n>_stopping queue event is released by an explicit request of the harness (never by a timer, so that no release races a tick at the same instant); while a ball end waits behind it the harness's variable_player mode has already ended, so variable_player requests are no-ops there (model line `wait 0`), and a game end behind a held stop is not generated. Device-variable events are compared argument by argument for the timer's tick variable; those of shots and the persisted enable flag are checked for their player number only (oracle). A held queue event during a turn change is modelled as instantaneous (the harness lets the extra time unit pass before it observes). Outside the model: ball holds and multiball locks (per-player locked-ball counts; they need ball devices), achievement groups, score queues (delayed adds block the ball end), shows of shots/achievements, float variables, tick-interval changes and count-down timers, variable_player conditions / blocks / subscriptions, the player monitor (compared with the events, counted only).",
    "technique": "Lean 4 theorems (frame lemmas over list updates, a fold lemma over the device list, induction over the op list) on a hand model + differential correspondence in virtual time and independent shadow-state / object-identity oracle on real multi-player games",
    "translated": False,
}
RULE = ("a case = initial player_vars (int and string), balls per game 1-3, counter goal 2-4, game mode started with every ball "
        "or only by request, timer running from the start or not, with or without end value, player monitor on/off + 10-60 ops "
        "(start game, add player, control events of a persisting counter, an accrual and a sequence (steps, reset, restart), "
        "three shots with a 3-state profile (hit / reset), shot group rotation, a persisted enable flag, two achievements "
        "(enable / start / complete / stop / disable / reset), a timer (add / jump / subtract / start / stop / timed pause / "
        "pause / reset / restart), waits of 1-24 time units, direct set of int/str/mixed-type variables by item and by "
        "attribute, variable_player add/set, with explicit player 1-4 (existing or not), add_machine/set_machine, extra "
        "ball award, ball drain (plain, or with a mode start request at one of nine lifecycle events, optionally holding "
        "the queue event), mode stop/start requests, stop requests whose mode_m1_stopping queue event is held until an explicit "
        "release (with drains, device events, waits and variable changes in between), turn changes inside the timer's pause window followed by waits, early "
        "game end, second game). non-trivial = at least two players and at least four ball starts; distinct = canonical "
        "JSON of (config, ops)")
TRUSTED = ["modelled, not verified: the game mode's ball/turn rotation, mode start/stop at ball start/end, event queue "
           "ordering (events are compared in the order the implementation posts them), Python object identity, shows; "
           "the asyncio clock (time is an input of the model: one unit = 1/8 s, deadlines are float-exact on that grid)",
           "Model/Player.lean is hand-written; tied to mpf/core/player.py, mpf/devices/{logic_blocks,shot,shot_group,"
           "achievement,timer}.py, mpf/core/enable_disable_mixin.py, mpf/config_players/variable_player.py and "
           "mpf/modes/game/code/game.py by correspondence; the held stop (Mode.stop / _stopped / _finish_stop, "
           "ModeController._ball_ending / _mode_stopped_callback) is modelled as two flags (hold, ending) and tied by "
           "correspondence and source pins"]
ASSUMPTIONS = ["player variables hold ints or strings (no floats, no containers other than the devices' own state objects); "
               "`add` is only applied to int variables",
               "a variable_player entry with an explicit `player:` is meant to change that player (frame excludes exactly "
               "that player for that request); with a player number that does not exist the code writes to the player "
               "who is up - followed by the model, reported as an observation",
               "device keys are pairwise distinct and differ from `ball` / `extra_balls` (KeysOK)",
               "timers count up with a fixed tick interval; no two different timers of the machine are due at the same "
               "instant (one timer, pause and tick never pending together)",
               "at most one handler holds mode_<n>_stopping and it releases it at an instant at which no timer is due; no "
               "game end is requested behind a held stop"]

INT_VARS = ["pa", "score", "nv"]          # nv is not configured: created on first use
ADD_VALUES = [1, 10, -3, 0, 100]
SET_VALUES = [0, 5, 7, -2]
STR_VALUES = ["abc", "xyz", "q"]
TRACK = ["index", "number", "pa", "ps", "score", "nv", "mx", "ball", "extra_balls"]
TICK_UNITS = 4          # tick_interval 500 ms = 4 time units of 1/8 s
PAUSE_UNITS = 8         # the timed pause: 1 s
P_ADD = [10, -3]        # variable_player entries with an explicit `player:` (1-4): add / set on pa and score
P_SET = [5]
P_VARS = ["pa", "score"]
M_ADD = [1, 5]          # add_machine / set_machine on machine variable `mvar`
M_SET = [0, 7]

# the persisting devices of the game mode, in the order the model knows them (index = device number of the model):
# (model line, player-variable key, control events in code order)
DEVICES = [
    ("counter cp_state %(goal)d", "cp_state", ["hit_c"]),
    ("shot shot_sh1 3", "shot_sh1", ["go_sh1", "rst_sh1"]),
    ("shot shot_sh2 3", "shot_sh2", ["go_sh2"]),
    ("shot shot_sh3 3", "shot_sh3", ["go_sh3"]),
    ("flag shot_shf_enabled", "shot_shf_enabled", ["shf_on", "shf_off"]),
    ("ach achievements.a_keep 1", "achievements.a_keep",
     ["ak_enable", "ak_start", "ak_complete", "ak_stop", "ak_disable", "ak_reset"]),
    ("ach achievements.a_stop 0", "achievements.a_stop",
     ["as_enable", "as_start", "as_complete", "as_stop", "as_disable", "as_reset"]),
    ("timer m1_tm_tick 0 %(tm_run)d %(tm_end)d 4 8", "m1_tm_tick",
     ["tm_add", "tm_jump", "tm_sub", "tm_start", "tm_stop", "tm_pause", "tm_pause0", "tm_reset", "tm_restart"]),
    ("accrual ap_state 3", "ap_state", ["acc_0", "acc_1", "acc_2", "acc_reset", "acc_restart"]),
    ("sequence sp_state 3", "sp_state", ["seq_0", "seq_1", "seq_2", "seq_reset", "seq_restart"]),
]
TIMER = 7
DEV_KEYS = [d[1] for d in DEVICES]
MODEL_DEV_EVENTS = ["m1_tm_tick"]      # device variables whose events are compared with the model argument by argument
DEV_EVENT_VARS = ["shot_sh1", "shot_sh2", "shot_sh3", "shot_shf_enabled", "shot_sh1_enabled", "m1_tm_tick"]


# lifecycle events of a ball end / turn change at which a start request for the game mode can arrive
POS_BEFORE = ["ball_ended", "player_turn_will_end", "player_turn_ending"]          # ball over, turn not yet over
POS_WINDOW = ["player_turn_ended", "player_turn_will_start", "player_turn_starting"]  # nobody is up
POS_AFTER = ["player_turn_started", "ball_will_start", "ball_starting"]              # the next player is up
POSITIONS = POS_BEFORE + POS_WINDOW + POS_AFTER
CASE_SECONDS = 30


def vp_add(k, d):
    return "vp_add_%s_%s" % (k, str(d).replace("-", "m"))


def vp_set(k, v):
    return "vp_set_%s_%s" % (k, str(v).replace("-", "m"))


def vp_p(kind, n, k, v):
    return "vpp_%s%d_%s_%s" % (kind, n, k, str(v).replace("-", "m"))


def vp_m(kind, v):
    return "vpm_%s_%s" % (kind, v)


def build(cfg):
    main = ["modes:", "  - m1", "  - mv", "game:", "  balls_per_game: %d" % cfg["bpg"], "  max_players: 4",
            "switches:", "  s_start:", "    number: 1", "    tags: start",
            "player_vars:", "  pa:", "    initial_value: %d" % cfg["pa"], "    value_type: int",
            "  ps:", "    initial_value: %s" % cfg["ps"], "    value_type: str"]
    mode = ["mode:", "  start_events: %sstart_m1" % ("ball_started, " if cfg["auto"] else ""), "  stop_events: stop_m1",
            "  priority: 200", "counters:",
            "  cp:", "    count_events: hit_c", "    count_complete_value: %d" % cfg["goal"], "    persist_state: true",
            "    reset_on_complete: false", "    disable_on_complete: true",
            "  cn:", "    count_events: hit_c", "    count_complete_value: %d" % cfg["goal"], "    persist_state: false",
            "    reset_on_complete: false", "    disable_on_complete: true",
            "accruals:", "  ap:", "    events: acc_0, acc_1, acc_2", "    persist_state: true",
            "    reset_on_complete: false", "    disable_on_complete: true", "    reset_events: acc_reset",
            "    restart_events: acc_restart",
            "sequences:", "  sp:", "    events: seq_0, seq_1, seq_2", "    persist_state: true",
            "    reset_on_complete: false", "    disable_on_complete: true", "    reset_events: seq_reset",
            "    restart_events: seq_restart",
            "shot_profiles:", "  prof3:", "    loop: false", "    states:", "      - name: unlit", "      - name: lit",
            "      - name: done",
            "shots:",
            "  sh1:", "    profile: prof3", "    hit_events: go_sh1", "    reset_events: rst_sh1",
            "  sh2:", "    profile: prof3", "    hit_events: go_sh2",
            "  sh3:", "    profile: prof3", "    hit_events: go_sh3",
            "  shf:", "    profile: prof3", "    enable_events: shf_on", "    disable_events: shf_off",
            "shot_groups:", "  sg:", "    shots: sh2, sh3", "    rotate_right_events: sg_rot",
            "achievements:"]
    for name, pre, restart in (("a_keep", "ak", "true"), ("a_stop", "as", "false")):
        mode += ["  %s:" % name, "    enable_events: %s_enable" % pre, "    start_events: %s_start" % pre,
                 "    complete_events: %s_complete" % pre, "    stop_events: %s_stop" % pre,
                 "    disable_events: %s_disable" % pre, "    reset_events: %s_reset" % pre,
                 "    restart_on_next_ball_when_started: %s" % restart]
    mode += ["timers:", "  tm:", "    start_value: 0", "    tick_interval: 500ms",
             "    start_running: %s" % ("true" if cfg["tm_run"] else "false")]
    if cfg["tm_end"] >= 0:
        mode += ["    end_value: %d" % cfg["tm_end"]]
    mode += ["    control_events:",
             "      - event: tm_add", "        action: add", "        value: 2",
             "      - event: tm_jump", "        action: jump", "        value: 7",
             "      - event: tm_sub", "        action: subtract", "        value: 1",
             "      - event: tm_start", "        action: start",
             "      - event: tm_stop", "        action: stop",
             "      - event: tm_pause", "        action: pause", "        value: 1",
             "      - event: tm_pause0", "        action: pause",
             "      - event: tm_reset", "        action: reset",
             "      - event: tm_restart", "        action: restart"]
    main = main   # (variable_player must live in a game mode: its own mode `mv`, which the harness never stops)
    mv = ["mode:", "  start_events: ball_started", "  priority: 150", "variable_player:"]
    for k in INT_VARS:
        for d in ADD_VALUES:
            mv += ["  %s:" % vp_add(k, d), "    %s:" % k, "      int: %d" % d]
        for v in SET_VALUES:
            mv += ["  %s:" % vp_set(k, v), "    %s:" % k, "      int: %d" % v, "      action: set"]
    for v in STR_VALUES:
        mv += ["  %s:" % vp_set("ps", v), "    ps:", "      string: %s" % v, "      action: set"]
    for n in (1, 2, 3, 4):
        for k in P_VARS:
            for d in P_ADD:
                mv += ["  %s:" % vp_p("add", n, k, d), "    %s:" % k, "      int: %d" % d, "      player: %d" % n]
            for v in P_SET:
                mv += ["  %s:" % vp_p("set", n, k, v), "    %s:" % k, "      int: %d" % v, "      action: set",
                       "      player: %d" % n]
    for d in M_ADD:
        mv += ["  %s:" % vp_m("add", d), "    mvar:", "      int: %d" % d, "      action: add_machine"]
    for v in M_SET:
        mv += ["  %s:" % vp_m("set", v), "    mvar:", "      int: %d" % v, "      action: set_machine"]
    return "\n".join(main) + "\n", "\n".join(mode) + "\n", "\n".join(mv) + "\n"


def gen_cfg(r):
    return {"bpg": r.choice([1, 2, 2, 3]), "goal": r.choice([2, 3, 4]), "pa": r.choice([0, 5, -1]),
            "ps": r.choice(["abc", "xyz"]), "auto": r.random() < 0.6, "tm_run": int(r.random() < 0.5),
            "tm_end": r.choice([-1, -1, 12, 9]), "monitor": r.random() < 0.3}


def gen_dev_op(r):
    d = r.choice([0, 0, 1, 1, 1, 2, 3, 4, 4, 5, 5, 6, 6, 6, 7, 7, 7, 7, 8, 8, 8, 9, 9, 9])
    n = len(DEVICES[d][2])
    if d in (5, 6):
        code = r.choice([0, 0, 1, 1, 2, 3, 4, 5])      # mostly along enable -> start -> complete / stop
    elif d == 1:
        code = r.choice([0, 0, 0, 1])
    elif d == TIMER:
        code = r.choice([0, 1, 2, 3, 3, 3, 4, 5, 5, 5, 6, 7, 8])
    elif d == 8:
        code = r.choice([0, 1, 2, 0, 1, 2, 0, 1, 2, 3, 4])
    elif d == 9:
        code = r.choice([0, 1, 2, 0, 1, 2, 3, 4]) if r.random() < 0.4 else ("next",)
    else:
        code = r.randrange(n)
    return ["dv", d, code]


def gen_ops(r, cfg=None):
    auto = cfg is None or cfg["auto"]
    ops = [["start"]]
    for _ in range(r.choice([0, 1, 1, 2, 3])):
        ops.append(["addplayer"])
    if not auto:
        ops.append(["mstart"])
    n = r.randint(10, 60)
    seqpos = [0]

    def dev_op():
        o = gen_dev_op(r)
        if o[2] == ("next",):           # walk the sequence in order (most of the time)
            o[2] = seqpos[0] % 3
            seqpos[0] += 1
        return o

    def turn_change():
        k2 = r.random()
        if k2 < 0.45:
            ops.append(["drainw", r.choice(POSITIONS), r.random() < 0.5])
            for _ in range(r.randint(0, 3)):
                ops.append(dev_op())
        else:
            ops.append(["drain"])
        if not auto and r.random() < 0.7:
            for _ in range(r.choice([0, 0, 1, 3])):
                ops.append(["wait", r.choice([1, 3, 7, 8, 12, 20])])
            ops.append(["mstart"])

    def held_stop():
        # a stop request for the game mode whose mode_m1_stopping queue event is held (an outro), mostly with the ball
        # draining shortly afterwards - the hold outlasting the drain - and requests arriving before the release
        ops.append(["mstoph"])
        for _ in range(r.choice([0, 0, 1, 2])):
            ops.append(["wait", r.choice([1, 2, 4, 5])] if r.random() < 0.4 else dev_op())
        if r.random() < 0.75:
            ops.append(["drain"] if r.random() < 0.8 else ["drainw", r.choice(POSITIONS), r.random() < 0.5])
            for _ in range(r.choice([0, 1, 2, 3, 5])):
                k3 = r.random()
                ops.append(dev_op() if k3 < 0.6 else ["wait", r.choice([1, 3, 4, 8, 9])] if k3 < 0.8 else
                           ["add", r.choice(INT_VARS), r.choice(ADD_VALUES)] if k3 < 0.87 else
                           [r.choice(["set", "seta"]), r.choice(INT_VARS), r.choice(SET_VALUES)])
        if r.random() < 0.9:
            ops.append(["mrel"])
            if not auto and r.random() < 0.7:
                ops.append(["mstart"])

    for _ in range(n):
        k = r.random()
        if k < 0.30:
            ops.append(dev_op())
        elif k < 0.36:
            # a timed pause (or a running timer) with the ball / the mode ending inside the pause window, then time passes
            ops.append(["dv", TIMER, r.choice([3, 5, 5, 5, 8])])
            for _ in range(r.choice([0, 0, 1, 2])):
                ops.append(["wait", r.choice([1, 2, 3, 5])] if r.random() < 0.5 else dev_op())
            if r.random() < 0.75:
                if r.random() < 0.2:
                    ops.append(["mstop"])
                else:
                    turn_change()
                for _ in range(r.choice([1, 2, 3])):
                    ops.append(["wait", r.choice([2, 4, 6, 7, 8, 9, 12, 16])])
        elif k < 0.42:
            ops.append(["wait", r.choice([1, 2, 3, 4, 5, 7, 8, 9, 15, 24])])
        elif k < 0.45:
            ops.append(["rot"])
        elif k < 0.52:
            ops.append(["add", r.choice(INT_VARS), r.choice(ADD_VALUES)])
        elif k < 0.56:
            ops.append(["vset", r.choice(INT_VARS), r.choice(SET_VALUES)])
        elif k < 0.58:
            ops.append(["vset", "ps", r.choice(STR_VALUES)])
        elif k < 0.62:
            ops.append([r.choice(["set", "seta"]), r.choice(INT_VARS), r.choice(SET_VALUES + [1, 1000])])
        elif k < 0.64:
            ops.append([r.choice(["set", "seta"]), "ps", r.choice(STR_VALUES + [""])])
        elif k < 0.67:
            ops.append(["set", "mx", r.choice([0, 3, "a", "b", ""])])       # a variable whose type changes
        elif k < 0.71:
            if r.random() < 0.5:
                ops.append(["addp", r.choice([1, 1, 2, 2, 3, 4]), r.choice(P_VARS), r.choice(P_ADD)])
            else:
                ops.append(["setp", r.choice([1, 1, 2, 2, 3, 4]), r.choice(P_VARS), r.choice(P_SET)])
        elif k < 0.73:
            ops.append(["madd", r.choice(M_ADD)] if r.random() < 0.6 else ["mset", r.choice(M_SET)])
        elif k < 0.77:
            ops.append(["extra"])
        elif k < 0.80:
            ops.append([r.choice(["mstop", "mstart", "mstart"])])
        elif k < 0.895:
            turn_change()
        elif k < 0.935:
            held_stop()
        elif k < 0.94:
            ops.append(["mrel"])
        elif k < 0.96:
            ops.append(["addplayer"])
        elif k < 0.98:
            ops.append(["endgame"])
        else:
            ops.append(["start"])
            if not auto:
                ops.append(["mstart"])
    return ops


def tok(v):
    if isinstance(v, bool):
        return "T" if v else "F"
    if isinstance(v, int):
        return "i%d" % v
    if isinstance(v, str):
        return "s" + v.encode().hex()
    if isinstance(v, tuple) and len(v) == 3 and isinstance(v[0], (list, tuple)):
        return "a%s/%d/%d" % ("".join("1" if x else "0" for x in v[0]), 1 if v[1] else 0, 1 if v[2] else 0)
    if isinstance(v, tuple) and len(v) == 3:
        return "b%s/%d/%d" % (v[0], 1 if v[1] else 0, 1 if v[2] else 0)
    return "?" + type(v).__name__


VP_OPS = ("add", "vset", "addp", "setp", "madd", "mset")     # requests that go through the variable_player of mode `mv`


def model_line(op, fired=None, held=False, ended=False):
    k = op[0]
    if ended and k in VP_OPS:
        return "wait 0"         # the mode holding the variable_player entries has ended with the ball: nobody listens
    if k in ("start", "addplayer", "drain", "endgame"):
        return k
    if k == "mstop":
        return "modestop"
    if k == "mstart":
        return "modestart"
    if k == "mstoph":
        return "modestophold"
    if k == "mrel":
        return "release"
    if k == "drainw":
        if fired in POS_AFTER:
            # the mode starts where the request arrives; a held queue event there is released one time unit later
            return "drainposthold" if held else "drainpost"
        return "drainpre" if fired in POS_BEFORE else "drain"
    if k == "wait":
        return "wait %d" % op[1]
    if k == "addp":
        return "addp %d %s %d" % (op[1] - 1, op[2], op[3])
    if k == "setp":
        return "setp %d %s %s" % (op[1] - 1, op[2], tok(op[3]))
    if k == "madd":
        return "addmachine mvar %d" % op[1]
    if k == "mset":
        return "setmachine mvar %s" % tok(op[1])
    if k in ("set", "vset", "seta"):
        return "set %s %s" % (op[1], tok(op[2]))
    if k == "add":
        return "add %s %d" % (op[1], op[2])
    if k == "extra":
        return "add extra_balls 1"
    if k == "dv":
        return "dev %d %d" % (op[1], op[2])
    if k == "rot":
        return "swap 2 3"
    raise InfraError("no model line for op %r" % (op,))


def blk_tuple(st):
    v = st.value
    return (tuple(v) if isinstance(v, list) else v, bool(st.enabled), bool(st.completed))


def stored(p, key):
    """the state a player's dictionary holds under a device key (None = nothing stored)"""
    if key.startswith("achievements."):
        a = p.vars.get("achievements") or {}
        e = a.get(key.split(".", 1)[1])
        return None if e is None else e[0]
    v = p.vars.get(key)
    if key.endswith("_state") and v is not None:
        return blk_tuple(v)
    return v


FRESH = {"cp_state": (0, True, False), "shot_sh1": 0, "shot_sh2": 0, "shot_sh3": 0, "shot_shf_enabled": False,
         "achievements.a_keep": "disabled", "achievements.a_stop": "disabled", "m1_tm_tick": 0,
         "ap_state": ((False,) * 3, True, False), "sp_state": (0, True, False)}


class Run:
    def __init__(self, cfg):
        self.cfg = cfg
        main, mode, mv = build(cfg)
        self.vm = VMachine(main, modes={"m1": mode, "mv": mv}, game=True)
        self.events = []
        self.dev_events = []
        self.dev_full = []

    def start(self):
        self.vm.start()
        self.vm.align()         # dyadic grid: tick and pause deadlines are float-exact
        m = self.m = self.vm.machine

        def _add_ball(**kwargs):
            m.playfield.balls += 1
            m.playfield.available_balls += 1
        m.playfield.add_ball = _add_ball
        m.ball_controller.num_balls_known = 3
        for name in TRACK:
            def h(_n=name, **kwargs):
                self.events.append((_n, kwargs.get("value"), kwargs.get("prev_value"), kwargs.get("change"),
                                    kwargs.get("player_num")))
            m.events.add_handler("player_" + name, h, priority=10 ** 6)
        for name in DEV_EVENT_VARS:
            def h2(_n=name, **kwargs):
                self.dev_events.append((_n, kwargs.get("value"), kwargs.get("player_num")))
                if _n in MODEL_DEV_EVENTS:
                    self.dev_full.append((_n, kwargs.get("value"), kwargs.get("prev_value"), kwargs.get("change"),
                                          kwargs.get("player_num")))
            m.events.add_handler("player_" + name, h2, priority=10 ** 6)
        self.monitor_calls = []
        if self.cfg.get("monitor"):
            from mpf.core.player import Player

            def mon(name, value, prev_value, change, player_num):
                self.monitor_calls.append((name, value, prev_value, change, player_num))
            m.register_monitor("player", mon)
            Player.monitor_enabled = True
        self.arm = None         # (lifecycle event, hold) for the next drain
        self.fired = None
        self.held = False
        self.binding = []       # (lifecycle event, mode active, mode.player is game.player) samples
        for ev in POSITIONS + ["ball_started"]:
            def lh(_ev=ev, queue=None, **kwargs):
                g, md = m.game, m.modes["m1"]
                if g is not None and md.active and not md.stopping and md.player is not g.player:
                    self.binding.append((_ev, None if md.player is None else md.player.number,
                                         None if g.player is None else g.player.number))
                if self.arm is not None and self.arm[0] == _ev:
                    hold = self.arm[1]
                    self.arm = None
                    self.fired = _ev
                    if hold and queue is not None:
                        # held for exactly one time unit: the release (and with it the next ball start) stays on the grid
                        queue.wait()
                        self.held = True
                        m.delay.add(ms=125, callback=queue.clear)
                    m.events.post("start_m1")
            m.events.add_handler(ev, lh, priority=2000000)
        self.mode_started_at = None
        self.in_pause_window = 0
        self.hold_arm = False       # the next mode_m1_stopping queue event is to be held
        self.held_q = None          # the held queue event (released by the op `mrel`, never by a timer: no same-instant race)
        self.end_behind_hold = 0    # ball ends requested while the stop of the game mode was held
        self.ending = False         # ... and one of them is waiting now

        def stopping_hook(queue=None, **kwargs):
            if self.hold_arm and queue is not None and self.held_q is None:
                self.hold_arm = False
                queue.wait()
                self.held_q = queue
        m.events.add_handler("mode_m1_stopping", stopping_hook, priority=2000000)

        def ms(**kwargs):
            self.mode_started_at = vm_now()
        vm_now = self.vm.now
        m.events.add_handler("mode_m1_started", ms, priority=10 ** 6)
        self.cn = m.counters["cn"]
        self.devobj = {"cp_state": m.counters["cp"], "shot_sh1": m.shots["sh1"], "shot_sh2": m.shots["sh2"],
                       "shot_sh3": m.shots["sh3"], "shot_shf_enabled": m.shots["shf"],
                       "achievements.a_keep": m.achievements["a_keep"], "achievements.a_stop": m.achievements["a_stop"],
                       "m1_tm_tick": m.timers["tm"], "ap_state": m.accruals["ap"], "sp_state": m.sequences["sp"]}
        return self

    def stop(self):
        if self.cfg.get("monitor"):
            from mpf.core.player import Player
            Player.monitor_enabled = False          # a class attribute: must not leak into the next case
        self.vm.stop()

    def settle(self):
        """run everything that is ready at this instant (chains of events, mode starts / stops) - time does not move"""
        loop = self.vm.tc.loop
        for _ in range(400):
            self.vm.run()
            if not loop._ready:
                return
        raise InfraError("the machine does not come to rest at one instant")

    def act(self, op):
        m, vm, tc = self.m, self.vm, self.vm.tc
        k = op[0]
        self.events = []
        self.dev_events = []
        self.dev_full = []
        self.fired = None
        self.held = False
        self.binding = []
        self.monitor_calls = []
        self.mode_started_at = None
        self.t0 = self.vm.now()
        if k in ("drain", "drainw", "mstop") and m.game is not None and m.game.player is not None and \
                m.modes["m1"].active and m.timers["tm"].delay.check("pause"):
            self.in_pause_window += 1           # the ball / the mode ends while a timed pause of the timer is pending
        try:
            if k in ("start", "addplayer"):
                if (k == "start" and m.game is not None) or (k == "addplayer" and m.game is None):
                    pass            # nothing to request - but time passes as after every op
                else:
                    vm.hit_switch("s_start", 1)
                    vm.hit_switch("s_start", 0)
            elif m.game is None or m.game.player is None:
                pass
            elif k == "set":
                m.game.player[op[1]] = op[2]                # Player.__setitem__
            elif k == "seta":
                setattr(m.game.player, op[1], op[2])        # Player.__setattr__
            elif k == "addp":
                vm.post(vp_p("add", op[1], op[2], op[3]))
            elif k == "setp":
                vm.post(vp_p("set", op[1], op[2], op[3]))
            elif k == "madd":
                vm.post(vp_m("add", op[1]))
            elif k == "mset":
                vm.post(vp_m("set", op[1]))
            elif k == "wait":
                self.settle()
                vm.advance(op[1] * 0.125)
            elif k == "vset":
                vm.post(vp_set(op[1], op[2]))
            elif k == "add":
                vm.post(vp_add(op[1], op[2]))
            elif k == "extra":
                m.game.player.extra_balls += 1
            elif k == "dv":
                vm.post(DEVICES[op[1]][2][op[2]])
            elif k == "rot":
                vm.post("sg_rot")
            elif k == "mstop":
                vm.post("stop_m1")
            elif k == "mstoph":
                # a stop request whose mode_m1_stopping queue event is held (an "outro") until the op `mrel`
                if self.held_q is None:
                    self.hold_arm = True
                    vm.post("stop_m1")
                    self.settle()
                    self.hold_arm = False
            elif k == "mrel":
                self.ending = False
                if self.held_q is not None:
                    q, self.held_q = self.held_q, None
                    q.clear()
            elif k == "mstart":
                vm.post("start_m1")
            elif k in ("drain", "drainw"):
                if self.held_q is not None:
                    self.end_behind_hold += 1       # the ball end has to wait for the held stop (no start request armed)
                    self.ending = True
                elif k == "drainw":
                    self.arm = (op[1], op[2])
                for _ in range(m.game.balls_in_play):
                    r = tc.post_relay_event_with_params("ball_drain", balls=1)
                    m.playfield.balls -= r["balls"]
                    m.playfield.available_balls -= r["balls"]
            elif k == "endgame":
                if m.game.player.extra_balls or self.held_q is not None:
                    return "skip"       # end_game() with an extra ball pending is C06's business (D20), not this property's;
                                        # nor is a game end behind a held mode stop
                m.game.end_game()
                self.settle()
                m.playfield.balls = 0
                m.playfield.available_balls = 0
            self.settle()
            vm.advance(0.125)
            self.settle()
            if self.held:
                # a held queue event is released one time unit later (the chain of the turn change continues then): one
                # more unit, so that the release is over when the op ends; the model sees the drain as one step
                vm.advance(0.125)
                self.settle()
            self.arm = None
            return None
        except CaseTimeout:
            raise
        except BaseException as e:
            return "crash:" + type(e).__name__

    def pointers(self):
        """(device, player number it points at) for every device of the active game mode that is bound to somebody"""
        out = []
        g = self.m.game
        if g is None:
            return out
        for key, d in self.devobj.items():
            if key.endswith("_state"):
                if d._state is not None:
                    who = [p.number for p in g.player_list if p.vars.get(key) is d._state]
                    out.append((key, who[0] if who else "nobody"))
            elif key.startswith("achievements."):
                if d._player is not None:
                    out.append((key, d._player.number))
            elif key == "m1_tm_tick" and not self.mode_on():
                # Timer.device_removed_from_mode stops the timer but keeps self.player: a stale reference of a stopped
                # timer, harmless as long as nothing of the timer survives the stop (time passing is checked by the
                # isolation oracle); not a binding of a running device
                self.stale_timer_player = d.player is not None
            elif d.player is not None:
                out.append((key, d.player.number))
        return out

    def cur(self):
        g = self.m.game
        return None if g is None or g.player is None else g.player.number

    def players(self):
        g = self.m.game
        return [] if g is None else list(g.player_list)

    def mode_on(self):
        return self.m.modes["m1"].active

    def presented(self, key):
        """what the device object itself shows (through its pointer into the current player)"""
        d = self.devobj[key]
        if key.endswith("_state"):
            return None if d._state is None else blk_tuple(d._state)
        if key == "shot_shf_enabled":
            return bool(d.enabled) if d.player is not None else None
        if key.startswith("shot_"):
            return d.state if d.player is not None else None
        if key.startswith("achievements."):
            return d.state
        if key == "m1_tm_tick":
            return d.ticks if d.player is not None and self.mode_on() else None
        raise KeyError(key)

    def obs(self):
        pl = []
        for p in self.players():
            items = {}
            for k, v in p.vars.items():
                if k in TRACK:
                    items[k] = tok(v)
            had_mode = "cp_state" in p.vars         # the game mode has run for this player
            for key in DEV_KEYS:
                v = stored(p, key)
                if v is None and had_mode and key.startswith("shot_sh") and not key.endswith("_enabled"):
                    v = 0       # a shot's state variable is only written on its first change; reading it gives 0
                if v is not None:
                    items[key] = tok(v)
            pl.append(",".join("%s=%s" % (k, items[k]) for k in sorted(items)))
        on = self.cur() is not None and self.mode_on()
        rn = "".join("1" if (i == TIMER and self.m.timers["tm"].running) else "0" for i in range(len(DEVICES))) if on else "-"
        mv = self.m.variables.get_machine_var("mvar")
        return "cur=%s mode=%s run=%s mv=%s ev=[%s] dv=[%s] pl=[%s]" % (
            self.cur() or "-", (self.cur() if self.mode_on() else None) or "-", rn, "-" if mv is None else tok(mv),
            " ".join("%s:%s:%s:%s:%s" % (n, tok(v), tok(pv), tok(ch), num) for n, v, pv, ch, num in self.events),
            " ".join("%s:%s:%s:%s:%s" % (n, tok(v), tok(pv), tok(ch), num) for n, v, pv, ch, num in self.dev_full),
            "|".join(pl))


USER_VARS = ["pa", "ps", "score", "nv", "mx", "extra_balls"]
ACH = {0: {"disabled": "enabled", "started": "enabled"}, 1: {"enabled": "started", "stopped": "started"},
       2: {"started": "completed"}, 3: {"started": "stopped"}, 4: {"enabled": "disabled", "stopped": "disabled"}}
# devices whose own-turn behaviour is judged by the model comparison only: the oracle takes what the player who is up has
# stored as that player's state (what the property states about them - isolation, restore, fresh start - needs no more)
ADOPT_KEYS = ["m1_tm_tick", "ap_state", "sp_state"]


def ref_act(key, code, v, goal):
    """reference reaction of a device to its control event (documented behaviour of each device kind)"""
    if key == "cp_state":
        val, en, co = v
        if not en:
            return v
        val += 1
        if val >= goal and not co:
            return (val, False, True)
        return (val, en, co)
    if key in ("shot_sh1", "shot_sh2", "shot_sh3"):
        return 0 if code == 1 else min(v + 1, 2)
    if key == "shot_shf_enabled":
        return code == 0
    if key.startswith("achievements."):
        return "disabled" if code == 5 else ACH[code].get(v, v)
    if key in ADOPT_KEYS:
        return v
    raise KeyError(key)


def ref_load(key, v):
    """what a device makes of the stored state when the player's next ball starts"""
    if key == "achievements.a_stop" and v == "started":
        return "stopped"        # restart_on_next_ball_when_started: false
    if key == "m1_tm_tick":
        return 0                # a timer restarts from start_value with every ball
    return v


class Oracle:
    """shadow dictionaries and shadow device state per player, maintained from the ops alone"""

    def __init__(self, cfg):
        self.cfg = cfg
        self.shadow = []        # per player: dict of user variables
        self.dev = []           # per player: device key -> shadow state (empty = the mode never ran for this player)
        self.bad = []
        self.counts = {}
        self.turns = 0
        self.mode_on = False    # the game mode runs (reference rule: from its start request to ball end / stop request)
        self.hold = False       # a stop of the game mode was requested and its mode_m1_stopping queue event is held: the
                                # mode keeps running (for the player who is up) until the release
        self.end_pending = False    # a ball end was requested behind the held stop: it waits for the release
        self.tick_seen = {}         # player index -> the timer's tick variable as last read from that player's dictionary

    def fail(self, sig, **d):
        self.bad.append((sig, d))

    def count(self, name, n=1):
        self.counts[name] = self.counts.get(name, 0) + n

    def fresh_vars(self):
        return {"pa": self.cfg["pa"], "ps": self.cfg["ps"], "score": 0}

    def load(self, q, run, op, first_turns):
        """the game mode starts for player q (1-based): every device takes what that player stored (through its documented
        load rule) or starts fresh - and must present exactly that"""
        dv = self.dev[q - 1]
        had = bool(dv)
        for key in DEV_KEYS:
            dv[key] = ref_load(key, dv[key]) if key in dv else FRESH[key]
            got = run.presented(key)
            if got != dv[key]:
                self.fail("restore:device-state" if had and not first_turns else "fresh:device-state", op=op, device=key,
                          player=q, presented=got, expected=dv[key])
        self.count("loads_restoring" if had else "loads_fresh")
        if run.cn._state is None or blk_tuple(run.cn._state) != (0, True, False):
            self.fail("fresh:device-state", op=op, device="cn (persist_state: false)", player=q,
                      presented=None if run.cn._state is None else blk_tuple(run.cn._state))

    def step(self, op, run, cur_before, ball_id_before, crashed):
        k = op[0]
        if crashed:
            self.fail(crashed + ":" + k, op=op)
            return
        # ---- a held stop (reference rule): the mode runs on until the release; a ball end behind it waits and then
        # happens as a whole at the release; stop / start requests meanwhile do nothing
        if not run.players():
            self.hold = self.end_pending = False
        if k == "mstoph":
            if self.mode_on and not self.hold and cur_before is not None:
                self.hold = True
                self.count("stop_held")
            k = "nop"
        elif k == "mrel":
            if self.hold:
                k = "drain" if self.end_pending else "mstop"
                self.count("release_with_ball_end" if self.end_pending else "release_plain")
                self.hold = self.end_pending = False
            else:
                k = "nop"
        elif self.hold and k in ("drain", "drainw"):
            self.end_pending = True
            self.count("ball_end_behind_held_stop")
            k = "nop"
        elif self.hold and k in ("mstop", "mstart"):
            k = "nop"
        elif self.end_pending and k in VP_OPS:
            self.count("variable_player_after_ball_end")
            k = "nop"           # the mode `mv` with the variable_player entries ended with the ball (it is not held)
        elif self.hold:
            self.count("op_during_held_stop")
        players = run.players()
        cur = run.cur()
        expected_events = []
        # ---- game over / new game / new players
        if not players:
            self.shadow, self.dev = [], []
        while len(self.shadow) < len(players):
            self.shadow.append(self.fresh_vars())
            self.dev.append({})
            q = len(self.shadow) - 1
            # a new player starts from the configured initial values ...
            got = {v: players[q].vars.get(v) for v in ("pa", "ps", "score")}
            if k in ("start", "addplayer") and got != self.fresh_vars():
                self.fail("fresh:initial-values", op=op, player=q + 1, got=got, expected=self.fresh_vars())
        if len(self.shadow) > len(players):
            n = len(players)
            self.shadow, self.dev = self.shadow[:n], self.dev[:n]
        # ---- the request changes the shadow of the player who is up - or of the player it names explicitly
        if cur_before is not None and k in ("set", "seta", "vset", "add", "extra", "addp", "setp") and players:
            target = cur_before
            if k in ("addp", "setp"):
                if op[1] <= len(players):
                    target = op[1]
                    self.count("explicit_target_other" if target != cur_before else "explicit_target_self")
                else:
                    # variable_player logs "Failed to set player var" and then writes to the player who is up (followed
                    # as the code has it; reported as an observation)
                    self.count("explicit_target_missing_written_to_current")
                name, arg = op[2], op[3]
            else:
                name, arg = ("extra_balls", 1) if k == "extra" else (op[1], op[2])
            sh = self.shadow[target - 1]
            prev = sh.get(name, 0)
            new_entry = name not in sh
            value = prev + arg if k in ("add", "extra", "addp") else arg
            sh[name] = value
            try:
                change = value - prev
            except TypeError:
                change = prev != value
            if change or new_entry:
                expected_events.append((name, value, prev, change, target))
        if k in ("drain", "drainw") and cur_before is not None and players and self.shadow[cur_before - 1].get("extra_balls", 0):
            sh = self.shadow[cur_before - 1]
            expected_events.append(("extra_balls", sh["extra_balls"] - 1, sh["extra_balls"], -1, cur_before))
            sh["extra_balls"] -= 1
        # ---- an active game mode is bound to the player who is up: the mode's player and every device pointer
        g = run.m.game
        md = run.m.modes["m1"]
        if g is not None and g.player is not None and md.active and md.player is not g.player:
            self.fail("mode-bound-to-wrong-player", op=op, mode_player=None if md.player is None else md.player.number,
                      current_player=g.player.number)
        for ev, mp, gp in run.binding:
            self.fail("mode-bound-to-wrong-player", op=op, at_event=ev, mode_player=mp, current_player=gp)
        for key, who in run.pointers():
            if who != cur:
                self.fail("device-bound-to-wrong-player", op=op, device=key, points_at_player=who, current_player=cur)
        # ---- reference rule for the mode: stop request ends it, a start request while somebody is up (re)starts it for
        # that player (devices reload), a start request while nobody is up is refused
        if not players:
            self.mode_on = False
        loaded_now = False
        if k == "mstop":
            self.mode_on = False
        elif k == "mstart" and cur_before is not None and players and not self.mode_on:
            self.mode_on = True
            self.load(cur_before, run, op, False)
            loaded_now = True
        restarted_before = k == "drainw" and run.fired in POS_BEFORE and cur_before is not None and bool(players)
        if restarted_before and self.dev[cur_before - 1]:
            # restarted for the player whose ball just ended, stopped again at turn end (nothing to present any more)
            dvr = self.dev[cur_before - 1]
            for key in DEV_KEYS:
                dvr[key] = ref_load(key, dvr[key])
        elif restarted_before:
            self.dev[cur_before - 1].update({key: FRESH[key] for key in DEV_KEYS})
        # ---- device control events change the current player's shadow device state only
        if cur_before is not None and players and self.dev[cur_before - 1] and self.mode_on:
            dv = self.dev[cur_before - 1]
            if k == "dv":
                key = DEVICES[op[1]][1]
                if key in dv:
                    dv[key] = ref_act(key, op[2], dv[key], self.cfg["goal"])
            elif k == "rot" and "shot_sh2" in dv and "shot_sh3" in dv:
                dv["shot_sh2"], dv["shot_sh3"] = dv["shot_sh3"], dv["shot_sh2"]
        # ---- a ball starts
        ball_id = (cur, players[cur - 1].vars.get("ball"), players[cur - 1].vars.get("extra_balls", 0)) if cur else None
        new_ball = cur is not None and ((k == "start" and cur_before is None) or
                                        (k in ("drain", "drainw") and ball_id != ball_id_before))
        if new_ball:
            self.turns += 1
            same_ball_restarted = restarted_before and cur == cur_before and \
                players[cur - 1].vars.get("ball") == ball_id_before[1]
            if same_ball_restarted:
                # extra ball after a restart: the mode is still running for the same player
                self.mode_on = True
                if not self.dev[cur - 1]:
                    self.load(cur, run, op, self.turns <= 1)
                    loaded_now = True
            else:
                self.mode_on = bool(self.cfg["auto"]) or (k == "drainw" and run.fired in POS_AFTER)
                if self.mode_on:
                    self.load(cur, run, op, self.turns <= 1)
                    loaded_now = True
        elif k in ("drain", "drainw") and players:
            self.mode_on = False
        if players and cur is not None and run.mode_on() != self.mode_on:
            self.fail("mode-running-state", op=op, active=run.mode_on(), expected=self.mode_on)
            self.mode_on = run.mode_on()
        # ---- timer / accrual / sequence: what the player who is up has stored is that player's state
        if cur is not None and self.dev[cur - 1] and not loaded_now:
            for key in ADOPT_KEYS:
                have = stored(players[cur - 1], key)
                if have is not None:
                    if have != self.dev[cur - 1].get(key):
                        self.count("own_turn_change_" + key)
                    self.dev[cur - 1][key] = have
        # ---- no two players share a mutable state object (the state objects, the accrual's list, the achievement entries)
        ids = {}
        for q, p in enumerate(players):
            objs = [(d, p.vars.get(d)) for d in ("cp_state", "ap_state", "sp_state", "achievements")]
            ap = p.vars.get("ap_state")
            if ap is not None and isinstance(ap.value, list):
                objs.append(("ap_state.value", ap.value))
            a = p.vars.get("achievements") or {}
            objs += [("achievements." + n, e) for n, e in a.items()]
            for d, o in objs:
                if o is not None:
                    if id(o) in ids:
                        self.fail("fresh:aliasing", op=op, device=d, players=[ids[id(o)], q + 1])
                    ids[id(o)] = q + 1
        self.count("identity_checks", len(ids))
        # ---- every player's dictionary against its shadows (isolation: nobody else's changed)
        for q, p in enumerate(players):
            got = {v: p.vars[v] for v in USER_VARS if v in p.vars}
            other = cur_before is not None and q != cur_before - 1 and (cur is None or q != cur - 1)
            if got != self.shadow[q] or [type(got[x]) for x in sorted(got)] != [type(self.shadow[q][x]) for x in sorted(got)]:
                self.fail("isolation:other-player-changed" if other else "own-vars-wrong", op=op, player=q + 1,
                          current_player=cur_before, got=got, expected=self.shadow[q])
                self.shadow[q] = dict(got)
            for name in USER_VARS:
                if p.is_player_var(name) != (name in self.shadow[q]):
                    self.count("is_player_var_differs")
            for key in DEV_KEYS:
                have = stored(p, key)
                if have is None and key in ("shot_sh1", "shot_sh2", "shot_sh3") and self.dev[q]:
                    have = 0
                want = self.dev[q].get(key)
                if have != want:
                    self.fail("isolation:device-state-of-other-player" if other or (cur is not None and q != cur - 1 and
                                                                                    key in ADOPT_KEYS)
                              else "own-device-state-wrong", op=op,
                              device=key, player=q + 1, current_player=cur, stored=have, expected=want)
                    if have is not None:
                        self.dev[q][key] = have     # resynchronise so that one defect is reported once
        # ---- what the devices present during the turn is the current player's stored state
        if cur is not None and run.mode_on() and self.dev[cur - 1]:
            for key in DEV_KEYS:
                if run.presented(key) != self.dev[cur - 1].get(key):
                    self.fail("device-presents-wrong-state", op=op, device=key, player=cur,
                              presented=run.presented(key), expected=self.dev[cur - 1].get(key))
        # ---- events: exactly the expected ones for user variables, with exact arguments
        got_ev = [e for e in run.events if e[0] in USER_VARS and not (k in ("start", "addplayer"))]
        if [tuple(map(repr, e)) for e in got_ev] != [tuple(map(repr, e)) for e in expected_events]:
            self.fail("event:args", op=op, got=[list(map(repr, e)) for e in got_ev],
                      expected=[list(map(repr, e)) for e in expected_events])
        for e in run.events:
            if e[0] == "ball" and not (e[1] == e[2] + 1 and e[3] == 1 and e[4] == cur) and k not in ("start", "addplayer"):
                self.fail("event:args", op=op, got=list(map(repr, e)), expected="ball +1 for the player whose turn starts")
            if k in ("start", "addplayer") and e[0] != "ball" and not (e[1] == e[2] and e[3] in (0, False)):
                self.fail("event:args", op=op, got=list(map(repr, e)), expected="initial broadcast: value == prev_value")
        self.count("timer_tick_events_compared_with_model", len(run.dev_full))
        # ---- the timer's tick variable: every change posts one event with the new value, the previous value (0 for a
        # new variable), their difference and the owner's number - the events of one request form a chain from what the
        # player had stored before it to what is stored after it (the property's last sentence, for a device variable)
        if not players:
            self.tick_seen = {}
        chains = {}
        for name, value, pv, ch, num in run.dev_full:
            chains.setdefault(num, []).append((value, pv, ch))
        for q, p in enumerate(players):
            before, after = self.tick_seen.get(q), p.vars.get("m1_tm_tick")
            last, ok = (0 if before is None else before), True
            for value, pv, ch in chains.get(q + 1, []):
                if repr(pv) != repr(last) or repr(ch) != repr(value - pv):
                    ok = False
                last = value
            if chains.get(q + 1):
                ok = ok and repr(last) == repr(after)
            elif before != after:
                ok = False              # the stored value changed (or the variable is new) and no event said so
            if not ok:
                self.fail("event:device-var-args", op=op, variable="m1_tm_tick", player=q + 1, stored_before=before,
                          stored_after=after, events=[list(map(repr, e)) for e in chains.get(q + 1, [])])
            self.tick_seen[q] = after
        ok_nums = {cur} | ({cur_before} if k == "drainw" and run.fired in POS_BEFORE else set())
        for name, value, num in run.dev_events:
            if cur is not None and num not in ok_nums:
                self.fail("event:device-var-for-wrong-player", op=op, event="player_" + name, value=repr(value),
                          player_num=num, current_player=cur)
        # ---- the player monitor (when enabled) is told the same as the events (counted, not part of the property)
        if self.cfg.get("monitor"):
            mon = [c for c in run.monitor_calls if c[0] in TRACK]
            self.count("monitor_calls", len(mon))
            if [tuple(map(repr, c)) for c in mon] != [tuple(map(repr, e)) for e in run.events]:
                self.count("monitor_differs_from_events")


def execute(cfg, ops, model):
    """one case under a wall-clock watchdog: a case can fail, it can never hang"""
    try:
        with watchdog(CASE_SECONDS):
            return execute_unguarded(cfg, ops, model)
    except CaseTimeout as e:
        if model is not None:
            model.p.kill()          # its line protocol may be out of step now; the range stops after a hang
        return [("hang", {"error": str(e), "ops": len(ops)})], [], {"max_players": 0, "turns": 0, "hangs": 1}


def execute_unguarded(cfg, ops, model):
    run = Run(cfg)
    run.start()
    comps = []
    stats = {"max_players": 0, "turns": 0}
    try:
        orc = Oracle(cfg)
        if model is not None:
            model.ask("cfg %d 4 %d pa=%s ps=%s" % (cfg["bpg"], 1 if cfg["auto"] else 0, tok(cfg["pa"]), tok(cfg["ps"])))
            for line, _, _ in DEVICES:
                if model.ask("device " + line % cfg) != "ok":
                    raise InfraError("model refused device " + line)
        for op in ops:
            cur0 = run.cur()
            pl0 = run.players()
            ball0 = (cur0, pl0[cur0 - 1].vars.get("ball"), pl0[cur0 - 1].vars.get("extra_balls", 0)) if cur0 else None
            ended0 = run.ending
            cr = run.act(op)
            if cr == "skip":
                continue
            orc.step(op, run, cur0, ball0, cr)
            if cr:
                break
            stats["max_players"] = max(stats["max_players"], len(run.players()))
            if op[0] == "drainw":
                stats["start_" + ("before" if run.fired in POS_BEFORE else "window" if run.fired in POS_WINDOW
                                  else "after" if run.fired else "not_reached")] = \
                    stats.get("start_" + ("before" if run.fired in POS_BEFORE else "window" if run.fired in POS_WINDOW
                                          else "after" if run.fired else "not_reached"), 0) + 1
            if model is not None:
                line = model_line(op, run.fired, run.held, ended0)
                comps.append((line, run.obs(), model.ask(line)))
        stats["turns"] = orc.turns
        stats["counts"] = orc.counts
        orc.count("mode_end_inside_pause_window", run.in_pause_window)
        return orc.bad, comps, stats
    finally:
        run.stop()


def run_case(ctx, cfg, ops, model, sample=True):
    case = {"cfg": cfg, "ops": ops}
    try:
        bad, comps, stats = execute(cfg, ops, model)
    except BootError as e:
        # the generated configurations are valid: a machine that does not boot is a crash of the code under test
        ctx.count("boot_failed")
        ctx.evaluated(case, False, sample=False)
        if not any(f["signature"] == "crash:boot" for f in ctx.failures):
            ctx.fail("crash:boot", case, {"error": str(e)[:300]})
        return
    for o in ops:
        ctx.count("op_" + o[0])
    ctx.count("ball_starts", stats["turns"])
    ctx.count("players_%d" % stats["max_players"])
    for k2, v2 in stats.items():
        if k2.startswith("start_") or k2 == "hangs":
            ctx.count(k2, v2)
    for k2, v2 in stats.get("counts", {}).items():
        ctx.count(k2, v2)
    for o in ops:
        if o[0] == "dv":
            ctx.count("dev_%s" % DEVICES[o[1]][2][o[2]])
    ctx.count("cfg_auto" if cfg["auto"] else "cfg_start_by_request")
    ctx.evaluated(case, stats["max_players"] >= 2 and stats["turns"] >= 4, sample=sample)
    for what, impl, mod in comps:
        ctx.compare(dict(case, at=what), impl, mod)
    if bad:
        sig = bad[0][0]
        if any(f["signature"] == sig for f in ctx.failures):
            ctx.count("further_failing_cases")
            return

        def fails(sub):
            try:
                b, _, _ = execute(cfg, sub, None)
            except BootError:
                return False
            return any(s == sig for s, _ in b)
        small = ops if sig == "hang" else ddmin(ops, fails, max_tests=80)
        try:
            b2, _, _ = execute(cfg, small, None)
        except BootError:
            b2 = []
        hit = [d for s, d in b2 if s == sig]
        if hit:
            ctx.fail(sig, {"cfg": cfg, "ops": small}, hit[0])
        else:
            ctx.fail(sig, case, bad[0][1])


def run_range(ctx, lo, hi):
    model = None if getattr(ctx, "model_unavailable", False) else leanproc.LeanProc(ID)
    try:
        for i in range(lo, hi):
            r = ctx.rng("case", i)
            cfg = gen_cfg(r)
            run_case(ctx, cfg, gen_ops(r, cfg), model)
            if i % 25 == 24:
                gc.collect()        # stopped machines are cyclic garbage
            if len(ctx.failures) >= 3 or ctx.hist.get("further_failing_cases", 0) >= 20 or ctx.hist.get("hangs"):
                break       # the verdict is settled; do not burn the budget on more witnesses
    finally:
        if model is not None:
            model.close()


def run(ctx):
    total = ctx.n(800, 8000)
    from harness.common import pool_c20c11
    if total <= 1000:   # quick tier: four worker processes, 200 cases each
        pool_c20c11.run_parallel(ctx, "harness.corr." + ID, total, chunk=200, workers=4)
    else:               # thorough tier / failing-input search: fresh worker processes, 300 cases each
        import os
        pool_c20c11.run_parallel(ctx, "harness.corr." + ID, total, workers=int(os.environ.get("VERIF_WORKERS", "8")))


def replay(ctx, rep):
    c = rep["case"]
    bad, _, _ = execute(c["cfg"], c["ops"], None)
    for sig, detail in bad[:1]:
        ctx.fail(sig, c, detail)
