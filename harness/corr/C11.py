"""C11 - player state is isolated per player and restored on their next turn.

Implementation side: real multi-player games (MpfFakeGameTestCase scaffolding, 1-4 players) with a game mode that
holds a persisting counter, a non-persisting counter, a persisting accrual and a persisting sequence; player variables
set directly (`player[x] = v`) and through variable_player (add / set, int / string); extra balls; early game end.
Every `player_<var>` event is captured with its arguments; every player's vars dict is read after every op.
Model side: MpfVerif.Model.Player (per-player dictionaries, device pointer) through the compiled driver drv_c11.
Oracle (independent of the model): per-player shadow dictionaries kept by the harness, device snapshots per player.
"""
import gc

from harness.common import leanproc
from harness.common.shrink import ddmin
from harness.common.vmachine import VMachine, BootError

ID = "C11"
LEAN_MODULES = ["MpfVerif.Props.C11"]
PROPS_FILE = "MpfVerif/Props/C11.lean"
GEN = []
MANIFEST = {
    "text": "Proof on a Lean model of the player store (one insertion-ordered variable dictionary per player, Player.__setattr__ with its change event) and of a persisting game-mode device that only points into the current player's dictionary between mode start and mode stop: every request during one player's turn leaves every other player's dictionary unchanged (single step and over whole histories in which that player is never up); when a ball starts the device presents exactly the state stored in that player's dictionary, i.e. what it had at the end of the player's previous ball (turn change and extra ball); a new game / an added player starts from the configured initial values regardless of what an earlier game left; a variable assignment emits exactly one event with value, previous value (0 for a new variable), change (difference, or inequality for non-numbers) and the owner's player number iff it changed or is new. The hand model is tied to player.py / logic_blocks.py / game.py by a correspondence run on real 1-4 player games (events with arguments, every player's dictionary, device state after every op) and per-player shadow dictionaries and device snapshots kept independently by the harness.",
    "note": "Trusted: Lean kernel + standard axioms; the hand-written Model/Player.lean (validated only by the differential run; nothing is machine-translated). Values in the model are immutable, so sharing of a mutable initial value between players cannot be expressed there: on the implementation it is sampled (object identity of the state objects of different players). Accruals, sequences and the non-persisting counter are checked by the oracle only (the model carries one persisting counter); shots, shot groups, achievements, timers and persisted enable flags are not exercised; variable_player's explicit `player:` target (which writes to another player on purpose) and float variables are outside the model.",
    "technique": "Lean 4 theorems (frame lemmas over list updates, induction over the op list) on a hand model + differential correspondence and independent shadow-state oracle on real multi-player games",
    "translated": False,
}
RULE = ("a case = initial player_vars (int and string), balls per game 1-3, counter goal 2-4 + 8-60 ops (start game, add "
        "player, direct set of int/str/mixed-type variables, variable_player add/set incl. zero change and a new "
        "variable, counter/accrual/sequence hits, extra ball award, ball drain, early game end, second game). "
        "non-trivial = at least two players and at least three turn changes with differing per-player histories; "
        "distinct = canonical JSON of (config, ops)")
TRUSTED = ["modelled, not verified: the game mode's ball/turn rotation, mode start/stop at ball start/end, event queue "
           "ordering (events are compared in the order the implementation posts them), Python object identity",
           "Model/Player.lean is hand-written; tied to mpf/core/player.py, mpf/devices/logic_blocks.py (persist_state) "
           "and mpf/modes/game/code/game.py by correspondence on every run"]
ASSUMPTIONS = ["player variables hold ints or strings (no floats, no containers); `add` is only applied to int variables",
               "no variable_player entry targets another player explicitly (`player:` option)"]

INT_VARS = ["pa", "score", "nv"]          # nv is not configured: created on first use
ADD_VALUES = [1, 10, -3, 0, 100]
SET_VALUES = [0, 5, 7, -2]
STR_VALUES = ["abc", "xyz", "q"]
TRACK = ["index", "number", "pa", "ps", "score", "nv", "mx", "ball", "extra_balls"]


def vp_add(k, d):
    return "vp_add_%s_%s" % (k, str(d).replace("-", "m"))


def vp_set(k, v):
    return "vp_set_%s_%s" % (k, str(v).replace("-", "m"))


def build(cfg):
    main = ["modes:", "  - m1", "game:", "  balls_per_game: %d" % cfg["bpg"], "  max_players: 4",
            "switches:", "  s_start:", "    number: 1", "    tags: start",
            "player_vars:", "  pa:", "    initial_value: %d" % cfg["pa"], "    value_type: int",
            "  ps:", "    initial_value: %s" % cfg["ps"], "    value_type: str"]
    mode = ["mode:", "  start_events: ball_started", "  priority: 200", "counters:",
            "  cp:", "    count_events: hit_c", "    count_complete_value: %d" % cfg["goal"], "    persist_state: true",
            "    reset_on_complete: false", "    disable_on_complete: true",
            "  cn:", "    count_events: hit_c", "    count_complete_value: %d" % cfg["goal"], "    persist_state: false",
            "    reset_on_complete: false", "    disable_on_complete: true",
            "accruals:", "  ap:", "    events: acc_0, acc_1, acc_2", "    persist_state: true",
            "    reset_on_complete: false", "    disable_on_complete: true",
            "sequences:", "  sp:", "    events: seq_0, seq_1, seq_2", "    persist_state: true",
            "    reset_on_complete: false", "    disable_on_complete: true",
            "variable_player:"]
    for k in INT_VARS:
        for d in ADD_VALUES:
            mode += ["  %s:" % vp_add(k, d), "    %s:" % k, "      int: %d" % d]
        for v in SET_VALUES:
            mode += ["  %s:" % vp_set(k, v), "    %s:" % k, "      int: %d" % v, "      action: set"]
    for v in STR_VALUES:
        mode += ["  %s:" % vp_set("ps", v), "    ps:", "      string: %s" % v, "      action: set"]
    return "\n".join(main) + "\n", "\n".join(mode) + "\n"


def gen_cfg(r):
    return {"bpg": r.choice([1, 2, 2, 3]), "goal": r.choice([2, 3, 4]), "pa": r.choice([0, 5, -1]),
            "ps": r.choice(["abc", "xyz"])}


def gen_ops(r):
    ops = [["start"]]
    for _ in range(r.choice([0, 1, 1, 2, 3])):
        ops.append(["addplayer"])
    n = r.randint(8, 60)
    for _ in range(n):
        k = r.random()
        if k < 0.16:
            ops.append(["hit"])
        elif k < 0.22:
            ops.append(["acc", r.randrange(3)])
        elif k < 0.28:
            ops.append(["seq", r.randrange(3)])
        elif k < 0.40:
            ops.append(["add", r.choice(INT_VARS), r.choice(ADD_VALUES)])
        elif k < 0.48:
            ops.append(["vset", r.choice(INT_VARS), r.choice(SET_VALUES)])
        elif k < 0.53:
            ops.append(["vset", "ps", r.choice(STR_VALUES)])
        elif k < 0.60:
            ops.append(["set", r.choice(INT_VARS), r.choice(SET_VALUES + [1, 1000])])
        elif k < 0.64:
            ops.append(["set", "ps", r.choice(STR_VALUES + [""])])
        elif k < 0.69:
            ops.append(["set", "mx", r.choice([0, 3, "a", "b", ""])])       # a variable whose type changes
        elif k < 0.73:
            ops.append(["extra"])
        elif k < 0.93:
            ops.append(["drain"])
        elif k < 0.96:
            ops.append(["addplayer"])
        elif k < 0.98:
            ops.append(["endgame"])
        else:
            ops.append(["start"])
    return ops


def tok(v):
    if isinstance(v, bool):
        return "T" if v else "F"
    if isinstance(v, int):
        return "i%d" % v
    if isinstance(v, str):
        return "s" + v.encode().hex()
    return "?" + type(v).__name__


def model_line(op):
    k = op[0]
    if k in ("start", "addplayer", "hit", "drain", "endgame"):
        return k
    if k in ("set", "vset"):
        return "set %s %s" % (op[1], tok(op[2]))
    if k == "add":
        return "add %s %d" % (op[1], op[2])
    if k == "extra":
        return "add extra_balls 1"
    return None        # acc / seq: not in the model


def blk(st):
    return "b%s/%d/%d" % (st.value, 1 if st.enabled else 0, 1 if st.completed else 0)


class Run:
    def __init__(self, cfg):
        self.cfg = cfg
        main, mode = build(cfg)
        self.vm = VMachine(main, modes={"m1": mode}, game=True)
        self.events = []

    def start(self):
        self.vm.start()
        m = self.m = self.vm.machine
        tc = self.vm.tc

        def _add_ball(**kwargs):
            m.playfield.balls += 1
            m.playfield.available_balls += 1
        m.playfield.add_ball = _add_ball
        m.ball_controller.num_balls_known = 3
        for name in TRACK:
            def h(_n=name, **kwargs):
                self.events.append((_n, kwargs.get("value"), kwargs.get("prev_value"), kwargs.get("change"),
                                    kwargs.get("player_num")))
            m.events.add_handler("player_" + name, h, priority=10 ** 6)
        self.devs = {"cp": m.counters["cp"], "cn": m.counters["cn"], "ap": m.accruals["ap"], "sp": m.sequences["sp"]}
        return self

    def stop(self):
        self.vm.stop()

    def settle(self):
        for _ in range(8):
            self.vm.run()

    def act(self, op):
        m, vm, tc = self.m, self.vm, self.vm.tc
        k = op[0]
        self.events = []
        try:
            if k in ("start", "addplayer"):
                if k == "start" and m.game is not None:
                    return None
                if k == "addplayer" and m.game is None:
                    return None
                vm.hit_switch("s_start", 1)
                vm.hit_switch("s_start", 0)
            elif m.game is None or m.game.player is None:
                return None
            elif k == "set":
                m.game.player[op[1]] = op[2]
            elif k == "vset":
                vm.post(vp_set(op[1], op[2]))
            elif k == "add":
                vm.post(vp_add(op[1], op[2]))
            elif k == "extra":
                m.game.player.extra_balls += 1
            elif k == "hit":
                vm.post("hit_c")
            elif k == "acc":
                vm.post("acc_%d" % op[1])
            elif k == "seq":
                vm.post("seq_%d" % op[1])
            elif k == "drain":
                for _ in range(m.game.balls_in_play):
                    r = tc.post_relay_event_with_params("ball_drain", balls=1)
                    m.playfield.balls -= r["balls"]
                    m.playfield.available_balls -= r["balls"]
            elif k == "endgame":
                if m.game.player.extra_balls:
                    return "skip"       # end_game() with an extra ball pending is C06's business (D20), not this property's
                m.game.end_game()
                self.settle()
                m.playfield.balls = 0
                m.playfield.available_balls = 0
            self.settle()
            vm.advance(0.125)
            self.settle()
            return None
        except BaseException as e:
            return "crash:" + type(e).__name__

    def cur(self):
        g = self.m.game
        return None if g is None or g.player is None else g.player.number

    def players(self):
        g = self.m.game
        return [] if g is None else list(g.player_list)

    def dev_view(self, name):
        d = self.devs[name]
        return None if d._state is None else (d._state.value if not isinstance(d._state.value, list) else list(d._state.value),
                                              bool(d._state.enabled), bool(d._state.completed))

    def obs(self):
        pl = []
        for p in self.players():
            items = []
            for k, v in p.vars.items():
                if k in ("restart_modes_on_next_ball", "ap_state", "sp_state", "cn_state"):
                    continue
                items.append("%s=%s" % (k, blk(v) if k == "cp_state" else tok(v)))
            pl.append(",".join(items))
        cp = self.devs["cp"]._state
        return "cur=%s dev=%s ev=[%s] pl=[%s]" % (
            self.cur() or "-", "-" if cp is None else blk(cp),
            " ".join("%s:%s:%s:%s:%s" % (n, tok(v), tok(pv), tok(ch), num) for n, v, pv, ch, num in self.events),
            "|".join(pl))


FRESH = {"cp": (0, True, False), "cn": (0, True, False), "ap": ([False] * 3, True, False), "sp": (0, True, False)}
USER_VARS = ["pa", "ps", "score", "nv", "mx", "extra_balls"]


class Oracle:
    """shadow dictionaries and device snapshots per player, maintained from the ops alone"""

    def __init__(self, cfg):
        self.cfg = cfg
        self.shadow = []        # per player: dict of user variables
        self.snap = []          # per player: device name -> last presented state
        self.bad = []
        self.turns = 0

    def fail(self, sig, **d):
        self.bad.append((sig, d))

    def fresh_vars(self):
        return {"pa": self.cfg["pa"], "ps": self.cfg["ps"], "score": 0}

    def step(self, op, run, cur_before, ball_id_before, crashed):
        k = op[0]
        if crashed:
            self.fail(crashed + ":" + k, op=op)
            return
        players = run.players()
        cur = run.cur()
        expected_events = []
        # ---- game over / new game / new players
        if not players:
            self.shadow, self.snap = [], []
        while len(self.shadow) < len(players):
            self.shadow.append(self.fresh_vars())
            self.snap.append({})
            q = len(self.shadow) - 1
            # a new player starts from the configured initial values ...
            got = {v: players[q].vars.get(v) for v in ("pa", "ps", "score")}
            if k in ("start", "addplayer") and got != self.fresh_vars():
                self.fail("fresh:initial-values", op=op, player=q + 1, got=got, expected=self.fresh_vars())
        if len(self.shadow) > len(players):
            self.shadow, self.snap = self.shadow[:len(players)], self.snap[:len(players)]
        # ---- the request changes the current player's shadow only
        if cur_before is not None and k in ("set", "vset", "add", "extra") and players:
            sh = self.shadow[cur_before - 1]
            name = "extra_balls" if k == "extra" else op[1]
            prev = sh.get(name, 0)
            new_entry = name not in sh
            value = prev + (1 if k == "extra" else op[2]) if k in ("add", "extra") else op[2]
            sh[name] = value
            try:
                change = value - prev
            except TypeError:
                change = prev != value
            if change or new_entry:
                expected_events.append((name, value, prev, change, cur_before))
        if k == "drain" and cur_before is not None and players and self.shadow[cur_before - 1].get("extra_balls", 0):
            sh = self.shadow[cur_before - 1]
            expected_events.append(("extra_balls", sh["extra_balls"] - 1, sh["extra_balls"], -1, cur_before))
            sh["extra_balls"] -= 1
        # ---- every player's dictionary against its shadow (isolation: nobody else's changed)
        for q, p in enumerate(players):
            got = {v: p.vars[v] for v in USER_VARS if v in p.vars}
            if got != self.shadow[q] or [type(got[x]) for x in sorted(got)] != [type(self.shadow[q][x]) for x in sorted(got)]:
                sig = "isolation:other-player-changed" if (cur_before is not None and q != cur_before - 1) else "own-vars-wrong"
                self.fail(sig, op=op, player=q + 1, current_player=cur_before, got=got, expected=self.shadow[q])
                self.shadow[q] = dict(got)
        # ---- events: exactly the expected ones for user variables, with exact arguments
        got_ev = [e for e in run.events if e[0] in USER_VARS and not (k in ("start", "addplayer"))]
        if [tuple(map(repr, e)) for e in got_ev] != [tuple(map(repr, e)) for e in expected_events]:
            self.fail("event:args", op=op, got=[list(map(repr, e)) for e in got_ev],
                      expected=[list(map(repr, e)) for e in expected_events])
        for e in run.events:
            if e[0] == "ball" and not (e[1] == e[2] + 1 and e[3] == 1 and e[4] == cur) and k not in ("start", "addplayer"):
                self.fail("event:args", op=op, got=list(map(repr, e)), expected="ball +1 for the player whose turn starts")
            if k in ("start", "addplayer") and e[0] != "ball" and not (e[1] == e[2] and e[3] in (0, False)):
                self.fail("event:args", op=op, got=list(map(repr, e)), expected="initial broadcast: value == prev_value")
        # ---- devices
        ball_id = (cur, players[cur - 1].vars.get("ball"), players[cur - 1].vars.get("extra_balls", 0)) if cur else None
        if cur is not None and run.dev_view("cp") is not None:
            new_ball = (k == "start" and cur_before is None) or (k == "drain" and ball_id != ball_id_before)
            if new_ball:
                self.turns += 1
                for d in ("cp", "ap", "sp", "cn"):
                    view = run.dev_view(d)
                    want = FRESH[d] if (d == "cn" or d not in self.snap[cur - 1]) else self.snap[cur - 1][d]
                    if view != want:
                        self.fail("restore:device-state" if d != "cn" and d in self.snap[cur - 1] else "fresh:device-state",
                                  op=op, device=d, player=cur, presented=view, expected=want)
                # no two players share a state object
                ids = {}
                for q, p in enumerate(players):
                    for d in ("cp", "ap", "sp"):
                        o = p.vars.get(d + "_state")
                        if o is not None:
                            if id(o) in ids:
                                self.fail("fresh:aliasing", op=op, device=d, players=[ids[id(o)], q + 1])
                            ids[id(o)] = q + 1
            for d in ("cp", "ap", "sp"):
                self.snap[cur - 1][d] = run.dev_view(d)
        # ---- the stored state of the players who are not up does not move
        for q, p in enumerate(players):
            if cur is not None and q != cur - 1:
                for d in ("cp", "ap", "sp"):
                    o = p.vars.get(d + "_state")
                    if o is not None and d in self.snap[q]:
                        now = (o.value if not isinstance(o.value, list) else list(o.value), bool(o.enabled), bool(o.completed))
                        if now != self.snap[q][d]:
                            self.fail("isolation:device-state-of-other-player", op=op, device=d, player=q + 1,
                                      current_player=cur, stored=now, expected=self.snap[q][d])
                            self.snap[q][d] = now


def execute(cfg, ops, model):
    run = Run(cfg)
    run.start()
    comps = []
    stats = {"max_players": 0, "turns": 0}
    try:
        orc = Oracle(cfg)
        if model is not None:
            model.ask("cfg %d 4 %d pa=%s ps=%s" % (cfg["bpg"], cfg["goal"], tok(cfg["pa"]), tok(cfg["ps"])))
        for op in ops:
            cur0 = run.cur()
            pl0 = run.players()
            ball0 = (cur0, pl0[cur0 - 1].vars.get("ball"), pl0[cur0 - 1].vars.get("extra_balls", 0)) if cur0 else None
            cr = run.act(op)
            if cr == "skip":
                continue
            orc.step(op, run, cur0, ball0, cr)
            if cr:
                break
            stats["max_players"] = max(stats["max_players"], len(run.players()))
            line = model_line(op)
            if model is not None and line is not None:
                comps.append((line, run.obs(), model.ask(line)))
        stats["turns"] = orc.turns
        return orc.bad, comps, stats
    finally:
        run.stop()


def run_case(ctx, cfg, ops, model, sample=True):
    case = {"cfg": cfg, "ops": ops}
    try:
        bad, comps, stats = execute(cfg, ops, model)
    except BootError as e:
        ctx.count("config_rejected")
        ctx.evaluated(case, False, sample=False)
        return
    for o in ops:
        ctx.count("op_" + o[0])
    ctx.count("ball_starts", stats["turns"])
    ctx.count("players_%d" % stats["max_players"])
    ctx.evaluated(case, stats["max_players"] >= 2 and stats["turns"] >= 4, sample=sample)
    for what, impl, mod in comps:
        ctx.compare(dict(case, at=what), impl, mod)
    if bad:
        sig = bad[0][0]
        if any(f["signature"] == sig for f in ctx.failures):
            ctx.count("further_failing_cases")
            return

        def fails(sub):
            try:
                b, _, _ = execute(cfg, sub, None)
            except BootError:
                return False
            return any(s == sig for s, _ in b)
        small = ddmin(ops, fails, max_tests=80)
        try:
            b2, _, _ = execute(cfg, small, None)
        except BootError:
            b2 = []
        hit = [d for s, d in b2 if s == sig]
        if hit:
            ctx.fail(sig, {"cfg": cfg, "ops": small}, hit[0])
        else:
            ctx.fail(sig, case, bad[0][1])


def run_range(ctx, lo, hi):
    model = None if getattr(ctx, "model_unavailable", False) else leanproc.LeanProc(ID)
    try:
        for i in range(lo, hi):
            r = ctx.rng("case", i)
            run_case(ctx, gen_cfg(r), gen_ops(r), model)
            if i % 25 == 24:
                gc.collect()        # stopped machines are cyclic garbage
            if len(ctx.failures) >= 3 or ctx.hist.get("further_failing_cases", 0) >= 20:
                break       # the verdict is settled; do not burn the budget on more witnesses
    finally:
        if model is not None:
            model.close()


def run(ctx):
    total = ctx.n(600, 8000)
    if total <= 1000:
        run_range(ctx, 0, total)
    else:       # thorough tier / failing-input search: fresh worker processes, 300 cases each
        from harness.common import pool_c20c11
        pool_c20c11.run_parallel(ctx, "harness.corr." + ID, total)


def replay(ctx, rep):
    c = rep["case"]
    bad, _, _ = execute(c["cfg"], c["ops"], None)
    for sig, detail in bad[:1]:
        ctx.fail(sig, c, detail)
