"""C04 - ball counts agree with the physical machine and are conserved (partial proof: ledger protocol + refinement monitor).

Implementation side: the REAL ball devices, playfield and ball controller on a real machine (virtual platform,
TimeTravelLoop) inside a physical-world simulator that lives in the harness (harness/common/ballworld.py): balls are
tokens in device slots (one switch each) / loose on the playfield / in transit; switches are driven through
switch_controller.process_switch, coil pulses are intercepted at the platform driver objects; every eject attempt has a
generated outcome (ok / stuck / falls back / late / astray).  The repo's smart_virtual platform is not used.
Model side: MpfVerif.Model.BallLedger as a *monitor*: MPF's observable events are abstracted to ledger transitions; the
Lean driver answers `ok <counts>` or `not-enabled`, and the counts are compared with the real ones after every step.
Oracle (model independent): at every rest point device counts = physical truth, playfield count = loose balls, sums =
known; never a count < 0 or > capacity; MPF never pulses a coil towards a device without room.

Histories the random generator does not produce, and why that hides nothing: four classes of physically possible but
ambiguous histories (a ball falling back after eject_timeout, a ball arriving after ball_missing_timeout, a ball entering
a device during that device's own eject, a playfield switch hit by another ball while an ejected ball falls back) make
MPF fire into a full device.  Each has ONE deterministic minimal witness (WITNESSES below) that runs first on every check
and raises its own signature (listed in known_findings.json); the random stream stays restricted so that every *other*
failure is a new finding and the check is deterministic.

The `balls == -1` normalisation: BallCountHandler.end_eject() decrements counted_balls while BallDevice._state is still
ball_left/failed_confirm; for non-trough devices the state only changes after `await counter.count_balls()`, i.e. up to
exit_count_delay (0.5 s) later.  In that window the *property* BallDevice.balls (= counted_balls - 1 in those states)
reads one too low, -1 for a device that has just ejected its only ball.  That IS an observable violation of "no count is
ever negative" (any handler reading device.balls in the window sees it), so it has a witness + signature of its own
(count-negative:balls-property-after-eject-success).  counted_balls, available_balls and playfield.balls are never
affected and the value is exact again when the state changes, so for the *monitor* (which treats "eject finished" as one
ledger transition) and for the bounds oracle of the random stream the observation is normalised to counted_balls/idle;
every normalisation that hid a negative value is counted (evidence: balls_property_minus_one_normalisations).  The
obvious one-line repair (set the state to idle right after end_eject(True)) breaks test_MultiballLock.test_multiple_eject,
so it is recorded as a finding, not fixed.
"""
from harness.common import leanproc, ballworld as bw
from harness.common.shrink import ddmin

ID = "C04"
LEAN_MODULES = ["MpfVerif.Props.C04"]
PROPS_FILE = "MpfVerif/Props/C04.lean"
GEN = []
MANIFEST = {
    "text": "PARTIAL proof. Proved in Lean about the ball ledger (Model/BallLedger.lean: the bookkeeping protocol of MPF's ball devices at the granularity of its own accounting events - plan, ejectStart, ballLeft, confirm/lateConfirm, ejectFailedReturn/Stuck, enterExpected/Unexpected, pfCapture, lostEjected, lostIdle, incomingTimeout, newBallFound, broken - with the code's guards): for every interleaving of these transitions the available_balls claims sum to the number of balls known, device balls + playfield balls + balls in flight sum to the number known, 0 <= balls <= counted <= capacity for every device, and for every configuration in which every device target has a single source (decidable predicate Cfg.singleSource) no reachable state enables a coil firing towards a device whose room is already taken (invariant heading = incoming + [source mid-fire] carried through all 36 transitions); with two sources the guard passes twice (witness theorem = known finding D16). Session 3: the ledger also has the transitions of a mechanical / player-controlled eject (manualLeft = the player lets go of a ball resting in an idle device: the claim MOVES to the target, an eject is tracked; confirmManual / manualTimeout / manualReturn), of the 'ball may have skipped the mechanical device' logic (skipStart / skipConfirm / skipConfirmIdle / skipFail) and of confirm_eject_type switch|event (extConfirm: the playfield keeps the incoming ball; pfArrivedStale / pfArrivedFrom), all three conservation/bounds/readiness theorems are proved over the extended step function; and a separate model of the entrance-switch counter (EC: hit inside/outside the ignore window, full time-out, switch opening, own eject) with theorems count = entries - ejects, 0 <= count <= ball_capacity, full detection by the full time-out, and a witness theorem for the short-rest drop. NOT proved: that the ~2000 lines of asyncio coroutines only perform these transitions. That is tied by a refinement monitor on every run: the real devices run inside a physical-world simulator (slots, switches through process_switch, coil pulses intercepted, transit/settle times, eject outcomes ok/stuck/fallback/late/astray), every observed step must be an enabled ledger transition with the same resulting counts, and at every rest point the real counts are compared with the simulator's physical truth.",
    "note": "Outside the model (named runtime behaviour): asyncio task interleaving inside one device, switch debounce and activity classification in switch_counter._run, timer expiry (the monitor is told which timeout fired), real switch bounce, jam switches, ball search, VUK chains of more than two hops, two playfields, confirm_eject_type switch/event towards a DEVICE target (only plunger -> playfield is driven), an entrance-counted TROUGH (only the lock is), multiple entrance switches. Topologies (session 3 flavours on top of the three below: lock counted by entrance_switch + ball_capacity with/without entrance_switch_full_timeout and ignore window; plunger mechanical_eject without coil, or coil + mechanical + player_controlled_eject_event; plunger confirm_eject_type switch|event with the signal on time / late / never / spurious): trough->plunger->playfield + lock->playfield; trough+lock->plunger (two sources); chain trough->launcher->{playfield|lock} with two-hop requests to the non-playfield target (the launcher's diverter follows the target of MPF's own ejecting_ball event, as a diverter coil wired to that event would - the only place where the world listens to MPF). Trusted: Lean kernel + standard axioms; the hand-written ledger; harness/common/ballworld.py (world simulator + trace abstraction). Known findings, each with a deterministic witness history that runs on every check: two sources, one free slot (D16); ball falling back after eject_timeout; ball arriving after ball_missing_timeout; ball entering a device during its own eject taken for the returning ball; playfield switch hit by another ball credited to an eject whose ball falls back; BallDevice.balls reading -1 between end_eject and the state change; counted_balls = capacity + 1 while an entrance-counted device's own eject is unconfirmed and a ball enters; the ball that fills an entrance-counted device with full time-out resting on the switch shorter than the time-out (device ejecting below it) is never counted; two same-instant races of the skip logic of mechanical devices (drain counted at the instant the skip wait times out: ball credited twice; ball counted in the plunger at the instant the trough's confirm window closes: wait_for_ball cancelled half way, later a crash). Also a known finding of C05 reached by a new route (launcher not woken after the lock's incoming ball timed out, confirm switch/event). Repaired defects found by the session-3 stream (each has a directed case that is red on the unrepaired tree): mechanical eject during idle duplicated the available ball (336f23e); the same eject with the ball rolling back hung the device for ever (3f8a4e5); a ball skipping an idle mechanical device left a phantom available ball (6b7bafe); (an entrance-counted device drops the ball that fills it when the entrance switch opens before entrance_switch_full_timeout - by design, a short hit is a bounce: known finding with witness).",
    "technique": "Lean theorems by induction over transition lists of a hand-written protocol model + runtime refinement monitor and physical-truth oracle on the real devices",
    "translated": False,
}
RULE = ("TWO streams. Stream 1 (unchanged): a case = a machine configuration (topology std|two_src|chain [trough->launcher->{playfield|lock}, every 5th case], trough slots 3-5, balls 1-4, max_eject_attempts per device, "
        "eject/ball-missing/idle timeouts), physical timings on the 1/16 s grid (leave, transit, fall-back, lateness, playfield "
        "switch or not), one outcome list per device (ok/stuck/fallback/late/astray) and 3-14 actions (add_ball, drain, lock "
        "shot claimed or not, release_lock, stale_release [eject event at the empty lock], request_lock [two-hop request to a non-playfield target], escape, playfield switch hit, wait, rest). non-trivial = at least one ball physically "
        "left a device; distinct = canonical JSON of the case. Stream 2 (session 3, gen_ext_case, 200 quick / 1600 thorough): flavours drawn "
        "independently, at least one active - entrance-counted lock (capacity 2, full time-out 0|500 ms, ignore window 0|250 ms, switch "
        "hold 1-4 ticks; std or chain topology), mechanical|combo plunger (plunge outcomes ok/fallback, player-controlled and ordinary "
        "requests, launch event, balls rolling back into the lane claimed or not, the player plunging with no request pending), confirm "
        "switch|event on the plunger (fate of every signal ontime/late/never + spurious signals); a warm-up brings 1-3 balls into play; "
        "environment actions happen 1/128 s after a grid instant (no coincidence with unrelated MPF timers). a held ball_eject_attempt queue event (trough or plunger, 4-40 ticks) with balls rolling "
        "back into the plunger lane meanwhile; chain topology also with confirm switch|event towards the lock (signal comes, ball lost). "
        "Directed cases that run on every check: manual eject during idle (clean and with the ball rolling back), a ball skipping the idle "
        "mechanical plunger, entrance lock filled/over-filled/emptied with and without full time-out, five held-attempt interleavings, "
        "confirm switch and event towards the lock with the ball lost and the lock released afterwards, and one witness per known finding")
TRUSTED = ["modelled, not verified: the coroutines of mpf/devices/ball_device/*.py are tied to the ledger only by the runtime "
           "monitor (sampled schedules), not by proof; asyncio scheduling, switch debounce (switch_counter._run), timers",
           "harness/common/ballworld.py: physical-world simulator and event->transition abstraction (hand-written)",
           "Model/BallLedger.lean is hand-written; validated by the monitor on every run"]
ASSUMPTIONS = ["one physical exit per device; balls only enter a device when a slot is free (a ball cannot rest in a device "
               "without closing a switch; an entrance-counted device: without passing its entrance switch)", "no jam switch, ball search off",
               "entrance-counted device: its ejects always succeed physically (it has no sensor that could see a ball stay or come back: "
               "outcomes ok/late/astray only), no ball leaves it unseen, a following ball does not pass the entrance switch while it is "
               "held or inside the configured ignore window, with entrance_switch_full_timeout the ball that fills the device rests on "
               "the entrance switch for the full time-out (it does not arrive while an eject of the device is queued or under way - "
               "witness: the ball is never counted); no ball enters it while MPF still waits for the confirmation of its own eject "
               "(witness: counted_balls = capacity + 1); a shot at the device while its entrance switch is held bounces off",
               "mechanical plunger: the player eventually plunges a ball that MPF wants ejected (weak fairness), does not plunge a device that "
               "has reported itself broken, does not plunge again while MPF has not yet seen the previous weak plunge fail; a confirm "
               "signal (spurious, or the late one of an earlier ball) is not generated while the plunger's current ball has come back or "
               "while the 'ball may have skipped' wait runs for a ball that is still on its way; captures (drain, lock shot) are not "
               "generated while a ball ejected to the playfield falls back, nor into the trough while the trough's own eject is unconfirmed "
               "(all: an identity-less signal would be credited to the wrong eject - the same ambiguity classes as below)",
               "session-3 stream: environment events never fall on exactly the same loop instant as an unrelated MPF timer (two "
               "directed witnesses show what happens when they do)",
               "two sources feeding one target can double-fire (known finding D16)",
               "no ball rolls from the playfield into a device in the window between a source's readiness check for an eject "
               "towards that device and the source's coil pulse (the source waits for its own count lock in between; the entry "
               "is not yet counted when it fires - directed witness fired-into-full-device:entry-between-readiness-check-and-pulse)",
               "ambiguous physical histories are not generated: a ball falling back later than eject_timeout, a ball arriving "
               "later than ball_missing_timeout, a ball entering a device while that device's own ejected ball is under way, a "
               "playfield switch hit by another ball while a ball ejected to the playfield is falling back"]

STARVED_SIG = "stuck:source-not-woken-after-incoming-ball-lost:two-sources"
STARVED2_SIG = "stuck:source-not-woken-after-incoming-ball-lost:incoming-timeout"
RESTORE_SIG = "stuck:path-restored-through-empty-source:two-sources"
KNOWN_SIG = "fired-into-full-device:two-sources"      # D16, only for the two_src topology with a ball from the other source
OUTCOMES = ["ok"] * 7 + ["fallback", "stuck", "late", "astray"]


def gen_params(r, topo=None):
    topo = topo or ("std" if r.random() < 0.8 else "two_src")
    slots = r.choice([3, 4, 5])
    balls = r.randint(1, min(4, slots))
    e = r.choice([2000, 3000])
    p = {"topo": topo, "slots": slots, "balls": balls, "tries_trough": r.choice([2, 3, 3, 0]),
         "tries_plunger": r.choice([2, 3, 3, 0]), "tries_lock": r.choice([2, 3]), "eject_to": e,
         "missing_to": r.choice([4000, 5000]), "idle_to": 2000}
    return p


def gen_timing(r):
    return {"leave": r.choice([1, 1, 2, 4]) * bw.GRID, "transit": r.choice([2, 4, 8, 12, 20]) * bw.GRID,
            "fallback": r.choice([2, 6, 12, 24]) * bw.GRID, "late": r.choice([2, 8, 24]) * bw.GRID,
            "pf_switch": r.random() < 0.6}


def gen_outcomes(r, fail):
    def one(n):
        return [r.choice(OUTCOMES) if r.random() < fail else "ok" for _ in range(n)]
    return {"trough": one(8), "plunger": one(8), "lock": one(6)}


def gen_ops(r, p):
    ops = []
    n = r.randint(3, 14)
    for _ in range(n):
        k = r.random()
        if k < 0.3:
            ops.append(["add_ball"])
        elif k < 0.48:
            ops.append(["drain"])
        elif k < 0.6:
            ops.append(["lock", r.random() < 0.6])
        elif k < 0.68:
            ops.append(["release_lock"])
        elif k < 0.72:
            ops.append(["pf_hit"])
        elif k < 0.93:
            ops.append(["wait", r.choice([1, 2, 4, 8, 9, 16, 17, 32, 33, 40, 64, 80, 160])])
        else:
            ops.append(["rest"])
            if r.random() < 0.3:
                ops.append(["escape"])
    return ops


SCENARIOS = [
    # game start, drain
    [["add_ball"], ["rest"], ["drain"], ["rest"]],
    # multiball add while the first ball is on its way, then both drain
    [["add_ball"], ["wait", 8], ["add_ball"], ["add_ball"], ["rest"], ["drain"], ["wait", 3], ["drain"], ["rest"], ["drain"]],
    # lock shot (claimed), new ball served, lock released
    [["add_ball"], ["rest"], ["lock", True], ["add_ball"], ["rest"], ["release_lock"], ["rest"], ["drain"], ["drain"]],
    # unclaimed lock shot: the lock returns the ball
    [["add_ball"], ["rest"], ["lock", False], ["rest"], ["drain"]],
    # a drain arriving while the trough is mid-eject
    [["add_ball"], ["rest"], ["add_ball"], ["wait", 1], ["drain"], ["rest"]],
    [["add_ball"], ["rest"], ["add_ball"], ["drain"], ["rest"]],
    # more requests than balls
    [["add_ball"], ["add_ball"], ["add_ball"], ["add_ball"], ["add_ball"], ["rest"], ["drain"], ["rest"], ["drain"], ["drain"]],
    # ball escapes from the lock while everything is idle
    [["add_ball"], ["rest"], ["lock", True], ["rest"], ["escape"], ["rest"], ["drain"]],
]


def chain_restore_case():
    """directed history of the multi-hop class (trough -> launcher -> one of two targets): the ball of a request to the
    non-playfield target is lost on the first hop while no replacement exists anywhere, so the path restoration is queued in
    the trough; the lost balls drain back later (first one serves the queued request, second one stays in the trough); then
    another request through the launcher must be served from the trough.  Must pass on correct code: it pins the
    compensating `available_balls -= 1` of lost_ejected_ball's restore branch (a phantom available ball in the launcher makes
    the last request start its chain at the empty launcher, which then waits for ever)."""
    g = bw.GRID
    return {"p": {"topo": "chain", "slots": 3, "balls": 2, "tries_trough": 3, "tries_plunger": 3, "tries_lock": 3,
                  "eject_to": 2000, "missing_to": 4000, "idle_to": 2000},
            "timing": {"leave": g, "transit": 4 * g, "fallback": 6 * g, "late": 8 * g, "pf_switch": True},
            "outcomes": {"trough": ["ok", "astray"]},
            "ops": [["add_ball"], ["rest"], ["request_lock"], ["rest"], ["drain"], ["rest"], ["drain"], ["rest"], ["add_ball"],
                    ["rest"]]}


def chain_interleavings():
    """directed interleavings on the chain topology (trough A -> launcher B -> lock C): a second request is issued at every
    tick from before B's eject until after the fate of B's ball is known, with B's ball falling back into B or arriving
    late in C.  While B is in ball_left/failed_confirm its own ball can still come back: A must not fire at B in that
    window (physical truth: B would hold two balls)."""
    g = bw.GRID
    out = []
    for oc in ("fallback", "late"):
        for w in range(8, 44):
            second = ["request_lock"] if w % 2 == 0 else ["add_ball"]
            out.append({"p": {"topo": "chain", "slots": 3, "balls": 2, "tries_trough": 3, "tries_plunger": 3, "tries_lock": 3,
                              "eject_to": 2000, "missing_to": 4000, "idle_to": 2000},
                        "timing": {"leave": g, "transit": 4 * g, "fallback": 24 * g, "late": 8 * g, "pf_switch": False},
                        "outcomes": {"plunger": [oc]}, "ops": [["request_lock"], ["wait", w], second, ["rest"]]})
    return out


def two_requesters_case():
    """directed history of the two-requesters class: the eject hole (lock, fed from the playfield, listed BEFORE the plunger
    in the config) holds a stale queued request ("eject the next ball you get"), the plunger holds a queued playfield
    request while the trough is empty; a ball drains into the trough: `balldevice_balls_available` must reach the plunger
    although the lock's request cannot be served from there"""
    g = bw.GRID
    return {"p": {"topo": "std", "slots": 3, "balls": 1, "tries_trough": 3, "tries_plunger": 3, "tries_lock": 3,
                  "eject_to": 2000, "missing_to": 4000, "idle_to": 2000, "lock_first": True},
            "timing": {"leave": g, "transit": 4 * g, "fallback": 6 * g, "late": 8 * g, "pf_switch": True}, "outcomes": {},
            "ops": [["add_ball"], ["rest"], ["stale_release"], ["add_ball"], ["rest"], ["drain"], ["rest"]]}


def gen_chain_case(r):
    """random histories on the chain topology: requests to the lock (two hops) and to the playfield, first-hop losses
    (astray), drains bringing the lost balls back at any later time"""
    p = gen_params(r, "chain")
    p["balls"] = r.randint(1, 3)
    oc = gen_outcomes(r, r.choice([0.0, 0.2, 0.4]))
    for j in range(3):
        if r.random() < 0.4:
            oc["trough"][j] = "astray"
    ops = []
    for _ in range(r.randint(4, 14)):
        k = r.random()
        if k < 0.22:
            ops.append(["request_lock"])
        elif k < 0.4:
            ops.append(["add_ball"])
        elif k < 0.6:
            ops.append(["drain"])
        elif k < 0.66:
            ops.append(["release_lock"])
        elif k < 0.72:
            ops.append(["lock", r.random() < 0.5])
        elif k < 0.86:
            ops.append(["wait", r.choice([1, 8, 16, 33, 64, 120, 160])])
        else:
            ops.append(["rest"])
    return {"p": p, "timing": gen_timing(r), "outcomes": oc, "ops": ops}


def gen_ext_case(r, i):
    """session-3 stream: devices outside the three basic topologies' code paths - an entrance-switch counted lock
    (entrance_switch + ball_capacity, with/without entrance_switch_full_timeout and ignore window), a mechanical or
    coil+mechanical plunger with player-controlled ejects (the player lets go whenever he likes: before, during, long after the
    request; weak plunges that roll back), confirm_eject_type switch / event on the plunger (signal on time, late, never,
    spurious).  Flavours are drawn independently, at least one is active."""
    fl = {"entr": r.random() < 0.4, "mech": r.random() < 0.45, "conf": r.random() < 0.35, "hold": r.random() < 0.25}
    if not any(fl.values()):
        fl[r.choice(["entr", "mech", "conf", "hold"])] = True
    topo = "chain" if ((fl["entr"] or fl["conf"]) and not fl["mech"] and r.random() < 0.35) else "std"
    p = gen_params(r, topo)
    oc = gen_outcomes(r, r.choice([0.0, 0.15, 0.35]))
    timing = gen_timing(r)
    timing["strict_capture"] = True
    if timing["late"] == 24 * bw.GRID:
        # lateness 1.5 s + the count delay of 0.5 s = eject_timeout 2 s: the late ball would be counted at the very instant the
        # NEXT device's wait (skip wait of a mechanical plunger) times out - a coincidence of two MPF timers, see WITNESSES
        timing["late"] = 20 * bw.GRID
    if fl["entr"]:
        p["lock_counter"] = "entrance"
        p["lock_full_to"] = r.choice([0, 500, 500])
        p["lock_ignore_ms"] = r.choice([0, 0, 250])
        timing["entr_hold"] = r.choice([1, 2, 4]) * bw.GRID
        # an entrance-counted device has no sensor that could see its ball stay or come back: only outcomes it can handle
        oc["lock"] = [o if o in ("ok", "late", "astray") else "ok" for o in oc["lock"]]
    if fl["mech"]:
        p["plunger"] = r.choice(["mech", "mech", "combo"])
        p["tries_plunger"] = r.choice([0, 0, 0, 3])
        oc["plunge"] = [r.choice(["ok", "ok", "ok", "fallback"]) for _ in range(8)]
        if p["plunger"] == "mech":
            oc["plunger"] = []          # no coil: the outcome list of coil pulses is meaningless
    if fl["conf"]:
        p["confirm"] = r.choice(["switch", "event"])
        oc["confirm"] = [r.choice(["ontime", "ontime", "late", "never"]) for _ in range(8)]
        if topo == "chain":
            # the lane-exit signal comes, the ball does not: lost on the way to the lock
            oc["plunger"] = [("astray" if r.random() < 0.3 else o) for o in oc["plunger"]]
    if fl["hold"]:
        # the trough's (sometimes the plunger's) ball_eject_attempt queue event is held for a while
        p["hold_attempt"] = {r.choice(["trough", "trough", "plunger"]): r.choice([4, 8, 16, 40])}
    ops = []
    if r.random() < 0.75:
        # warm-up: one to three balls are brought into play, so that lock shots, roll-backs into the plunger lane and
        # playfield hits have a ball to work with
        for _ in range(r.randint(1, min(3, p["balls"]))):
            ops.append(["add_ball_pc"] if fl["mech"] and r.random() < 0.7 else ["add_ball"])
            ops.append(["wait", r.choice([8, 24, 40, 64])])
            if fl["mech"]:
                ops.append(["plunge"])
                ops.append(["wait", r.choice([1, 8, 16, 40])])
        if r.random() < 0.5:
            ops.append(["rest"])
    for _ in range(r.randint(4, 14)):
        k = r.random()
        if fl["mech"] and r.random() < 0.08:
            # a ball rolls back into the plunger lane and is held there (claimed); the player plunges it with no request pending
            ops += [["pf_to_plunger", True], ["wait", r.choice([16, 24, 40])], ["plunge"], ["wait", r.choice([8, 24, 40, 64])]]
            continue
        if k < 0.12:
            ops.append(["add_ball_pc"] if fl["mech"] and r.random() < 0.7 else ["add_ball"])
        elif k < 0.30 and fl["mech"]:
            ops.append(["plunge"] if r.random() < 0.8 or p["plunger"] != "combo" else ["launch"])
        elif k < 0.36 and (fl["mech"] or fl["hold"]):
            ops.append(["pf_to_plunger", r.random() < 0.6])
        elif k < 0.30 and fl["hold"]:
            # a request, and while its eject attempt is being held a ball rolls back into the plunger lane
            ops += [["add_ball"], ["wait", r.choice([1, 2, 4, 8])], ["pf_to_plunger", r.random() < 0.5]]
        elif k < 0.30 and fl["entr"]:
            ops.append(["lock", r.random() < 0.7])
        elif k < 0.38 and fl["entr"]:
            ops.append(["request_lock"] if topo == "chain" else ["release_lock"])
        elif k < 0.44 and fl["conf"]:
            ops.append(["spurious_confirm"])
        elif k < 0.54:
            ops.append(["drain"])
        elif k < 0.62:
            ops.append(["lock", r.random() < 0.6])
        elif k < 0.68:
            ops.append(["release_lock"])
        elif k < 0.72:
            ops.append(["pf_hit"])
        elif k < 0.92:
            ops.append(["wait", r.choice([1, 2, 4, 8, 9, 16, 17, 32, 33, 40, 64, 80, 160])])
        else:
            ops.append(["rest"])
    return {"p": p, "timing": timing, "outcomes": oc, "ops": ops, "env_offset": True}


def manual_idle_case(weak):
    """directed history of C05's 'manual eject with no request': a ball rests, claimed, in the idle mechanical plunger lane;
    the player plunges it (weak = it rolls back after the count has settled, then he plunges again); the ball drains and a new
    ball is requested.  Must pass on correct code: the ball is adopted (claim moves to the playfield, nothing left behind in
    the plunger), a ball that comes back is ejected like any other, and the later request is served from the trough."""
    g = bw.GRID
    return {"p": {"topo": "std", "slots": 3, "balls": 2, "tries_trough": 3, "tries_plunger": 0, "tries_lock": 3,
                  "eject_to": 2000, "missing_to": 4000, "idle_to": 2000, "plunger": "mech"},
            "timing": {"leave": g, "transit": 4 * g, "fallback": 12 * g, "late": 8 * g, "pf_switch": True},
            "outcomes": {"plunge": ["ok", "fallback", "ok"] if weak else ["ok", "ok", "ok"]},
            "ops": [["add_ball_pc"], ["wait", 40], ["plunge"], ["rest"], ["pf_to_plunger", True], ["rest"], ["plunge"], ["rest"],
                    ["drain"], ["rest"], ["add_ball_pc"], ["rest"]]}


def entrance_case(full_to):
    """directed history of the entrance-counted lock: two lock shots fill it (with entrance_switch_full_timeout the second
    ball comes to rest on the entrance switch), a third shot is impossible, both balls are released one after the other"""
    g = bw.GRID
    return {"p": {"topo": "std", "slots": 4, "balls": 3, "tries_trough": 3, "tries_plunger": 3, "tries_lock": 3,
                  "eject_to": 2000, "missing_to": 4000, "idle_to": 2000, "lock_counter": "entrance", "lock_full_to": full_to},
            "timing": {"leave": g, "transit": 4 * g, "fallback": 6 * g, "late": 8 * g, "pf_switch": True, "entr_hold": g},
            "outcomes": {},
            "ops": [["add_ball"], ["add_ball"], ["add_ball"], ["rest"], ["lock", True], ["wait", 4], ["lock", True], ["rest"],
                    ["lock", True], ["rest"], ["release_lock"], ["wait", 8], ["release_lock"], ["rest"], ["drain"], ["rest"]]}


def entrance_race_case(gap):
    """directed history of the entrance-counted lock with entrance_switch_full_timeout (found by the session-3 stream, shrunk):
    the lock holds one ball and is asked to release it; `gap` ticks later - the release is under way - the ball that fills the
    lock rolls in and comes to rest on the entrance switch, until the released ball has left and it rolls down: the switch opens
    after less than the full time-out.  By design such a short hit is a bounce; the ball is in the lock and is not counted."""
    g = bw.GRID
    return {"p": {"topo": "std", "slots": 4, "balls": 4, "tries_trough": 2, "tries_plunger": 0, "tries_lock": 3, "eject_to": 2000,
                  "missing_to": 4000, "idle_to": 2000, "lock_counter": "entrance", "lock_full_to": 500, "lock_ignore_ms": 250},
            "timing": {"leave": g, "transit": 2 * g, "fallback": 24 * g, "late": 2 * g, "pf_switch": True, "entr_hold": 4 * g,
                       "ambiguous": True},
            "outcomes": {}, "as_sig": "count-low:entrance-ball-rested-shorter-than-full-timeout",
            "ops": [["add_ball"], ["add_ball"], ["wait", 64], ["lock", True], ["wait", 80], ["add_ball"], ["release_lock"]] +
                   ([["wait", gap]] if gap else []) + [["lock", True], ["rest"], ["release_lock"], ["rest"]]}


def held_attempt_case(hold, gap, claimed):
    """directed history of 'something holds the ball_eject_attempt queue event': a ball is in play; another is requested; the
    trough's eject attempt is held for `hold` ticks; `gap` ticks into the hold the first ball rolls back into the capacity-1
    plunger lane (held there or not).  The trough must look at the plunger AFTER the hold: no ball may be fired at the occupied
    plunger."""
    g = bw.GRID
    return {"p": {"topo": "std", "slots": 3, "balls": 2, "tries_trough": 3, "tries_plunger": 3, "tries_lock": 3, "eject_to": 2000,
                  "missing_to": 4000, "idle_to": 2000, "hold_attempt": {"trough": hold}},
            "timing": {"leave": g, "transit": 4 * g, "fallback": 6 * g, "late": 8 * g, "pf_switch": True, "strict_capture": True},
            "outcomes": {}, "env_offset": True,
            "ops": [["add_ball"], ["rest"], ["add_ball"], ["wait", gap], ["pf_to_plunger", claimed], ["rest"], ["drain"], ["rest"]]}


def ext_confirm_lost_case(kind):
    """directed history of confirm_eject_type switch|event towards a DEVICE: the only ball is requested for the lock (capacity 2);
    the plunger's lane-exit signal confirms the eject but the ball never reaches the lock (it ends up on the playfield), so the
    lock's incoming ball times out and no replacement exists; later the ball is shot into the lock from the playfield and held;
    then the lock, not full, is asked to release it: it must eject it (and not wait for an incoming ball that is long gone)."""
    g = bw.GRID
    return {"p": {"topo": "chain", "slots": 3, "balls": 1, "tries_trough": 3, "tries_plunger": 3, "tries_lock": 3, "eject_to": 2000,
                  "missing_to": 4000, "idle_to": 2000, "confirm": kind},
            "timing": {"leave": g, "transit": 4 * g, "fallback": 6 * g, "late": 8 * g, "pf_switch": True, "strict_capture": True},
            "outcomes": {"plunger": ["astray"], "confirm": ["ontime", "ontime", "ontime"]}, "env_offset": True,
            "ops": [["request_lock"], ["rest"], ["lock", True], ["rest"], ["release_lock"], ["rest"]]}


def skip_idle_case():
    """directed history of the 'ball may have skipped the mechanical device' logic with the device IDLE (found by the session-3
    stream, shrunk): a ball rolls back into the mechanical plunger lane and is held there (claimed) at the moment a new ball is
    requested; the plunger uses the held ball for the request, so the trough's ball is to replace it; that ball goes astray
    (ends up on the playfield) and MPF concludes after the time-outs that it has passed the plunger: its claim must move to the
    playfield with it.  Must pass on correct code."""
    return {"p": {"topo": "chain", "slots": 3, "balls": 3, "tries_trough": 3, "tries_plunger": 0, "tries_lock": 3, "eject_to": 3000,
                  "missing_to": 5000, "idle_to": 2000, "lock_counter": "entrance", "lock_full_to": 500, "lock_ignore_ms": 0,
                  "plunger": "mech"},
            "timing": {"leave": 0.125, "transit": 0.5, "fallback": 0.75, "late": 0.125, "pf_switch": True, "strict_capture": True,
                       "entr_hold": 0.125},
            "outcomes": {"trough": ["ok", "ok", "astray"], "plunger": [], "lock": [], "plunge": ["fallback", "ok", "fallback", "ok"]},
            "ops": [["add_ball_pc"], ["add_ball_pc"], ["rest"], ["pf_to_plunger", True], ["add_ball"]], "env_offset": True}


def gen_case(r, i, heavy=False):
    case = _gen_case(r, i, heavy)
    if case["p"]["topo"] == "std":
        # flavours decided by the case index (no extra random draw, the streams stay what they were): the lock listed before
        # the plunger in the config (order of the balldevice_balls_available handlers), and a stale eject request left at
        # the empty lock (second requester)
        if i % 2 == 1:
            case["p"]["lock_first"] = True
        if i % 7 in (3, 4):
            case["ops"].insert(min(len(case["ops"]), i % 3), ["stale_release"])
    return case


def _gen_case(r, i, heavy=False):
    if i % 5 == 4:
        return gen_chain_case(r)
    if heavy and r.random() < 0.5:
        # C05 stream: long failure sequences (up to max_eject_attempts + 2), overlapping requests
        p = gen_params(r, "std")
        n = r.randint(1, 5)
        seq = [r.choice(["stuck", "fallback", "stuck", "fallback", "late", "astray"]) for _ in range(n)]
        oc = gen_outcomes(r, 0.1)
        oc[r.choice(["trough", "plunger"])][0:0] = seq
        ops = [["add_ball"]] * r.randint(1, 3) + [["wait", r.choice([1, 8, 33, 64])]] + [["add_ball"]] * r.randint(0, 2) + [["rest"], ["drain"], ["add_ball"], ["rest"]]
        return {"p": p, "timing": gen_timing(r), "outcomes": oc, "ops": [list(o) for o in ops]}
    k = r.random()
    if k < 0.25:
        p = gen_params(r, "std")
        ops = [list(o) for o in SCENARIOS[i % len(SCENARIOS)]]
        return {"p": p, "timing": gen_timing(r), "outcomes": gen_outcomes(r, r.choice([0.0, 0.3, 0.6])), "ops": ops}
    p = gen_params(r)
    return {"p": p, "timing": gen_timing(r), "outcomes": gen_outcomes(r, r.choice([0.0, 0.15, 0.35, 0.7])),
            "ops": gen_ops(r, p)}


def d16_case(r):
    """the recorded finding's topology: trough and lock both feed the capacity-1 plunger; two requests at once"""
    p = gen_params(r, "two_src")
    p["balls"] = max(2, p["balls"])
    return {"p": p, "timing": gen_timing(r), "outcomes": {},
            "ops": [["add_ball"], ["rest"], ["lock", True], ["rest"], ["release_lock"], ["add_ball"], ["rest"]]}


def starved_case():
    """witness of the second two-sources finding (found by the thorough C05 stream, shrunk): the trough's second ball goes
    astray while the lock waits for room in the plunger; the ball is declared lost, the room is free, the lock is never woken"""
    return {"p": {"topo": "two_src", "slots": 3, "balls": 3, "tries_trough": 2, "tries_plunger": 3, "tries_lock": 2,
                  "eject_to": 3000, "missing_to": 4000, "idle_to": 2000},
            "timing": {"leave": 0.0625, "transit": 0.25, "fallback": 1.5, "late": 0.5, "pf_switch": True},
            "outcomes": {"trough": ["ok", "astray"], "plunger": [], "lock": []},
            "ops": [["add_ball"], ["add_ball"], ["wait", 64], ["lock", False]]}


def restore_empty_source_case():
    """witness of the third two-sources finding (found by the thorough C04 stream, seed 3): trough and lock fire at the plunger
    in the same instant (D16), the trough's ball goes astray, the lock's ball arrives and is taken for the trough's; the lock's
    eject is declared lost and the path restored by asking the lock - which is empty - for another ball"""
    return {"p": {"balls": 4, "eject_to": 2000, "idle_to": 2000, "missing_to": 4000, "slots": 5, "topo": "two_src", "tries_lock": 3, "tries_plunger": 3, "tries_trough": 3},
            "timing": {"fallback": 0.75, "late": 0.5, "leave": 0.0625, "transit": 0.75, "pf_switch": True},
            "outcomes": {"lock": ["ok", "ok", "astray", "ok", "ok", "ok"], "plunger": ["ok", "ok", "ok", "ok", "ok", "ok", "ok", "ok"], "trough": ["ok", "ok", "astray", "ok", "ok", "stuck", "ok", "ok"]},
            "ops": [["add_ball"], ["rest"], ["lock", False], ["add_ball"], ["add_ball"]]}


def starved_chain_case():
    """witness of the same finding by the session-3 route (found by the C05 stream, seed 1, shrunk): chain topology, the plunger
    confirms its ejects by an event; the first ball requested for the lock goes astray after the lane-exit signal (registered as
    incoming at the lock until its time-out), the second request's ball waits in the launcher for room; the incoming ball times
    out, the room is free, the launcher is never woken"""
    return {"p": {"topo": "chain", "slots": 4, "balls": 3, "tries_trough": 3, "tries_plunger": 2, "tries_lock": 2, "eject_to": 2000,
                  "missing_to": 5000, "idle_to": 2000, "confirm": "event", "lock_counter": "entrance", "lock_full_to": 500,
                  "lock_ignore_ms": 250},
            "timing": {"leave": 0.0625, "transit": 0.75, "fallback": 0.375, "late": 0.5, "pf_switch": True, "strict_capture": True,
                       "entr_hold": 0.125},
            "outcomes": {"plunger": ["ok", "astray", "astray"], "confirm": ["never", "ontime", "late", "ontime"]}, "env_offset": True,
            "ops": [["add_ball"], ["wait", 80], ["request_lock"], ["request_lock"], ["lock", True]]}


WP = {"topo": "std", "slots": 3, "balls": 2, "tries_trough": 3, "tries_plunger": 3, "tries_lock": 3, "eject_to": 2000,
      "missing_to": 4000, "idle_to": 2000}
G = bw.GRID

# Directed minimal witnesses of histories that the random generator deliberately does not produce (see ASSUMPTIONS):
# physically possible, but ambiguous for any timeout/switch based bookkeeping.  They run first on every check; each has
# its own signature (classified from the simulator's record of the event, see ballworld.classify_fired_full).
WITNESSES = [
    # the plunger's ball falls back 2.5 s after leaving; eject_timeout is 2 s: MPF has confirmed the eject by timeout and
    # fires the next ball at the plunger while the first one is still rolling back
    ("fired-into-full-device:fallback-after-eject-timeout",
     {"p": WP, "timing": {"leave": G, "transit": 4 * G, "fallback": 40 * G, "late": 8 * G, "pf_switch": False},
      "outcomes": {"plunger": ["fallback"]}, "ops": [["add_ball"], ["add_ball"], ["rest"]]}),
    # the trough's ball needs longer than eject_timeout + ball_missing_timeout: MPF declares it lost (assumes it is on the
    # playfield), serves the next request, and the first ball arrives after all
    ("fired-into-full-device:arrival-after-ball-missing-timeout",
     {"p": WP, "timing": {"leave": G, "transit": 4 * G, "fallback": 6 * G, "late": 8 * G, "pf_switch": False},
      "outcomes": {"trough": ["verylate"]}, "ops": [["add_ball"], ["add_ball"], ["rest"]]}),
    # a ball drains into the trough at the instant the trough ejects; the ejected ball is late: at eject_timeout MPF takes
    # the drained ball for the ejected ball having come back, retries, and the first ball arrives as well
    ("misattributed:entry-during-own-eject",
     {"p": WP, "timing": {"leave": G, "transit": 4 * G, "fallback": 6 * G, "late": 2 * G, "pf_switch": False, "ambiguous": True},
      "outcomes": {"trough": ["ok", "late"]}, "ops": [["add_ball"], ["rest"], ["add_ball"], ["drain"], ["rest"]]}),
    # the plunger's ball falls back; meanwhile the lock's released ball reaches the playfield and hits a playfield switch:
    # MPF credits that hit to the plunger's eject (first incoming ball of the playfield) and fires the next ball at the plunger
    ("misattributed:playfield-hit-after-return",
     {"p": dict(WP, balls=3), "timing": {"leave": G, "transit": 4 * G, "fallback": 24 * G, "late": 8 * G, "pf_switch": True,
                                         "ambiguous": True},
      "outcomes": {"plunger": ["ok", "fallback"]},
      "ops": [["add_ball"], ["rest"], ["lock", True], ["rest"], ["add_ball"], ["add_ball"], ["wait", 16], ["release_lock"], ["rest"]]}),
    # BallDevice.balls is -1 between end_eject() and the state leaving ball_left (see module docstring)
    ("count-negative:balls-property-after-eject-success",
     {"p": WP, "timing": {"leave": G, "transit": 4 * G, "fallback": 6 * G, "late": 8 * G, "pf_switch": True},
      "outcomes": {}, "ops": [["add_ball"], ["rest"]], "report_transient": True}),
    # an entrance-switch counted lock (capacity 2, full) releases a ball to the playfield (no playfield switch: the eject stays
    # unconfirmed until eject_timeout); one second later another ball rolls in: counted_balls = 3
    ("count-above-capacity:counted_balls-entry-during-unconfirmed-eject",
     {"p": dict(WP, slots=4, balls=3, lock_counter="entrance", lock_full_to=0),
      "timing": {"leave": G, "transit": 4 * G, "fallback": 6 * G, "late": 8 * G, "pf_switch": False, "entr_hold": G,
                 "ambiguous": True},
      "outcomes": {}, "ops": [["add_ball"], ["add_ball"], ["add_ball"], ["rest"], ["lock", True], ["wait", 16], ["lock", True],
                              ["rest"], ["release_lock"], ["wait", 16], ["lock", True], ["rest"]]}),
    # two same-instant races of the "ball may have skipped the mechanical device" logic (found by the session-3 stream when
    # environment events still fell on MPF's grid instants; every oracle failure of these two histories is reported under the
    # witness' signature, the raw clauses are in the detail):
    # (1) the plunged ball passes the lane faster than the plunger's count delay, drains, and is counted in the trough at the
    # very instant the plunger's skip wait times out: the plunger reports eject success (playfield +1) AND the trough takes
    # the drained ball for its own ball returned (eject failed, retried) - one ball credited twice
    ("race:drain-counted-at-skip-timeout-instant",
     {"p": dict(WP, tries_trough=0, tries_plunger=0, eject_to=3000, missing_to=5000, plunger="mech"),
      "timing": {"leave": 2 * G, "transit": 2 * G, "fallback": 12 * G, "late": 2 * G, "pf_switch": True, "ambiguous": True},
      "outcomes": {}, "as_sig": "race:drain-counted-at-skip-timeout-instant",
      "ops": [["add_ball_pc"], ["wait", 8], ["plunge"], ["wait", 40], ["wait", 40], ["wait", 2], ["drain"]]}),
    # (2) a weakly plunged ball settles back in the plunger and is counted there at the very instant the trough's confirm
    # window for that ball closes: Util.first cancels wait_for_ball() half way (trough's eject confirmed, ball never entered
    # in the plunger's books), the already arrived incoming ball is registered as "may skip" afterwards; BallDevice.balls = -1
    # and later a double remove raises (AttributeError: OutgoingBallsHandler has no attribute unit_test)
    ("race:ball-counted-at-source-eject-timeout-instant",
     {"p": dict(WP, slots=5, balls=3, tries_trough=0, missing_to=5000, plunger="combo", confirm="event"),
      "timing": {"leave": 2 * G, "transit": 20 * G, "fallback": 2 * G, "late": 8 * G, "pf_switch": True, "ambiguous": True},
      "outcomes": {"plunge": ["ok", "fallback", "ok"], "confirm": ["ontime", "ontime", "late"]},
      "as_sig": "race:ball-counted-at-source-eject-timeout-instant",
      "ops": [["add_ball_pc"], ["wait", 40], ["plunge"], ["wait", 8], ["add_ball_pc"], ["wait", 24], ["plunge"], ["wait", 8]]}),
    # an entrance-counted lock with entrance_switch_full_timeout is releasing a ball when the ball that fills it rolls in: it
    # rests on the entrance switch only until the released ball has left (shorter than the full time-out) and is never counted
    ("count-low:entrance-ball-rested-shorter-than-full-timeout", None),
]
WITNESSES[-1] = (WITNESSES[-1][0], entrance_race_case(0))
# found by the thorough stream (seed 4): the trough has passed its readiness check for the plunger (state "ejecting") and waits
# in BallCountHandler.start_eject() for its own count lock (a ball has just drained into it); a ball rolls from the playfield
# into the plunger in that window and is not yet counted there when the trough fires (the code's TODO "block one spot in
# target device")
WITNESSES.append(("fired-into-full-device:entry-between-readiness-check-and-pulse",
                  {"env_offset": True, "ops": [["add_ball_pc"], ["wait", 8], ["add_ball_pc"], ["wait", 8], ["plunge"], ["add_ball"], ["wait", 24], ["pf_hit"], ["plunge"], ["wait", 17], ["pf_hit"], ["drain"], ["release_lock"], ["spurious_confirm"], ["spurious_confirm"], ["pf_to_plunger", True], ["wait", 40]], "outcomes": {"confirm": ["ontime", "late", "ontime", "never", "late", "ontime", "late", "never"], "lock": ["ok", "ok", "ok", "ok", "ok", "ok"], "plunge": ["ok", "ok", "ok", "ok", "ok", "fallback", "ok", "ok"], "plunger": [], "trough": ["ok", "ok", "ok", "ok", "ok", "ok", "ok", "ok"]}, "p": {"balls": 3, "confirm": "switch", "eject_to": 3000, "idle_to": 2000, "missing_to": 4000, "plunger": "mech", "slots": 4, "topo": "std", "tries_lock": 2, "tries_plunger": 3, "tries_trough": 3}, "timing": {"fallback": 0.125, "late": 0.5, "leave": 0.125, "pf_switch": False, "strict_capture": True, "transit": 0.5, "ambiguous": True}}))
WITNESS_SIGS = tuple(w[0] for w in WITNESSES)


def shrink(case, sig):
    def fails(ops):
        res = bw.run_case(dict(case, ops=ops), None, "C05" if bw.is_progress_sig(sig) else "C04")
        return any(f[0] == sig for f in res.failures)
    try:
        return dict(case, ops=ddmin(case["ops"], fails, max_tests=60))
    except Exception:
        return case


LISTED = (KNOWN_SIG, STARVED_SIG, STARVED2_SIG, RESTORE_SIG) + WITNESS_SIGS      # classes with a directed witness: never shrunk, never stop the run


def eval_case(ctx, case, model, focus):
    """focus: 'C04' (counts) | 'C05' (progress): which oracle failures belong to this property"""
    if case.get("as_sig"):
        model = None                # witness of a known race: the ledger is not expected to follow it
    res = bw.run_case(case, model, focus)
    ctx.evaluated(case, res.nontrivial)
    for k, v in res.hist.items():
        ctx.count(k, v)
    ctx.count("steps", res.steps)
    ctx.notes["balls_property_minus_one_normalisations"] = ctx.notes.get("balls_property_minus_one_normalisations", 0) + \
        res.hist.get("transient_balls_property_minus_one", 0)
    if model is not None:
        # one comparison per case: the whole observed history is an enabled ledger run with equal counts at every step
        ctx.compare(dict(case, what="monitor"), "refines" if res.mismatch is None else res.mismatch, "refines")
    failures = res.failures
    if case.get("as_sig") and failures:
        # a directed witness of a known race: whatever oracle clauses fail, it is this one finding
        failures = [(case["as_sig"], {"raw_signatures": [f[0] for f in failures], "first": failures[0][1]})]
    for sig, detail in failures:
        if case.get("as_sig"):
            ctx.fail(sig, case, detail)
            continue
        mine = bw.is_progress_sig(sig)
        if (focus == "C05") != mine and not sig.startswith("crash:"):
            ctx.count("other_property_failure")
            continue
        c2 = case
        unknown = [f for f in ctx.failures if f["signature"] not in LISTED]
        if sig not in LISTED and not unknown:
            c2 = shrink(case, sig)          # only the first failure of a run is shrunk (it becomes the replay)
        ctx.fail(sig, c2, detail)
    return res


def run(ctx, focus="C04", ident=ID):
    model = None if getattr(ctx, "model_unavailable", False) else leanproc.LeanProc(ident)
    try:
        res = eval_case(ctx, chain_restore_case(), model, focus)
        ctx.notes["chain_restore_case"] = {"failures": [f[0] for f in res.failures], "lostEjected": res.hist.get("op_lostEjected", 0),
                                           "queued_replacement": res.hist.get("op_queueReq", 0)}
        res = eval_case(ctx, two_requesters_case(), model, focus)
        ctx.notes["two_requesters_case"] = [f[0] for f in res.failures]
        if focus == "C04":
            bad = 0
            for icase in chain_interleavings():
                bad += len(eval_case(ctx, icase, model, focus).failures)
            ctx.notes["chain_interleavings"] = {"cases": len(chain_interleavings()), "with_failures": bad}
            eval_case(ctx, d16_case(ctx.rng("d16")), model, focus)
            for sig, wcase in WITNESSES:
                res = eval_case(ctx, wcase, model, focus)
                ctx.notes.setdefault("witnesses", {})[sig] = [f[0] for f in res.failures]
        else:
            eval_case(ctx, starved_case(), model, focus)
            res = eval_case(ctx, restore_empty_source_case(), model, focus)
            ctx.notes["restore_empty_source_case"] = [f[0] for f in res.failures]
            res = eval_case(ctx, starved_chain_case(), model, focus)
            ctx.notes["starved_chain_case"] = [f[0] for f in res.failures]
        for weak in (False, True):
            res = eval_case(ctx, manual_idle_case(weak), model, focus)
            ctx.notes.setdefault("manual_idle_cases", {})["weak" if weak else "clean"] = {
                "failures": [f[0] for f in res.failures], "manualLeft": res.hist.get("op_manualLeft", 0),
                "manualReturn": res.hist.get("op_manualReturn", 0)}
        for full_to in (0, 500):
            res = eval_case(ctx, entrance_case(full_to), model, focus)
            ctx.notes.setdefault("entrance_cases", {})[str(full_to)] = {"failures": [f[0] for f in res.failures],
                                                                        "ec_ops": res.hist.get("op_ec", 0)}
        bad = 0
        for hold, gap, claimed in ((16, 4, True), (16, 4, False), (40, 12, True), (8, 1, False), (8, 7, True)):
            bad += len(eval_case(ctx, held_attempt_case(hold, gap, claimed), model, focus).failures)
        ctx.notes["held_attempt_cases"] = {"cases": 5, "with_failures": bad}
        for kind in ("switch", "event"):
            res = eval_case(ctx, ext_confirm_lost_case(kind), model, focus)
            ctx.notes.setdefault("ext_confirm_lost_cases", {})[kind] = {
                "failures": [f[0] for f in res.failures], "extConfirm": res.hist.get("op_extConfirm", 0),
                "incomingTimeout": res.hist.get("op_incomingTimeout", 0)}
        res = eval_case(ctx, skip_idle_case(), model, focus)
        ctx.notes["skip_idle_case"] = {"failures": [f[0] for f in res.failures], "skipConfirmIdle": res.hist.get("op_skipConfirmIdle", 0)}
        for i in range(ctx.n(600 if focus == "C04" else 480, 6000)):
            eval_case(ctx, gen_case(ctx.rng("case", i), i, heavy=(focus == "C05")), model, focus)
            if len([f for f in ctx.failures if f["signature"] not in LISTED]) >= 3:
                break                       # a violation is established; the first (shrunk) one is reported
        for i in range(ctx.n(200, 1600)):
            if len([f for f in ctx.failures if f["signature"] not in LISTED]) >= 3:
                break
            eval_case(ctx, gen_ext_case(ctx.rng("ext", i), i), model, focus)
    finally:
        if model is not None:
            model.close()


def replay(ctx, rep, focus="C04"):
    case = dict(rep["case"])
    # the replay file stores floats canonically as strings
    case["timing"] = {k: (float(v) if isinstance(v, str) else v) for k, v in case["timing"].items()}
    eval_case(ctx, case, None, focus)
