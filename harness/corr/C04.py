"""C04 - ball counts agree with the physical machine and are conserved (partial proof: ledger protocol + refinement monitor).

Implementation side: the REAL ball devices, playfield and ball controller on a real machine (virtual platform,
TimeTravelLoop) inside a physical-world simulator that lives in the harness (harness/common/ballworld.py): balls are
tokens in device slots (one switch each) / loose on the playfield / in transit; switches are driven through
switch_controller.process_switch, coil pulses are intercepted at the platform driver objects; every eject attempt has a
generated outcome (ok / stuck / falls back / late / astray).  The repo's smart_virtual platform is not used.
Model side: MpfVerif.Model.BallLedger as a *monitor*: MPF's observable events are abstracted to ledger transitions; the
Lean driver answers `ok <counts>` or `not-enabled`, and the counts are compared with the real ones after every step.
Oracle (model independent): at every rest point device counts = physical truth, playfield count = loose balls, sums =
known; never a count < 0 or > capacity; MPF never pulses a coil towards a device without room.

Histories the random generator does not produce, and why that hides nothing: four classes of physically possible but
ambiguous histories (a ball falling back after eject_timeout, a ball arriving after ball_missing_timeout, a ball entering
a device during that device's own eject, a playfield switch hit by another ball while an ejected ball falls back) make
MPF fire into a full device.  Each has ONE deterministic minimal witness (WITNESSES below) that runs first on every check
and raises its own signature (listed in known_findings.json); the random stream stays restricted so that every *other*
failure is a new finding and the check is deterministic.

The `balls == -1` normalisation: BallCountHandler.end_eject() decrements counted_balls while BallDevice._state is still
ball_left/failed_confirm; for non-trough devices the state only changes after `await counter.count_balls()`, i.e. up to
exit_count_delay (0.5 s) later.  In that window the *property* BallDevice.balls (= counted_balls - 1 in those states)
reads one too low, -1 for a device that has just ejected its only ball.  That IS an observable violation of "no count is
ever negative" (any handler reading device.balls in the window sees it), so it has a witness + signature of its own
(count-negative:balls-property-after-eject-success).  counted_balls, available_balls and playfield.balls are never
affected and the value is exact again when the state changes, so for the *monitor* (which treats "eject finished" as one
ledger transition) and for the bounds oracle of the random stream the observation is normalised to counted_balls/idle;
every normalisation that hid a negative value is counted (evidence: balls_property_minus_one_normalisations).  The
obvious one-line repair (set the state to idle right after end_eject(True)) breaks test_MultiballLock.test_multiple_eject,
so it is recorded as a finding, not fixed.
"""
from harness.common import leanproc, ballworld as bw
from harness.common.shrink import ddmin

ID = "C04"
LEAN_MODULES = ["MpfVerif.Props.C04"]
PROPS_FILE = "MpfVerif/Props/C04.lean"
GEN = []
MANIFEST = {
    "text": "PARTIAL proof. Proved in Lean about the ball ledger (Model/BallLedger.lean: the bookkeeping protocol of MPF's ball devices at the granularity of its own accounting events - plan, ejectStart, ballLeft, confirm/lateConfirm, ejectFailedReturn/Stuck, enterExpected/Unexpected, pfCapture, lostEjected, lostIdle, incomingTimeout, newBallFound, broken - with the code's guards): for every interleaving of these transitions the available_balls claims sum to the number of balls known, device balls + playfield balls + balls in flight sum to the number known, 0 <= balls <= counted <= capacity for every device, and for every configuration in which every device target has a single source (decidable predicate Cfg.singleSource) no reachable state enables a coil firing towards a device whose room is already taken (invariant heading = incoming + [source mid-fire] carried through all 23 transitions); with two sources the guard passes twice (witness theorem = known finding D16). NOT proved: that the ~2000 lines of asyncio coroutines only perform these transitions. That is tied by a refinement monitor on every run: the real devices run inside a physical-world simulator (slots, switches through process_switch, coil pulses intercepted, transit/settle times, eject outcomes ok/stuck/fallback/late/astray), every observed step must be an enabled ledger transition with the same resulting counts, and at every rest point the real counts are compared with the simulator's physical truth.",
    "note": "Outside the model (named runtime behaviour): asyncio task interleaving inside one device, switch debounce and activity classification in switch_counter._run, timer expiry (the monitor is told which timeout fired), real switch bounce, jam switches, entrance-switch counters, mechanical/player-controlled ejects, ball search, confirm_eject_type switch/event. Topologies: trough->plunger->playfield + lock->playfield; trough+lock->plunger (two sources); chain trough->launcher->{playfield|lock} with two-hop requests to the non-playfield target (the launcher's diverter follows the target of MPF's own ejecting_ball event, as a diverter coil wired to that event would - the only place where the world listens to MPF). Trusted: Lean kernel + standard axioms; the hand-written ledger; harness/common/ballworld.py (world simulator + trace abstraction). Known findings, each with a deterministic witness history that runs on every check: two sources, one free slot (D16); ball falling back after eject_timeout; ball arriving after ball_missing_timeout; ball entering a device during its own eject taken for the returning ball; playfield switch hit by another ball credited to an eject whose ball falls back; BallDevice.balls reading -1 between end_eject and the state change.",
    "technique": "Lean theorems by induction over transition lists of a hand-written protocol model + runtime refinement monitor and physical-truth oracle on the real devices",
    "translated": False,
}
RULE = ("a case = a machine configuration (topology std|two_src|chain [trough->launcher->{playfield|lock}, every 5th case], trough slots 3-5, balls 1-4, max_eject_attempts per device, "
        "eject/ball-missing/idle timeouts), physical timings on the 1/16 s grid (leave, transit, fall-back, lateness, playfield "
        "switch or not), one outcome list per device (ok/stuck/fallback/late/astray) and 3-14 actions (add_ball, drain, lock "
        "shot claimed or not, release_lock, stale_release [eject event at the empty lock], request_lock [two-hop request to a non-playfield target], escape, playfield switch hit, wait, rest). non-trivial = at least one ball physically "
        "left a device; distinct = canonical JSON of the case")
TRUSTED = ["modelled, not verified: the coroutines of mpf/devices/ball_device/*.py are tied to the ledger only by the runtime "
           "monitor (sampled schedules), not by proof; asyncio scheduling, switch debounce (switch_counter._run), timers",
           "harness/common/ballworld.py: physical-world simulator and event->transition abstraction (hand-written)",
           "Model/BallLedger.lean is hand-written; validated by the monitor on every run"]
ASSUMPTIONS = ["one physical exit per device; balls only enter a device when a slot is free (a ball cannot rest in a device "
               "without closing a switch)", "no jam switch, no entrance-switch counter, no mechanical eject, ball search off",
               "two sources feeding one target can double-fire (known finding D16)",
               "ambiguous physical histories are not generated: a ball falling back later than eject_timeout, a ball arriving "
               "later than ball_missing_timeout, a ball entering a device while that device's own ejected ball is under way, a "
               "playfield switch hit by another ball while a ball ejected to the playfield is falling back"]

STARVED_SIG = "stuck:source-not-woken-after-incoming-ball-lost:two-sources"
KNOWN_SIG = "fired-into-full-device:two-sources"      # D16, only for the two_src topology with a ball from the other source
OUTCOMES = ["ok"] * 7 + ["fallback", "stuck", "late", "astray"]


def gen_params(r, topo=None):
    topo = topo or ("std" if r.random() < 0.8 else "two_src")
    slots = r.choice([3, 4, 5])
    balls = r.randint(1, min(4, slots))
    e = r.choice([2000, 3000])
    p = {"topo": topo, "slots": slots, "balls": balls, "tries_trough": r.choice([2, 3, 3, 0]),
         "tries_plunger": r.choice([2, 3, 3, 0]), "tries_lock": r.choice([2, 3]), "eject_to": e,
         "missing_to": r.choice([4000, 5000]), "idle_to": 2000}
    return p


def gen_timing(r):
    return {"leave": r.choice([1, 1, 2, 4]) * bw.GRID, "transit": r.choice([2, 4, 8, 12, 20]) * bw.GRID,
            "fallback": r.choice([2, 6, 12, 24]) * bw.GRID, "late": r.choice([2, 8, 24]) * bw.GRID,
            "pf_switch": r.random() < 0.6}


def gen_outcomes(r, fail):
    def one(n):
        return [r.choice(OUTCOMES) if r.random() < fail else "ok" for _ in range(n)]
    return {"trough": one(8), "plunger": one(8), "lock": one(6)}


def gen_ops(r, p):
    ops = []
    n = r.randint(3, 14)
    for _ in range(n):
        k = r.random()
        if k < 0.3:
            ops.append(["add_ball"])
        elif k < 0.48:
            ops.append(["drain"])
        elif k < 0.6:
            ops.append(["lock", r.random() < 0.6])
        elif k < 0.68:
            ops.append(["release_lock"])
        elif k < 0.72:
            ops.append(["pf_hit"])
        elif k < 0.93:
            ops.append(["wait", r.choice([1, 2, 4, 8, 9, 16, 17, 32, 33, 40, 64, 80, 160])])
        else:
            ops.append(["rest"])
            if r.random() < 0.3:
                ops.append(["escape"])
    return ops


SCENARIOS = [
    # game start, drain
    [["add_ball"], ["rest"], ["drain"], ["rest"]],
    # multiball add while the first ball is on its way, then both drain
    [["add_ball"], ["wait", 8], ["add_ball"], ["add_ball"], ["rest"], ["drain"], ["wait", 3], ["drain"], ["rest"], ["drain"]],
    # lock shot (claimed), new ball served, lock released
    [["add_ball"], ["rest"], ["lock", True], ["add_ball"], ["rest"], ["release_lock"], ["rest"], ["drain"], ["drain"]],
    # unclaimed lock shot: the lock returns the ball
    [["add_ball"], ["rest"], ["lock", False], ["rest"], ["drain"]],
    # a drain arriving while the trough is mid-eject
    [["add_ball"], ["rest"], ["add_ball"], ["wait", 1], ["drain"], ["rest"]],
    [["add_ball"], ["rest"], ["add_ball"], ["drain"], ["rest"]],
    # more requests than balls
    [["add_ball"], ["add_ball"], ["add_ball"], ["add_ball"], ["add_ball"], ["rest"], ["drain"], ["rest"], ["drain"], ["drain"]],
    # ball escapes from the lock while everything is idle
    [["add_ball"], ["rest"], ["lock", True], ["rest"], ["escape"], ["rest"], ["drain"]],
]


def chain_restore_case():
    """directed history of the multi-hop class (trough -> launcher -> one of two targets): the ball of a request to the
    non-playfield target is lost on the first hop while no replacement exists anywhere, so the path restoration is queued in
    the trough; the lost balls drain back later (first one serves the queued request, second one stays in the trough); then
    another request through the launcher must be served from the trough.  Must pass on correct code: it pins the
    compensating `available_balls -= 1` of lost_ejected_ball's restore branch (a phantom available ball in the launcher makes
    the last request start its chain at the empty launcher, which then waits for ever)."""
    g = bw.GRID
    return {"p": {"topo": "chain", "slots": 3, "balls": 2, "tries_trough": 3, "tries_plunger": 3, "tries_lock": 3,
                  "eject_to": 2000, "missing_to": 4000, "idle_to": 2000},
            "timing": {"leave": g, "transit": 4 * g, "fallback": 6 * g, "late": 8 * g, "pf_switch": True},
            "outcomes": {"trough": ["ok", "astray"]},
            "ops": [["add_ball"], ["rest"], ["request_lock"], ["rest"], ["drain"], ["rest"], ["drain"], ["rest"], ["add_ball"],
                    ["rest"]]}


def chain_interleavings():
    """directed interleavings on the chain topology (trough A -> launcher B -> lock C): a second request is issued at every
    tick from before B's eject until after the fate of B's ball is known, with B's ball falling back into B or arriving
    late in C.  While B is in ball_left/failed_confirm its own ball can still come back: A must not fire at B in that
    window (physical truth: B would hold two balls)."""
    g = bw.GRID
    out = []
    for oc in ("fallback", "late"):
        for w in range(8, 44):
            second = ["request_lock"] if w % 2 == 0 else ["add_ball"]
            out.append({"p": {"topo": "chain", "slots": 3, "balls": 2, "tries_trough": 3, "tries_plunger": 3, "tries_lock": 3,
                              "eject_to": 2000, "missing_to": 4000, "idle_to": 2000},
                        "timing": {"leave": g, "transit": 4 * g, "fallback": 24 * g, "late": 8 * g, "pf_switch": False},
                        "outcomes": {"plunger": [oc]}, "ops": [["request_lock"], ["wait", w], second, ["rest"]]})
    return out


def two_requesters_case():
    """directed history of the two-requesters class: the eject hole (lock, fed from the playfield, listed BEFORE the plunger
    in the config) holds a stale queued request ("eject the next ball you get"), the plunger holds a queued playfield
    request while the trough is empty; a ball drains into the trough: `balldevice_balls_available` must reach the plunger
    although the lock's request cannot be served from there"""
    g = bw.GRID
    return {"p": {"topo": "std", "slots": 3, "balls": 1, "tries_trough": 3, "tries_plunger": 3, "tries_lock": 3,
                  "eject_to": 2000, "missing_to": 4000, "idle_to": 2000, "lock_first": True},
            "timing": {"leave": g, "transit": 4 * g, "fallback": 6 * g, "late": 8 * g, "pf_switch": True}, "outcomes": {},
            "ops": [["add_ball"], ["rest"], ["stale_release"], ["add_ball"], ["rest"], ["drain"], ["rest"]]}


def gen_chain_case(r):
    """random histories on the chain topology: requests to the lock (two hops) and to the playfield, first-hop losses
    (astray), drains bringing the lost balls back at any later time"""
    p = gen_params(r, "chain")
    p["balls"] = r.randint(1, 3)
    oc = gen_outcomes(r, r.choice([0.0, 0.2, 0.4]))
    for j in range(3):
        if r.random() < 0.4:
            oc["trough"][j] = "astray"
    ops = []
    for _ in range(r.randint(4, 14)):
        k = r.random()
        if k < 0.22:
            ops.append(["request_lock"])
        elif k < 0.4:
            ops.append(["add_ball"])
        elif k < 0.6:
            ops.append(["drain"])
        elif k < 0.66:
            ops.append(["release_lock"])
        elif k < 0.72:
            ops.append(["lock", r.random() < 0.5])
        elif k < 0.86:
            ops.append(["wait", r.choice([1, 8, 16, 33, 64, 120, 160])])
        else:
            ops.append(["rest"])
    return {"p": p, "timing": gen_timing(r), "outcomes": oc, "ops": ops}


def gen_case(r, i, heavy=False):
    case = _gen_case(r, i, heavy)
    if case["p"]["topo"] == "std":
        # flavours decided by the case index (no extra random draw, the streams stay what they were): the lock listed before
        # the plunger in the config (order of the balldevice_balls_available handlers), and a stale eject request left at
        # the empty lock (second requester)
        if i % 2 == 1:
            case["p"]["lock_first"] = True
        if i % 7 in (3, 4):
            case["ops"].insert(min(len(case["ops"]), i % 3), ["stale_release"])
    return case


def _gen_case(r, i, heavy=False):
    if i % 5 == 4:
        return gen_chain_case(r)
    if heavy and r.random() < 0.5:
        # C05 stream: long failure sequences (up to max_eject_attempts + 2), overlapping requests
        p = gen_params(r, "std")
        n = r.randint(1, 5)
        seq = [r.choice(["stuck", "fallback", "stuck", "fallback", "late", "astray"]) for _ in range(n)]
        oc = gen_outcomes(r, 0.1)
        oc[r.choice(["trough", "plunger"])][0:0] = seq
        ops = [["add_ball"]] * r.randint(1, 3) + [["wait", r.choice([1, 8, 33, 64])]] + [["add_ball"]] * r.randint(0, 2) + [["rest"], ["drain"], ["add_ball"], ["rest"]]
        return {"p": p, "timing": gen_timing(r), "outcomes": oc, "ops": [list(o) for o in ops]}
    k = r.random()
    if k < 0.25:
        p = gen_params(r, "std")
        ops = [list(o) for o in SCENARIOS[i % len(SCENARIOS)]]
        return {"p": p, "timing": gen_timing(r), "outcomes": gen_outcomes(r, r.choice([0.0, 0.3, 0.6])), "ops": ops}
    p = gen_params(r)
    return {"p": p, "timing": gen_timing(r), "outcomes": gen_outcomes(r, r.choice([0.0, 0.15, 0.35, 0.7])),
            "ops": gen_ops(r, p)}


def d16_case(r):
    """the recorded finding's topology: trough and lock both feed the capacity-1 plunger; two requests at once"""
    p = gen_params(r, "two_src")
    p["balls"] = max(2, p["balls"])
    return {"p": p, "timing": gen_timing(r), "outcomes": {},
            "ops": [["add_ball"], ["rest"], ["lock", True], ["rest"], ["release_lock"], ["add_ball"], ["rest"]]}


def starved_case():
    """witness of the second two-sources finding (found by the thorough C05 stream, shrunk): the trough's second ball goes
    astray while the lock waits for room in the plunger; the ball is declared lost, the room is free, the lock is never woken"""
    return {"p": {"topo": "two_src", "slots": 3, "balls": 3, "tries_trough": 2, "tries_plunger": 3, "tries_lock": 2,
                  "eject_to": 3000, "missing_to": 4000, "idle_to": 2000},
            "timing": {"leave": 0.0625, "transit": 0.25, "fallback": 1.5, "late": 0.5, "pf_switch": True},
            "outcomes": {"trough": ["ok", "astray"], "plunger": [], "lock": []},
            "ops": [["add_ball"], ["add_ball"], ["wait", 64], ["lock", False]]}


WP = {"topo": "std", "slots": 3, "balls": 2, "tries_trough": 3, "tries_plunger": 3, "tries_lock": 3, "eject_to": 2000,
      "missing_to": 4000, "idle_to": 2000}
G = bw.GRID

# Directed minimal witnesses of histories that the random generator deliberately does not produce (see ASSUMPTIONS):
# physically possible, but ambiguous for any timeout/switch based bookkeeping.  They run first on every check; each has
# its own signature (classified from the simulator's record of the event, see ballworld.classify_fired_full).
WITNESSES = [
    # the plunger's ball falls back 2.5 s after leaving; eject_timeout is 2 s: MPF has confirmed the eject by timeout and
    # fires the next ball at the plunger while the first one is still rolling back
    ("fired-into-full-device:fallback-after-eject-timeout",
     {"p": WP, "timing": {"leave": G, "transit": 4 * G, "fallback": 40 * G, "late": 8 * G, "pf_switch": False},
      "outcomes": {"plunger": ["fallback"]}, "ops": [["add_ball"], ["add_ball"], ["rest"]]}),
    # the trough's ball needs longer than eject_timeout + ball_missing_timeout: MPF declares it lost (assumes it is on the
    # playfield), serves the next request, and the first ball arrives after all
    ("fired-into-full-device:arrival-after-ball-missing-timeout",
     {"p": WP, "timing": {"leave": G, "transit": 4 * G, "fallback": 6 * G, "late": 8 * G, "pf_switch": False},
      "outcomes": {"trough": ["verylate"]}, "ops": [["add_ball"], ["add_ball"], ["rest"]]}),
    # a ball drains into the trough at the instant the trough ejects; the ejected ball is late: at eject_timeout MPF takes
    # the drained ball for the ejected ball having come back, retries, and the first ball arrives as well
    ("misattributed:entry-during-own-eject",
     {"p": WP, "timing": {"leave": G, "transit": 4 * G, "fallback": 6 * G, "late": 2 * G, "pf_switch": False, "ambiguous": True},
      "outcomes": {"trough": ["ok", "late"]}, "ops": [["add_ball"], ["rest"], ["add_ball"], ["drain"], ["rest"]]}),
    # the plunger's ball falls back; meanwhile the lock's released ball reaches the playfield and hits a playfield switch:
    # MPF credits that hit to the plunger's eject (first incoming ball of the playfield) and fires the next ball at the plunger
    ("misattributed:playfield-hit-after-return",
     {"p": dict(WP, balls=3), "timing": {"leave": G, "transit": 4 * G, "fallback": 24 * G, "late": 8 * G, "pf_switch": True,
                                         "ambiguous": True},
      "outcomes": {"plunger": ["ok", "fallback"]},
      "ops": [["add_ball"], ["rest"], ["lock", True], ["rest"], ["add_ball"], ["add_ball"], ["wait", 16], ["release_lock"], ["rest"]]}),
    # BallDevice.balls is -1 between end_eject() and the state leaving ball_left (see module docstring)
    ("count-negative:balls-property-after-eject-success",
     {"p": WP, "timing": {"leave": G, "transit": 4 * G, "fallback": 6 * G, "late": 8 * G, "pf_switch": True},
      "outcomes": {}, "ops": [["add_ball"], ["rest"]], "report_transient": True}),
]
WITNESS_SIGS = tuple(w[0] for w in WITNESSES)


def shrink(case, sig):
    def fails(ops):
        res = bw.run_case(dict(case, ops=ops), None, "C05" if bw.is_progress_sig(sig) else "C04")
        return any(f[0] == sig for f in res.failures)
    try:
        return dict(case, ops=ddmin(case["ops"], fails, max_tests=60))
    except Exception:
        return case


LISTED = (KNOWN_SIG, STARVED_SIG) + WITNESS_SIGS      # classes with a directed witness: never shrunk, never stop the run


def eval_case(ctx, case, model, focus):
    """focus: 'C04' (counts) | 'C05' (progress): which oracle failures belong to this property"""
    res = bw.run_case(case, model, focus)
    ctx.evaluated(case, res.nontrivial)
    for k, v in res.hist.items():
        ctx.count(k, v)
    ctx.count("steps", res.steps)
    ctx.notes["balls_property_minus_one_normalisations"] = ctx.notes.get("balls_property_minus_one_normalisations", 0) + \
        res.hist.get("transient_balls_property_minus_one", 0)
    if model is not None:
        # one comparison per case: the whole observed history is an enabled ledger run with equal counts at every step
        ctx.compare(dict(case, what="monitor"), "refines" if res.mismatch is None else res.mismatch, "refines")
    for sig, detail in res.failures:
        mine = bw.is_progress_sig(sig)
        if (focus == "C05") != mine and not sig.startswith("crash:"):
            ctx.count("other_property_failure")
            continue
        c2 = case
        unknown = [f for f in ctx.failures if f["signature"] not in LISTED]
        if sig not in LISTED and not unknown:
            c2 = shrink(case, sig)          # only the first failure of a run is shrunk (it becomes the replay)
        ctx.fail(sig, c2, detail)
    return res


def run(ctx, focus="C04", ident=ID):
    model = None if getattr(ctx, "model_unavailable", False) else leanproc.LeanProc(ident)
    try:
        res = eval_case(ctx, chain_restore_case(), model, focus)
        ctx.notes["chain_restore_case"] = {"failures": [f[0] for f in res.failures], "lostEjected": res.hist.get("op_lostEjected", 0),
                                           "queued_replacement": res.hist.get("op_queueReq", 0)}
        res = eval_case(ctx, two_requesters_case(), model, focus)
        ctx.notes["two_requesters_case"] = [f[0] for f in res.failures]
        if focus == "C04":
            bad = 0
            for icase in chain_interleavings():
                bad += len(eval_case(ctx, icase, model, focus).failures)
            ctx.notes["chain_interleavings"] = {"cases": len(chain_interleavings()), "with_failures": bad}
            eval_case(ctx, d16_case(ctx.rng("d16")), model, focus)
            for sig, wcase in WITNESSES:
                res = eval_case(ctx, wcase, model, focus)
                ctx.notes.setdefault("witnesses", {})[sig] = [f[0] for f in res.failures]
        else:
            eval_case(ctx, starved_case(), model, focus)
        for i in range(ctx.n(600 if focus == "C04" else 480, 6000)):
            eval_case(ctx, gen_case(ctx.rng("case", i), i, heavy=(focus == "C05")), model, focus)
            if len([f for f in ctx.failures if f["signature"] not in LISTED]) >= 3:
                break                       # a violation is established; the first (shrunk) one is reported
    finally:
        if model is not None:
            model.close()


def replay(ctx, rep, focus="C04"):
    case = dict(rep["case"])
    # the replay file stores floats canonically as strings
    case["timing"] = {k: (float(v) if isinstance(v, str) else v) for k, v in case["timing"].items()}
    eval_case(ctx, case, None, focus)
