"""C14 - Serial links: framing (FAST / PKONE / OPP), CRC integrity, switch state = last report, FAST command writer.

Implementation side: the real FastNetNeuronCommunicator.parse_incoming_raw_bytes/_dispatch_incoming_msg, the real
PKONESerialCommunicator._parse_msg, the real OPPSerialCommunicator._parse_msg feeding the real
OppHardwarePlatform.process_received_message/read_gen2_inp_resp/read_matrix_inp_resp (real OPPInputCard/OPPMatrixCard),
and the real FastSerialCommunicator._socket_writer task on an asyncio loop with a fake port.  Only the machine around
them is a stub (switch controller that records, logging off).
Model side: MpfVerif.Model.Framing (driver drv_c14), CRC table regenerated from opp_rs232_intf.py on every run.
Oracle (model independent): chunked run == one-chunk run; valid reports -> states equal the last report; a corrupted OPP
frame changes nothing; valid frames after noise + idle are decoded; no exception leaves a parser; nothing is written
while a confirmation is outstanding; write order = send order.
"""
import ast
import asyncio
import logging
import os
from collections import defaultdict
from types import SimpleNamespace

from harness.common import leanproc
from harness.common import serial_c14 as S2
from harness.common import serial3_c14 as S3
from harness.common.shrink import ddmin
from harness.common.util import REPO, InfraError

ID = "C14"
LEAN_MODULES = ["MpfVerif.Props.C14"]
PROPS_FILE = "MpfVerif/Props/C14.lean"
MANIFEST = {
  "text": "Proof on byte-level Lean models of the three incremental serial decoders and the FAST command writer: (1) for every byte-at-a-time decoder feed(a++b) = feed(feed a) b, hence frames and carried buffer of the FAST ('\\r') and PKONE ('E') decoders are independent of how the bytes were split into reads, and after any noise one delimiter restores exact in-order delivery; (2) a transcription of OPP's _parse_msg (part_msg, _lost_synch, the strlen>2 threshold, 7/11-byte frames, EOM) always terminates and, on every chunking, emits exactly the frames of a byte-at-a-time automaton on the concatenated bytes, its carried state being equal after normalisation (the raw carried pair does depend on the chunking); (3) the CRC-8 table regenerated from opp_rs232_intf.py on every run is a permutation (kernel-checked per entry) and linear (kernel-checked) and therefore every single-byte error and every burst error confined to 8 consecutive bits, in data or CRC byte of a frame, is detected; a frame with a wrong CRC changes no card state and produces no switch event; after any frame the reported switch states mirror old_state and a valid frame sets it to its payload; a FAST switch report sets exactly that switch, and after any list of SA: snapshots and -L:/ /L: events the state of every configured switch is what the last report mentioning it said (event: the reported logical state; snapshot: invert xor bit) while hw_switch_data is the last snapshot; (4) after any garbage plus 11 idle bytes the OPP automaton decodes every following well-formed frame; every PKONE frame is handled without raising (non-UTF-8 frames are skipped) and well-formed frames after noise are delivered; (5) the writer keeps queue order at every point of every run. Flow control is a known finding (the writer never pauses; a lost response is never retried): proved only for disciplined senders resp. for responses that arrive, with witnesses. The models are tied to the real communicators by a correspondence run (incl. the real FAST platform booted on the repo's mock serial with the real switch controller for mixed snapshot/event sequences; generated streams, chunkings down to single bytes, corruptions, malformed frames, writer schedules) on every check. Session 3 (Model/Framing2.lean) adds the protocol code behind the frame decoders: (6) PKONE _parse_msg with its in-flight counter and send_ready, process_received_message, receive_switch (PSW) and receive_all_switches (PSA) as one byte-at-a-time automaton over the whole state: state and observations are independent of the chunking; a frame changes the reported switch table only if it is exactly PSW+board digit+two switch digits+0/1 (truncated, over-long, non-numeric payloads report nothing) and hw_switch_data only if it is a well-formed PSA; after any frame sequence the state last told for a switch is that of the last well-formed PSW for it; the counter goes down by the number of delimiters, never below zero, send_ready is never cleared by the reader; (7) OPP initialisation: readuntil(EOM, 7n) returns the complete reply of n cards whatever its bytes are (the old minimum 6 cut a reply whose CRC byte is 0xff: witness), the loop of get_gen2_cfg_resp / vers_resp over the merged responses of any number of chained cards accepts exactly the well-formed responses in chain order, and on a bad CRC exactly the cards before it (nothing from the damaged response or after it); (8) FAST configuration-phase dispatch (ID: CH: SL: DL: SA: at boot, !B: XX:) as a delimiter automaton: chunking-independent, and after any garbage and one CR every following response is dispatched as if it had arrived alone; (9) several callers of send_and_wait_for_response_processed queued behind no_response_waiting: gated commands on the port followed by the callers still waiting are exactly the callers in call order at every point of every run. Tied by correspondence to the real PKONEHardwarePlatform/PKONESerialCommunicator, the real OPPSerialCommunicator._identify_connection fed through a real asyncio.StreamReader by a simulated card chain under generated chunkings, the real OppHardwarePlatform init handlers on merged/corrupted/truncated replies, the real FastNetNeuronCommunicator and the real writer task. Second extension (Model/Framing3.lean): (10) OPP input reports on the platform level, several chains each with its own _parse_msg state, cards, bad-CRC counter and registration: after ANY list of delivered frames (good, wrong CRC, unknown card) the old_state of every card is the payload of the last frame with a correct CRC for it, in the initial reads of _identify_connection (read_gen2_inp_resp_initial / read_matrix_inp_resp_initial) as well as in the steady state (read_gen2_inp_resp / read_matrix_inp_resp); get_hw_switch_states makes MPF's switch states mirror the cards and every later frame list keeps them mirrored (MPF's states = last report per board); a frame with a wrong CRC changes no card and reports nothing in either phase; the chunked steady-state reader gives the same cards, events and bad-CRC count for every way of splitting the bytes; a read on one chain leaves every other chain untouched; _read_id accepts exactly the well-formed 8-byte answers; witnesses for two observations outside the property (a bad-CRC initial read is counted as a card read: a matrix card then keeps its [0, 0] placeholder and get_hw_switch_states raises TypeError; an init reply that ends in lost_synch() before the connection is registered raises KeyError). (11) FAST NN: node discovery: any response either leaves the board table alone or appends one board for a node inside the configured loop, not registered before, whose predecessors are all known, with the running totals as first switch / driver number; ID: with the release-number syntax of the firmware version; chunking-independent. (12) PKONE connect phase: the PCN / PCB reply grammar as structural scanners; an extension board is registered only for a reply of the exact shape PCB d X F digits H digits tail. Tied by correspondence to the real OppHardwarePlatform (own __init__, stub machine) with one or two chains booted through the real _identify_connection (incl. _read_id) on a real StreamReader, the real initialize() and get_hw_switch_states(), then interleaved chunked polls; the real FastNetNeuronCommunicator with a configured I/O loop; the real PKONESerialCommunicator._identify_connection against a simulated controller on a virtual clock.",
  "note": "Trusted: Lean kernel + {propext, Classical.choice, Quot.sound}; the hand-written models in Model/Framing.lean (validated only by differential runs); the generator that extracts CRC8_LOOKUP; asyncio Queue/Event semantics for the writer. Known findings: the FAST writer does not pause for confirmations and never retries a lost response (D7); a frame that is not UTF-8 makes the FAST reader raise (deliberate re-raise outside the connect phase). Not modelled: SA: snapshots whose announced byte count is consistent but which cover fewer switches than are configured (needs two corruptions; KeyError after a partial update), ignore_decode_errors=True (connect phase); an OPP inventory reply carries no CRC: a damaged one is believed (counted, modelled); OPP wing-to-mask decoding (_parse_gen2_board) is not modelled (the cards MPF created are told to the model); FAST version strings are modelled for release numbers N(.N)* with an optional v only (the generated alphabet cannot form pre/post/dev markers); PKONE reset / PSA replies of the connect phase are driven and compared on the outcome only; the platforms are built by their own __init__ on a stub machine (recording switch controller), not booted inside a MachineController (the repo's PKONE test scaffolding does not boot on this Python).",
  "technique": "Lean 4 theorems (induction over byte lists, simulation between loop transcription and automaton, decide +kernel over the regenerated CRC table) + differential correspondence with the real parsers and writer task",
  "translated": True,
 }
RULE = ("cases: (a) FAST streams of 3-12 frames (-L:/ /L: switch reports, SA: reports, ignored, unknown headers) with 0-2 "
        "single-byte corruptions (replace/insert/delete; replacement alphabet digits,G,Z,q,',',':',CR and lone "
        "continuation/0xff bytes) under 5 chunkings (whole, single bytes, 3 random); (b) PKONE ASCII frame streams likewise "
        "(delimiter E); (c) OPP polls (input frames 7 bytes, matrix frames 11 bytes, EOM) for 1-3 cards incl. unknown "
        "cards, with payload/CRC corruptions, header corruptions, garbage runs, truncations, and a resync stream "
        "(garbage + 11 EOM + valid frames); (d) writer schedules over send_with_confirmation/send_and_forget/run/"
        "confirmation-received, both free and disciplined; (d2) on the REAL FAST platform booted on the repo's mock serial (TestFastNeuron scaffolding, real switch controller): sequences of 4-14 valid frames mixing SA: snapshots (random, identical to an earlier one, or an earlier one with configured switches flipped so that it contradicts the events in between), -L:/ /L: events on NO and NC switches (15% dropped before delivery), malformed and ignored frames, under whole / single-byte / random chunkings; (e) send_and_wait_for_response_processed under time-outs/responses on a virtual clock. non-trivial = more than one chunk and (a corruption, a "
        "malformed frame, lost synch, or >= 2 frames); distinct = canonical JSON of (kind, stream, chunking); "
        "session 3: (f) PKONE streams of 3-12 frames (PSW reports on 5 boards, PSA reports of 0/8/35 switches, PWD/PWF/PCN/"
        "PCB/PXX/unknown commands, empty frames, 17 malformed payload shapes: truncated, over-long, state 2-9, non-digits) "
        "with 0-2 corruptions, start values of the in-flight counter 0..14 / send_ready / read_task, 5 chunkings; (g) OPP "
        "chains of 1-4 cards (random wings incl. 15% whose GET_GEN2_CFG CRC byte is 0xff, versions incl. a 0xff byte, input "
        "words incl. ff ff ff ff) answered by a simulated chain through a real StreamReader: whole / single bytes / 2 random "
        "chunkings of every reply; (h) init replies (GET_GEN2_CFG / GET_VERS of the chain) handed to "
        "process_received_message intact, with one damaged byte per frame, a changed command byte, a deletion of 1-7 bytes, or "
        "merged with the next reply; (i) FAST config-phase streams (ID: CH: SL: DL: boot SA: !B: XX:, 24 malformed shapes "
        "incl. two replies run together) with 0-2 corruptions, 5 chunkings, frame-by-frame re-decode as oracle; (j) 3-12 "
        "calls / send_and_forget / responses on the real communicator + writer task; second extension: (k) OPP platforms with 1-2 chains (40% of first chains without configured serial: _read_id; its reply damaged in 12%), 1-3 cards each, the reply to the initial input read intact / one byte flipped / a byte deleted / a byte inserted, then steady polls per chain (valid, one frame with a payload flip, garbage run, header damage, unknown cards) interleaved between the chains, all under whole / single-byte / random chunkings of every reply and stream; (l) inventory / GET_GEN2_CFG / GET_VERS replies intact or with a flip / deletion / insertion, handed over while the connection is not registered; (m) FAST NN: streams for loops of 1/2/4 boards: in order, shuffled, with a node beyond the loop, node-not-found, NN:F, repeats, 14 malformed shapes, ID: with 11 version shapes, SL:/DL: beyond the tables, 0-2 corruptions, 5 chunkings; (n) PKONE connect dialogues: PCN answered / late / malformed, PRS with noise frames or PXX, 8 PCB replies (none / extension / lightshow / 12 malformed or misplaced shapes, firmware numbers incl. one digit and 0.x), PSA replies behind noise frames, 30% with one damaged byte, 3 chunkings")
TRUSTED = [
    "Model/Framing.lean is hand-written; tied to mpf/platforms/fast/communicators/{base,net_neuron}.py, "
    "mpf/platforms/opp/{opp_serial_communicator,opp}.py, mpf/platforms/pkone/pkone_serial_communicator.py by "
    "correspondence on every run; Gen/Crc8.lean is regenerated from mpf/platforms/opp/opp_rs232_intf.py",
    "modelled, not verified: bytes.decode (any byte >= 0x80 in the generated alphabet is an invalid UTF-8 sequence), "
    "int(x, 16) and bytearray.fromhex on strict hex strings, asyncio.Queue/Event for the writer task",
    "the stub machine around the communicators (recording switch controller, logging disabled)",
    "Model/Framing2.lean is hand-written; tied to mpf/platforms/pkone/{pkone_serial_communicator,pkone}.py, "
    "mpf/platforms/opp/{opp_serial_communicator,opp}.py (init phase), mpf/platforms/fast/communicators/{base,net_neuron}.py "
    "(config-phase processors, no_response_waiting gate) by correspondence on every run",
    "modelled, not verified: asyncio.StreamReader.readexactly/feed_data (byte stream abstraction under readuntil), "
    "asyncio.Event wake-up order (FIFO of waiters), Python int() on ASCII digit strings, str.split(',') / str.split()",
    "the simulated OPP card chain (harness/common/serial_c14.py chain_reply) stands for the hardware",
    "Model/Framing3.lean is hand-written; tied to mpf/platforms/opp/{opp,opp_serial_communicator}.py (input handlers of both phases, "
    "_read_id, get_hw_switch_states, initialize), mpf/platforms/fast/communicators/{base,net_neuron}.py (_process_nn, _process_id), "
    "mpf/platforms/pkone/pkone_serial_communicator.py (_identify_connection, query_pkone_boards) by correspondence on every run",
    "modelled, not verified: packaging.version.parse on strings over digits, dots and a leading v; re.match / re.fullmatch on the two PKONE "
    "patterns (transcribed as scanners); asyncio.StreamReader.readexactly; the simulated PKONE controller and OPP chain stand for the hardware",
]
ASSUMPTIONS = [
    "FAST/PKONE corruption bytes never form valid multi-byte UTF-8, whitespace, sign, underscore or 0x prefixes "
    "(Python's int()/fromhex accept those; the model's hex parser is strict)",
    "FAST: only the run-time report set is generated (-L:, /L:, SA:, WD:P, TL:P, unknown headers); config-phase "
    "responses are outside the model; in the stand-alone stream SA: reports are observed at platform.hw_switch_data, in "
    "the real-platform stream (TestFastNeuron scaffolding) at switch_controller.is_active of every configured switch; "
    "there the mock boards answer nothing after boot and attract mode is stopped (the config's start button cannot "
    "start a game without ball devices)",
    "OPP: cards have been initialised (old_state is an int); one chain",
    "PKONE/FAST-config corruption bytes never form valid multi-byte UTF-8, blanks, signs, underscores (Python's int() "
    "accepts those; the models' digit parsers are strict)",
    "OPP platform level: card addresses are unique within a chain; MPF's real boot order is followed (connect incl. initial reads -> "
    "initialize() -> get_hw_switch_states() -> read loop): when get_hw_switch_states raises, MPF has stopped and no steady-state frame is fed",
    "FAST NN:/ID: corruption bytes never form blanks, signs, underscores, 0x prefixes or the letters of a/b/c/rc/post/dev/v markers",
    "CRC-8 promises detection of one damaged byte (or an 8-bit burst) per frame: the 'corrupt frame accepted' oracle of "
    "the OPP init replies damages at most one byte per frame; deletions are judged by the correspondence only",
]

NSW = 16
logging.disable(logging.CRITICAL)


# ----------------------------------------------------------------------------------------------- GEN (translator)
def gen_crc8():
    src = open(os.path.join(REPO, "mpf/platforms/opp/opp_rs232_intf.py")).read()
    tbl = None
    for node in ast.walk(ast.parse(src)):
        if isinstance(node, ast.Assign) and any(isinstance(t, ast.Name) and t.id == "CRC8_LOOKUP" for t in node.targets):
            tbl = ast.literal_eval(node.value)
    if not isinstance(tbl, list) or len(tbl) != 256 or not all(isinstance(x, int) and 0 <= x for x in tbl):
        raise ValueError("CRC8_LOOKUP is not a list of 256 naturals")
    inv = [0] * 256
    for i, v in enumerate(tbl):
        inv[v % 256] = i

    def fmt(l):
        return ",\n  ".join(", ".join(str(x) for x in l[i:i + 16]) for i in range(0, 256, 16))
    return ("MpfVerif/Gen/Crc8.lean",
            "/-! GENERATED from mpf/platforms/opp/opp_rs232_intf.py (OppRs232Intf.CRC8_LOOKUP) by harness/corr/C14.py — do not edit. -/\n"
            "namespace MpfVerif.Gen\n\n/-- `OppRs232Intf.CRC8_LOOKUP` -/\ndef crc8Table : List Nat := [\n  %s]\n\n"
            "/-- candidate inverse permutation (computed by the generator; checked in Lemmas/Framing.lean) -/\n"
            "def crc8Inv : List Nat := [\n  %s]\n\nend MpfVerif.Gen\n" % (fmt(tbl), fmt(inv)))


GEN = [gen_crc8]


# ----------------------------------------------------------------------------------------------- real objects
class SwitchLog:
    """stub switch controller: records every report and keeps the last state per number"""

    def __init__(self):
        self.events = []
        self.table = {}

    def process_switch_by_num(self, num, state, platform, logical=False, timestamp=None):
        self.events.append((num, state))
        self.table[num] = state

    def process_switch_obj(self, obj, state, logical, timestamp=None):
        self.events.append((obj, state))


def make_fast():
    from mpf.platforms.fast.communicators.net_neuron import FastNetNeuronCommunicator

    class Spy(FastNetNeuronCommunicator):
        __slots__ = ["toks", "sc"]

        def _dispatch_incoming_msg(self, msg):
            if isinstance(msg, str) and msg in self.IGNORED_MESSAGES:
                self.toks.append("ign")
                return super()._dispatch_incoming_msg(msg)
            hdr = msg[:3]
            try:
                super()._dispatch_incoming_msg(msg)
            except ValueError:
                self.toks.append("bad")
                raise
            except Exception as e:
                self.toks.append("crash:" + type(e).__name__)
                raise
            if hdr == "-L:":
                self.toks.append("c%d" % self.sc.events[-1][0])
            elif hdr == "/L:":
                self.toks.append("o%d" % self.sc.events[-1][0])
            elif hdr == "SA:":
                d = self.platform.hw_switch_data
                self.toks.append("sa" + ("".join(str(d[i]) for i in range(len(d))) or "-"))
            elif hdr in self.message_processors:
                self.toks.append("proc")
            else:
                self.toks.append("unk")
            return None

    sc = SwitchLog()
    machine = SimpleNamespace(is_shutting_down=False, options={"production": False}, switch_controller=sc, switches={},
                              config={})
    platform = SimpleNamespace(machine=machine, debug=False, switches_initialized=True, hw_switch_data={},
                               new_switch_data=asyncio.Event(), io_boards={}, machine_type="neuron")
    comm = Spy(platform, "net", {"debug": False, "port": ["x"], "baud": 1, "io_loop": {}, "watchdog": None})
    comm.ignore_decode_errors = False     # the state connect() leaves behind
    comm.toks = []
    comm.sc = sc
    return comm, sc, platform


def fast_feed(comm, chunk, escapes):
    """parse_incoming_raw_bytes(chunk); an escaping exception is recorded and parsing resumed on the carried buffer"""
    data = chunk
    for _ in range(len(chunk) + 3):
        try:
            comm.parse_incoming_raw_bytes(data)
            return
        except UnicodeDecodeError:
            comm.toks.append("und")
            escapes.append("und")
        except ValueError as e:
            escapes.append("malformed:" + repr(e)[:60])
        except Exception as e:
            escapes.append("crash:" + type(e).__name__)
        data = b""
    raise InfraError("FAST parser does not drain")


def bits_of(table, n):
    return "".join("1" if table.get(i, 0) else "0" for i in range(n)) or "-"


got_warnings = {}


def pk_skips(comm):
    """frames skipped with the 'Interference / bad data' warning so far"""
    return sum(1 for a in got_warnings[id(comm)] if a and "Interference" in str(a[0]))


def make_pkone():
    from mpf.platforms.pkone.pkone_serial_communicator import PKONESerialCommunicator
    got = []
    warnings = []
    log = SimpleNamespace(warning=lambda *a, **k: warnings.append(a), debug=lambda *a, **k: None,
                          info=lambda *a, **k: None, error=lambda *a, **k: None)
    platform = SimpleNamespace(machine=SimpleNamespace(), log=log, config={"debug": False},
                               process_received_message=lambda msg: got.append(msg))
    comm = PKONESerialCommunicator(platform, "p", 1)
    comm.messages_in_flight = 10 ** 9
    got_warnings[id(comm)] = warnings
    return comm, got


def pk_feed(comm, chunk, escapes):
    data = chunk
    for _ in range(len(chunk) + 3):
        try:
            comm._parse_msg(data)
            return
        except UnicodeDecodeError:
            escapes.append("und")
        except Exception as e:
            escapes.append("crash:" + type(e).__name__)
        data = b""
    raise InfraError("PKONE parser does not drain")


def make_opp(cards):
    """cards: list of ('i'|'m', addr).  Real communicator, real platform methods, real card objects."""
    from mpf.platforms.opp.opp import OppHardwarePlatform
    from mpf.platforms.opp.opp_serial_communicator import OPPSerialCommunicator
    from mpf.platforms.opp.opp_switch import OPPInputCard, OPPMatrixCard
    from mpf.platforms.opp.opp_rs232_intf import OppRs232Intf

    class P(OppHardwarePlatform):
        def __init__(self):      # the real __init__ needs a whole machine
            pass

        def process_received_message(self, chain_serial, msg):
            self.frames.append(bytes(msg))
            return super().process_received_message(chain_serial, msg)

    sc = SwitchLog()
    p = P()
    p.frames = []
    p.machine = SimpleNamespace(switch_controller=sc)
    p.log = logging.getLogger("x")
    p.config = {"debug": False}
    p.inp_dict, p.inp_addr_dict, p.matrix_inp_addr_dict = {}, {}, {}
    p.bad_crc = defaultdict(lambda: 0)
    p.opp_connection = {}
    p._poll_response_received = {"c": asyncio.Event()}
    p.opp_commands = {
        ord(OppRs232Intf.INV_CMD): p.inv_resp, ord(OppRs232Intf.EOM_CMD): p.eom_resp,
        ord(OppRs232Intf.GET_GEN2_CFG): p.get_gen2_cfg_resp, ord(OppRs232Intf.GET_VERS_CMD): p.vers_resp,
        ord(OppRs232Intf.READ_GEN2_INP_CMD): p.read_gen2_inp_resp, ord(OppRs232Intf.READ_MATRIX_INP): p.read_matrix_inp_resp,
    }
    objs = []
    for kind, addr in cards:
        if kind == "i":
            c = OPPInputCard("c", addr, 0xFFFFFFFF, p.inp_dict, p.inp_addr_dict, p)
            c.old_state = 0xFFFFFFFF
        else:
            c = OPPMatrixCard("c", addr, p.inp_dict, p.matrix_inp_addr_dict, p)
            c.old_state = 0xFFFFFFFFFFFFFFFF
        objs.append((kind, addr, c))
    comm = OPPSerialCommunicator(p, "port", 1, "c")
    p.opp_connection["c"] = comm
    return comm, p, sc, objs


def crc8_real(data):
    from mpf.platforms.opp.opp_rs232_intf import OppRs232Intf
    return OppRs232Intf.calc_crc8_whole_msg(data)[0]


def opp_card_state(sc, objs):
    out = []
    for kind, addr, c in objs:
        n, base = (32, 0) if kind == "i" else (64, 32)
        old = "".join("1" if (c.old_state >> i) & 1 else "0" for i in range(n))
        sw = "".join("1" if sc.table.get("c-%s-%d" % (c.card_num, base + i), 0) else "0" for i in range(n))
        out.append((kind, "%d:%s:%s" % (addr, old, sw)))
    return ("inp" + "".join(" " + s for k, s in out if k == "i") + " mtx" + "".join(" " + s for k, s in out if k == "m"))


# ----------------------------------------------------------------------------------------------- generators
def chunkings(r, data, n=3):
    res = [[data], [bytes([b]) for b in data]]
    for _ in range(n):
        cuts = sorted(r.sample(range(1, len(data)), min(len(data) - 1, r.randint(1, 7)))) if len(data) > 1 else []
        res.append([data[i:j] for i, j in zip([0] + cuts, cuts + [len(data)])])
    return res


ASCII_NOISE = [ord(c) for c in "0123456789GZq,:"] + [13]
HIGH_NOISE = [0x80, 0x9F, 0xBF, 0xFF, 0xA5]


def corrupt(r, data, alphabet, k):
    data = bytearray(data)
    log = []
    for _ in range(k):
        if not data:
            break
        pos = r.randrange(len(data))
        how = r.choice(["rep", "rep", "ins", "del"])
        b = r.choice(alphabet)
        if how == "rep":
            data[pos] = b
        elif how == "ins":
            data.insert(pos, b)
        else:
            del data[pos]
        log.append([how, pos, b])
    return bytes(data), log


def gen_fast_stream(r):
    frames = []
    for _ in range(r.randint(3, 12)):
        k = r.random()
        if k < 0.55:
            n = r.choice([r.randrange(NSW), r.randrange(NSW), r.randrange(NSW), r.randrange(0x68)])
            s = ("%02X" if r.random() < 0.8 else "%02x") % n
            frames.append(((b"-L:" if r.random() < 0.5 else b"/L:") + s.encode(), "sw"))
        elif k < 0.7:
            data = bytes(r.randrange(256) for _ in range(14))
            frames.append((b"SA:0E," + data.hex().upper().encode(), "sa"))
        elif k < 0.8:
            frames.append((r.choice([b"WD:P", b"TL:P"]), "ign"))
        elif k < 0.9:
            frames.append((r.choice([b"WX:1", b"ZZ:", b"A", b"-L", b"-l:0A", b"L:0A", b"WD:F", b"TL:", b"12345"]), "unk"))
        elif k < 0.95:
            frames.append((b"", "empty"))
        else:
            frames.append((r.choice([b"-L:G1", b"/L:", b"-L:0AZ", b"SA:0E", b"SA:0E,0G", b"SA:0E,012", b"SA:0E,00,00",
                                     b"-L:Z", b"/L:1G", b"SA:0E,00FF", b"SA:0E,", b"SA:0G," + b"00" * 14,
                                     b"SA:0E," + b"FF" * 13, b"SA:0E," + b"00" * 15, b"SA:," + b"00" * 14]),
                           "malformed"))
    return frames


# ----------------------------------------------------------------------------------------------- FAST cases
def fast_run(chunks):
    comm, sc, platform = make_fast()
    escapes = []
    per_chunk = []
    for c in chunks:
        n0 = len(comm.toks)
        fast_feed(comm, c, escapes)
        per_chunk.append((comm.toks[n0:], bytes(comm.received_msg), bits_of(sc.table, NSW),
                          bits_of(platform.hw_switch_data, len(platform.hw_switch_data))))
    return comm.toks, escapes, per_chunk, sc, platform


def fast_fail_sig(escapes):
    for e in escapes:
        if e.startswith("malformed"):
            return "fast-malformed-frame-raises"
    for e in escapes:
        if e.startswith("crash"):
            return "fast-parser-crash"
    return "fast-undecodable-frame-raises" if escapes else None


def fast_case(ctx, r, model, frames=None, ncorr=None, high=None):
    frames = frames if frames is not None else gen_fast_stream(r)
    data = b"".join(f + b"\r" for f, _ in frames)
    k = ncorr if ncorr is not None else r.choice([0, 0, 1, 1, 2])
    high = high if high is not None else (r.random() < 0.12)
    clog = []
    if k:
        data, clog = corrupt(r, data, ASCII_NOISE + (HIGH_NOISE if high else []), k)
    if not data:
        return
    case = {"kind": "fast", "data": data.hex(), "corruptions": clog}
    ctx.count("fast_streams")
    ctx.count("fast_corruptions", len(clog))
    results = []
    for chunks in chunkings(r, data):
        results.append((chunks,) + fast_run(chunks))
    base = results[0]
    malformed_frames = sum(1 for t in base[1] if t == "bad")
    ctx.count("fast_malformed_frames", malformed_frames)
    ctx.count("fast_undecodable_frames", sum(1 for t in base[1] if t == "und"))
    ctx.evaluated(case, bool(clog) or malformed_frames > 0 or len(frames) >= 2)
    failed = False
    for chunks, toks, escapes, per_chunk, sc, platform in results:
        sig = fast_fail_sig(escapes)
        if sig and not failed:
            failed = True
            small = data
            if sig != "fast-undecodable-frame-raises":
                parts = [p + b"\r" for p in data.split(b"\r")]
                keep = ddmin(parts, lambda ps: fast_fail_sig(fast_run([b"".join(ps)])[1]) == sig)
                small = b"".join(keep)
            ctx.fail(sig, dict(case, chunks=[c.hex() for c in chunks], shrunk=small.hex()),
                     {"escapes": escapes[:3], "decoded": toks})
        if toks != base[1] or bits_of(sc.table, NSW) != bits_of(base[4].table, NSW) or \
                platform.hw_switch_data != base[5].hw_switch_data:
            ctx.fail("fast-chunking", dict(case, chunks=[c.hex() for c in chunks]), {"got": toks, "one_chunk": base[1]})
            return
    # states equal the last report, on the uncorrupted stream
    if not clog:
        last = {}
        lasthw = None
        for f, kind in frames:
            if kind == "sw":
                n = int(f[3:], 16)
                if n < NSW:
                    last[n] = 1 if f.startswith(b"-") else 0
            elif kind == "sa":
                bs = bytes.fromhex(f[6:].decode())
                lasthw = {o * 8 + i: (b >> i) & 1 for o, b in enumerate(bs) for i in range(8)}
        sc, platform = base[4], base[5]
        want = sum(1 for _, kd in frames if kd in ("sw", "sa"))
        got = sum(1 for t in base[1] if t[0] in "co" or t.startswith("sa"))
        if {n: sc.table.get(n) for n in last} != last or (lasthw is not None and platform.hw_switch_data != lasthw) \
                or want != got:
            ctx.fail("fast-last-report", case, {"table": sc.table, "want": last, "decoded": base[1]})
    if model is not None:
        for chunks, toks, escapes, per_chunk, sc, platform in results[:3]:
            model.ask("fastinit %d" % NSW)
            for c, (ptoks, buf, table, hw) in zip(chunks, per_chunk):
                ans = model.ask("fast " + c.hex())
                impl = " ".join(ptoks + ["buf=" + (buf.hex() or "-"), "t=" + table, "hw=" + hw])
                if not ctx.compare(dict(case, chunks=[x.hex() for x in chunks], what="fast chunk " + c.hex()), impl, ans):
                    return


# ----------------------------------------------------------------------------------------------- PKONE cases
def pk_run(chunks):
    comm, got = make_pkone()
    escapes = []
    per_chunk = []
    for c in chunks:
        n0 = len(got)
        k0 = comm.messages_in_flight
        e0 = len(escapes)
        w0 = pk_skips(comm)
        pk_feed(comm, c, escapes)
        per_chunk.append((got[n0:], bytes(comm.received_msg), k0 - comm.messages_in_flight,
                          escapes[e0:].count("und") + pk_skips(comm) - w0))
    got_warnings.pop(id(comm), None)
    return got, escapes, per_chunk, comm


def pk_case(ctx, r, model):
    alpha = b"PSWDCBLX0123456789AF"
    frames = []
    for _ in range(r.randint(3, 10)):
        k = r.random()
        if k < 0.1:
            frames.append(b"")
        elif k < 0.2:
            frames.append(b"PWD")
        else:
            frames.append(bytes(r.choice(alpha) for _ in range(r.randint(1, 9))))
    data = b"".join(f + b"E" for f in frames)
    k = r.choice([0, 0, 1, 2])
    high = r.random() < 0.12
    clog = []
    if k:
        data, clog = corrupt(r, data, [ord(c) for c in "0123456789PSWE,:"] + (HIGH_NOISE if high else []), k)
    if not data:
        return
    case = {"kind": "pkone", "data": data.hex(), "corruptions": clog}
    ctx.count("pkone_streams")
    ctx.evaluated(case, True)
    results = [(chunks,) + pk_run(chunks) for chunks in chunkings(r, data)]
    base = results[0]
    from mpf.platforms.pkone.pkone_serial_communicator import PKONESerialCommunicator
    ignored = set(PKONESerialCommunicator.ignored_messages)
    failed = False
    for chunks, got, escapes, per_chunk, comm in results:
        if escapes and not failed:
            failed = True
            sig = "pkone-undecodable-frame-raises" if all(e == "und" for e in escapes) else "pkone-parser-crash"
            ctx.fail(sig, dict(case, chunks=[c.hex() for c in chunks]), {"escapes": escapes[:3]})
        if got != base[1] or comm.received_msg != base[4].received_msg:
            ctx.fail("pkone-chunking", dict(case, chunks=[c.hex() for c in chunks]), {"got": got, "one_chunk": base[1]})
            return
    # every well-formed frame is delivered, also after noise: the stream cut at the delimiters, minus empty, undecodable
    # and ignored frames
    want = []
    for f in data.split(b"E")[:-1]:
        try:
            t = f.decode()
        except UnicodeDecodeError:
            continue
        if t and t not in ignored:
            want.append(t)
    if base[1] != want:
        ctx.fail("pkone-delivery", case, {"got": base[1], "want": want})
    if model is not None:
        for chunks, got, escapes, per_chunk, comm in results[:3]:
            model.ask("reset")
            for c, (pgot, buf, nframes, nund) in zip(chunks, per_chunk):
                ans = model.ask("pk " + c.hex()).split(" ")
                mvis = [bytes.fromhex(t[1:]).decode() for t in ans[:-1] if t.startswith("m")]
                mvis = [m for m in mvis if m not in ignored]
                mframes = ans[:-1]
                # frames the model calls undecodable: the implementation raises on them (reported above), delivers nothing
                if not ctx.compare(dict(case, chunks=[x.hex() for x in chunks], what="pkone chunk " + c.hex()),
                                   [pgot, "buf=" + (buf.hex() or "-"), nframes, nund],
                                   [mvis, ans[-1], len(mframes), mframes.count("und")]):
                    return


# ----------------------------------------------------------------------------------------------- OPP cases
def opp_frame(addr, kind, value):
    if kind == "i":
        body = bytes([addr, 0x08]) + value.to_bytes(4, "big")
    else:
        body = bytes([addr, 0x19]) + value.to_bytes(8, "big")
    return body + bytes([crc8_real(body)])


def gen_opp(r):
    first = r.choice([0x20, 0x20, 0x31, 0x3f])
    cards = [("i", first)]
    if r.random() < 0.6:
        cards.append(("i", r.choice([0x21, 0x3e])))
    if r.random() < 0.5:
        cards.append(("m", r.choice([first, 0x22, 0x38])))
    items = []     # (bytes, meta)
    for _ in range(r.randint(2, 7)):
        for kind, addr in cards:
            if r.random() < 0.85:
                v = r.getrandbits(32 if kind == "i" else 64)
                if r.random() < 0.3:
                    v = (1 << (32 if kind == "i" else 64)) - 1 - (1 << r.randrange(32 if kind == "i" else 64))
                items.append((opp_frame(addr, kind, v), ("frame", kind, addr, v)))
        if r.random() < 0.15:
            items.append((opp_frame(0x25, "i", r.getrandbits(32)), ("unknown-card",)))
        items.append((b"\xff" * r.choice([1, 1, 2]), ("eom",)))
    return cards, items


def opp_run(cards, chunks):
    comm, p, sc, objs = make_opp(cards)
    escapes = []
    per_chunk = []
    for c in chunks:
        n0, e0 = len(p.frames), len(sc.events)
        try:
            comm._parse_msg(c)
        except Exception as e:
            escapes.append("crash:" + type(e).__name__ + ":" + str(e)[:80])
        per_chunk.append((p.frames[n0:], sc.events[e0:], bytes(comm.part_msg), comm._lost_synch, p.bad_crc["c"]))
    return p.frames, escapes, per_chunk, sc, objs, p, comm


def opp_ev_tokens(cards_objs, evs):
    out = []
    for num, st in evs:
        _, cardnum, idx = num.split("-")
        out.append("s%d.%s=%d" % (int(cardnum) + 0x20, idx, st))
    return out


def opp_case(ctx, r, model, mode=None):
    cards, items = gen_opp(r)
    mode = mode or r.choice(["valid", "valid", "payload", "payload", "header", "garbage", "truncate", "resync"])
    data = b"".join(b for b, _ in items)
    meta = {"mode": mode}
    corrupted_index = None
    if mode == "payload":
        idxs = [i for i, (_, m) in enumerate(items) if m[0] == "frame"]
        if idxs:
            corrupted_index = r.choice(idxs)
            fb = bytearray(items[corrupted_index][0])
            if r.random() < 0.5:
                pos = r.randrange(2, len(fb))
                fb[pos] ^= r.randrange(1, 256)
            else:
                # a burst of at most 8 consecutive bits across two adjacent bytes (low j bits, then high 8-j bits)
                pos = r.randrange(2, len(fb) - 1)
                j = r.randrange(0, 9)
                e1, h = r.randrange(2 ** j), r.randrange(2 ** (8 - j))
                if e1 == 0 and h == 0:
                    h = 1 if j < 8 else 0
                    e1 = 1 if j == 8 else e1
                fb[pos] ^= e1
                fb[pos + 1] ^= h * 2 ** j
                meta["burst"] = [j, e1, h]
            meta["pos"] = pos
            items = items[:corrupted_index] + [(bytes(fb), ("corrupt",) + items[corrupted_index][1])] + items[corrupted_index + 1:]
            data = b"".join(b for b, _ in items)
    elif mode == "header":
        data, meta["corruptions"] = corrupt(r, data, list(range(256)), r.randint(1, 3))
    elif mode == "garbage":
        pos = r.randrange(len(data) + 1)
        g = bytes(r.choice([r.randrange(256), 0x20, 0x08, 0x19, 0xff, 0x3f, 0x40]) for _ in range(r.randint(1, 14)))
        data = data[:pos] + g + data[pos:]
        meta["garbage"] = [pos, g.hex()]
    elif mode == "truncate":
        data = data[r.randrange(0, 12):]
    elif mode == "resync":
        g = bytes(r.choice([r.randrange(256), 0x20, 0x08, 0x19, 0x21]) for _ in range(r.randint(1, 25)))
        data = g + b"\xff" * 11 + data
        meta["garbage"] = g.hex()
    if not data:
        return
    case = {"kind": "opp", "cards": cards, "data": data.hex(), "meta": meta}
    ctx.count("opp_streams")
    ctx.count("opp_" + mode)
    results = [(chunks,) + opp_run(cards, chunks) for chunks in chunkings(r, data)]
    base = results[0]
    ctx.evaluated(case, True)
    carried_differs = False
    for chunks, frames, escapes, per_chunk, sc, objs, p, comm in results:
        if escapes:
            ctx.fail("opp-parser-crash", dict(case, chunks=[c.hex() for c in chunks]), {"escapes": escapes[:3]})
            return
        if frames != base[1] or sc.table != base[4].table or sc.events != base[4].events \
                or [c.old_state for _, _, c in objs] != [c.old_state for _, _, c in base[5]] \
                or p.bad_crc["c"] != base[6].bad_crc["c"]:
            ctx.fail("opp-chunking", dict(case, chunks=[c.hex() for c in chunks]),
                     {"got": [f.hex() for f in frames], "one_chunk": [f.hex() for f in base[1]]})
            return
        if (bytes(comm.part_msg), comm._lost_synch) != (bytes(base[7].part_msg), base[7]._lost_synch):
            carried_differs = True
    if carried_differs:
        ctx.count("opp_carried_state_depends_on_chunking")
    frames, sc, objs, p = base[1], base[4], base[5], base[6]
    sent = [m for _, m in items if m[0] == "frame"]
    if mode in ("valid", "resync", "payload"):
        good = [b for b, m in items if m[0] in ("frame", "unknown-card", "corrupt")]
        if mode != "resync" and frames != good:
            ctx.fail("opp-delivery", case, {"got": [f.hex() for f in frames], "want": [f.hex() for f in good]})
            return
        if mode == "resync" and frames[len(frames) - len(good):] != good:      # (frames[-0:] would be ALL frames)
            ctx.fail("opp-no-resync", case, {"got": [f.hex() for f in frames], "want_tail": [f.hex() for f in good]})
            return
        if mode != "resync" or True:
            last = {}
            for m in sent:
                last[(m[1], m[2])] = m[3]
            for kind, addr, c in objs:
                if (kind, addr) in last and mode != "resync" and c.old_state != last[(kind, addr)]:
                    ctx.fail("opp-last-report", case, {"card": addr, "old_state": c.old_state, "want": last[(kind, addr)]})
                    return
                n, b0 = (32, 0) if kind == "i" else (64, 32)
                for i in range(n):
                    want = 0 if (c.old_state >> i) & 1 else 1
                    if sc.table.get("c-%s-%d" % (c.card_num, b0 + i), 0) != want:
                        ctx.fail("opp-last-report", case, {"card": addr, "input": b0 + i, "old_state": c.old_state,
                                                          "reported": sc.table.get("c-%s-%d" % (c.card_num, b0 + i))})
                        return
    if mode == "payload" and corrupted_index is not None:
        # the corrupted frame must be rejected: no event, counter +1; replay the stream without it and compare
        items2 = items[:corrupted_index] + items[corrupted_index + 1:]
        ref = opp_run(cards, [b"".join(b for b, _ in items2)])
        if p.bad_crc["c"] != 1 or sc.events != ref[3].events or \
                [c.old_state for _, _, c in objs] != [c.old_state for _, _, c in ref[4]]:
            ctx.fail("opp-bad-crc-accepted", case, {"bad_crc": p.bad_crc["c"], "events": sc.events[:6],
                                                    "without_frame": ref[3].events[:6]})
            return
    if model is not None:
        for chunks, frames, escapes, per_chunk, sc, objs, p, comm in results[:3]:
            model.ask("reset")
            for kind, addr in cards:
                model.ask("card %s %d" % (kind, addr))
            for c, (pframes, pevs, buf, lost, crc) in zip(chunks, per_chunk):
                ans = model.ask("opp " + c.hex())
                fl = [f.hex() for f in pframes]
                impl = " ".join(["f" + x for x in fl] + ["|"] + ["a" + x for x in fl] + ["|"] + opp_ev_tokens(objs, pevs) +
                                ["buf=" + (buf.hex() or "-"), "lost=%d" % lost, "crc=%d" % crc, "norm=1"])
                if not ctx.compare(dict(case, chunks=[x.hex() for x in chunks], what="opp chunk " + c.hex()), impl, ans):
                    return
            ans = model.ask("oppstate")
            ctx.compare(dict(case, what="opp card state"), opp_card_state(sc, objs), ans.rsplit(" auto=", 1)[0])


def crc_case(ctx, r, model):
    data = bytes(r.randrange(256) for _ in range(r.choice([6, 10, r.randint(0, 12)])))
    ctx.count("crc_values")
    ctx.evaluated({"kind": "crc", "data": data.hex()}, True, sample=False)
    if model is not None:
        ctx.compare({"kind": "crc", "data": data.hex()}, str(crc8_real(data)), model.ask("crc " + (data.hex() or "-")))


# ----------------------------------------------------------------------------------------------- writer cases
class FakeWriter:
    def __init__(self):
        self.log = []

    def write(self, msg):
        self.log.append(bytes(msg))


def gen_writer_ops(r, disciplined):
    ops = []
    n = 0
    outstanding = None
    for _ in range(r.randint(3, 10)):
        if disciplined:
            n += 1
            if r.random() < 0.6:
                h = r.choice(["DL:", "SA:", "SL:"])
                ops += [["c", n, h], ["run"], ["recv", h]]
            else:
                ops += [["f", n], ["run"]]
        else:
            k = r.random()
            if k < 0.35:
                n += 1
                h = r.choice(["DL:", "SA:", "SL:"])
                ops.append(["c", n, h])
                outstanding = h
            elif k < 0.6:
                n += 1
                ops.append(["f", n])
            elif k < 0.85:
                ops.append(["run"])
            else:
                ops.append(["recv", outstanding if outstanding and r.random() < 0.7 else r.choice(["DL:", "SA:", "SL:", "WD:"])])
    ops.append(["run"])
    return ops


def writer_run(ops):
    """real _socket_writer task; returns per-op observations and oracle verdicts"""
    obs = []
    verdict = {"violation": None, "order": None}

    async def go():
        comm, sc, platform = make_fast()
        comm.platform.switches_initialized = False    # an SA: confirmation carries no data here
        w = FakeWriter()
        comm.writer = w
        task = asyncio.get_event_loop().create_task(comm._socket_writer())
        sent = []
        outstanding = None      # header of a written confirmed command whose confirmation has not arrived
        seen = 0
        for op in ops:
            if op[0] == "c":
                comm.send_with_confirmation("%s%02X" % (op[2], op[1]), op[2])
                sent.append(op)
            elif op[0] == "f":
                comm.send_and_forget("TL:%02X" % op[1])
                sent.append(op)
            elif op[0] == "recv":
                comm.parse_incoming_raw_bytes((op[1] + "P\r").encode())
                if outstanding and outstanding.startswith(op[1]):
                    outstanding = None
            else:
                for _ in range(4):
                    await asyncio.sleep(0)
            new = w.log[seen:]
            for m in new:
                idx = seen
                if outstanding is not None and verdict["violation"] is None:
                    verdict["violation"] = {"written": m.decode(), "while_waiting_for": outstanding, "after_op": op}
                o = sent[idx] if idx < len(sent) else None
                want = (("%s%02X\r" % (o[2], o[1])) if o and o[0] == "c" else ("TL:%02X\r" % o[1]) if o else None)
                if want is None or m != want.encode():
                    verdict["order"] = verdict["order"] or {"written": m.decode(), "expected": want}
                if o and o[0] == "c":
                    outstanding = o[2]
                seen += 1
            obs.append((len(new), [sent[i][1] for i in range(min(seen, len(sent)))], comm.send_queue.qsize(),
                        comm.pause_sending_flag.is_set(), comm.pause_sending_until))
        task.cancel()
        try:
            await task
        except asyncio.CancelledError:
            pass
    loop = asyncio.new_event_loop()
    try:
        asyncio.set_event_loop(loop)
        loop.run_until_complete(go())
    finally:
        asyncio.set_event_loop(None)
        loop.close()
    return obs, verdict


def writer_case(ctx, r, model, ops=None, disciplined=None):
    disciplined = disciplined if disciplined is not None else (r.random() < 0.4)
    ops = ops or gen_writer_ops(r, disciplined)
    case = {"kind": "writer", "ops": ops, "disciplined": disciplined}
    ctx.count("writer_disciplined" if disciplined else "writer_free")
    ctx.evaluated(case, True)
    try:
        obs, verdict = writer_run(ops)
    except Exception as e:
        ctx.fail("fast-writer-crash", case, {"error": repr(e)})
        return
    if verdict["order"]:
        ctx.fail("fast-writer-order", case, verdict["order"])
    if verdict["violation"]:
        small = ddmin(ops, lambda o: writer_run(o)[1]["violation"] is not None)
        ctx.fail("fast-writer-does-not-pause", dict(case, shrunk=small), verdict["violation"])
    if model is not None:
        model.ask("reset")
        for op, (nnew, log, q, flag, until) in zip(ops, obs):
            if op[0] == "c":
                model.ask("wq c %d %s" % (op[1], op[2].encode().hex()))
            elif op[0] == "f":
                model.ask("wq f %d" % op[1])
            elif op[0] == "recv":
                model.ask("wrecv " + op[1].encode().hex())
            ans = None
            for _ in range(nnew):
                ans = model.ask("wstep")
            if op[0] == "run":
                more = model.ask("wstep")     # the real writer has drained its queue: the model must have nothing left
                if more != "not-enabled":
                    ctx.compare(dict(case, what="writer idle after run"), "not-enabled", more)
                    return
            ans = model.ask("wrecv " + b"??".hex())  # a header nobody waits for: no-op that prints the state
            impl = "log=%s q=%d flag=%d until=%s" % (",".join(map(str, log)) or "-", q, 1 if flag else 0,
                                                      until.encode().hex() if until else "none")
            if not ctx.compare(dict(case, what="writer after %r" % (op,)), impl, ans):
                return


# ----------------------------------------------------------------------------------------------- SA: snapshots + events
class FastRig:
    """The REAL FAST platform booted on the repo's mock serial ports exactly as mpf/tests/test_Fast_Neuron.py does
    (TestFastNeuron: real machine, real FastNetNeuronCommunicator, real switch controller, neuron.yaml)."""

    def __init__(self):
        from mpf.tests.test_Fast_Neuron import TestFastNeuron

        class T(TestFastNeuron):
            def __init__(self):
                super().__init__("runTest")

            def runTest(self):
                pass
        self.t = T()
        self.t.setUp()
        logging.disable(logging.CRITICAL)
        if self.t.startup_error or self.t.machine.is_shutting_down:
            raise InfraError("FAST test machine did not boot: %r" % (self.t.startup_error,))
        m = self.t.machine
        self.plat = m.hardware_platforms["fast"]
        self.comm = self.plat.serial_connections["net"]
        self.sc = m.switch_controller
        self.sw = {s.hw_switch.number: s for s in m.switches.values() if s.platform == self.plat}
        self.n = max(len(self.plat.hw_switch_data), max(self.sw) + 1)
        if len(self.sw) < 8 or not any(s.invert for s in self.sw.values()):
            raise InfraError("FAST test config has no NC switch / too few switches")
        # the config tags one switch `start`; without ball devices a game cannot start, so attract mode (the only listener
        # of the start button) is stopped: switch states are what is under test here, not the game
        if "attract" in m.modes and m.modes["attract"].active:
            m.modes["attract"].stop()
            self.t.advance_time_and_run(.125)
        # devices reacting to switch changes (flippers, autofires) write commands; from here on the mock boards accept
        # every command and answer nothing, so that only the generated bytes ever reach the communicator's buffer
        # (a real board sends whole frames; a canned reply landing inside a half-fed frame would be a harness artefact)
        self.swallowed = []
        for conn in self.t.serial_connections.values():
            def quiet(msg, _rig=self):
                _rig.swallowed.append(bytes(msg)[:24])
                return len(msg)
            conn._simulate_board_response = quiet
        self.cfg = "".join("1" if i in self.sw else "0" for i in range(self.n))
        self.inv = "".join("1" if i in self.sw and self.sw[i].invert else "0" for i in range(self.n))

    def logical(self):
        return "".join("1" if i in self.sw and self.sc.is_active(self.sw[i]) else "0" for i in range(self.n))

    def hw(self):
        d = self.plat.hw_switch_data
        return "".join(str(d[i]) for i in sorted(d)) or "-"

    def feed(self, chunk, escapes):
        data = chunk
        for _ in range(len(chunk) + 3):      # an escaping exception is recorded, then parsing resumes on the buffer
            try:
                self.comm.parse_incoming_raw_bytes(data)
                break
            except Exception as e:
                escapes.append(type(e).__name__ + ": " + str(e)[:80])
                data = b""
        if b"\r" in chunk:
            try:
                self.t.advance_time_and_run(.125)
            except Exception as e:
                escapes.append("loop: " + type(e).__name__ + ": " + str(e)[:80])

    def close(self):
        try:
            for c in self.t.serial_connections.values():
                c.expected_commands = {}
            self.t.tearDown()
        except Exception:
            pass


def gen_sa_seq(r, rig):
    """items: (frame bytes | None if dropped, meta)"""
    nums = sorted(rig.sw)
    items = []
    snaps = []
    for _ in range(r.randint(4, 14)):
        k = r.random()
        if k < 0.35:
            j = r.random()
            if snaps and j < 0.3:
                data = r.choice(snaps)                      # identical to an earlier snapshot
            elif j < 0.6:
                data = bytearray(r.choice(snaps) if snaps else bytes(14))
                for _ in range(r.randint(1, 4)):            # flips on configured switches: contradicts events in between
                    n = r.choice(nums)
                    data[n // 8] ^= 1 << (n % 8)
                data = bytes(data)
            else:
                data = bytes(r.randrange(256) for _ in range(14))
            snaps.append(data)
            items.append((b"SA:0E," + data.hex().upper().encode(), ("snap", data.hex())))
        elif k < 0.85:
            n = r.choice(nums) if r.random() < 0.85 else r.randrange(112)
            closed = r.random() < 0.5
            f = (b"-L:" if closed else b"/L:") + (("%02X" if r.random() < 0.8 else "%02x") % n).encode()
            if r.random() < 0.15:
                items.append((None, ("dropped", n, closed)))   # lost on the wire: never delivered
            else:
                items.append((f, ("ev", n, closed)))
        elif k < 0.93:
            if r.random() < 0.5:
                # a snapshot cut short on the wire (whole bytes or in the middle of one): must change nothing
                full = bytes(r.randrange(256) for _ in range(14)).hex().upper()
                items.append((("SA:0E," + full[:r.randrange(0, 28)]).encode(), ("malformed", "truncated-sa")))
            else:
                items.append((r.choice([b"-L:G1", b"/L:", b"-L:0AZ", b"SA:0E", b"SA:0E,0G", b"SA:0E,00,00", b"/L:1G"]),
                              ("malformed",)))
        else:
            items.append((r.choice([b"WD:P", b"TL:P", b"", b"ZZ:1"]), ("noise",)))
    return items


def sa_expect(rig, items, logical0, hw0):
    """the oracle's own reading of the reports: last report per switch wins"""
    exp = {n: logical0[n] == "1" for n in rig.sw}
    hw = hw0
    for f, meta in items:
        if f is None:
            continue
        if meta[0] == "snap":
            bs = bytes.fromhex(meta[1])
            bits = [(b >> i) & 1 for b in bs for i in range(8)]
            hw = "".join(map(str, bits))
            for n, s in rig.sw.items():
                if n < len(bits):
                    exp[n] = bool(bits[n] ^ (1 if s.invert else 0))
        elif meta[0] == "ev":
            if meta[1] in rig.sw:
                exp[meta[1]] = meta[2]
    return exp, hw


def sa_case(ctx, r, model, rig, items=None):
    items = items if items is not None else gen_sa_seq(r, rig)
    data = b"".join(f + b"\r" for f, _ in items if f is not None)
    if not data:
        return
    case = {"kind": "fast-sa", "items": [[f.decode() if f is not None else None, list(m)] for f, m in items]}
    ctx.count("fastsa_sequences")
    for _, m in items:
        ctx.count("fastsa_" + m[0])
    ctx.evaluated(case, sum(1 for _, m in items if m[0] == "snap") >= 1 and sum(1 for _, m in items if m[0] == "ev") >= 1)
    for chunks in chunkings(r, data, 1):
        logical0, hw0 = rig.logical(), rig.hw()
        if rig.comm.received_msg:
            raise InfraError("FAST rig: bytes left in the buffer between sequences")
        if model is not None:
            model.ask("swinit %s %s %s %s" % (rig.cfg, rig.inv, logical0, hw0))
        escapes = []
        ccase = dict(case, chunks=[c.hex() for c in chunks], initial=logical0)
        for c in chunks:
            rig.feed(c, escapes)
            if model is not None:
                ans = model.ask("fastsw " + c.hex()).split(" ")
                impl = ["buf=" + (bytes(rig.comm.received_msg).hex() or "-"), "l=" + rig.logical(), "hw=" + rig.hw()]
                if not ctx.compare(dict(ccase, what="fast-sa chunk " + c.hex()), impl, ans[-3:]):
                    model = None      # keep the oracle running; the model is out of step for this run
        if escapes:
            ctx.fail("fast-sa:parser-raises", ccase, {"escapes": escapes[:3]})
            return
        exp, hw = sa_expect(rig, items, logical0, hw0)
        got = {n: rig.sc.is_active(s) for n, s in rig.sw.items()}
        wrong = {n: {"switch": rig.sw[n].name, "mpf": got[n], "last_report": exp[n]} for n in exp if got[n] != exp[n]}
        if wrong:
            ctx.fail("fast-sa:state-not-last-report", ccase, {"wrong": wrong})
            return
        if rig.hw() != hw:
            ctx.fail("fast-sa:hw-data-not-last-snapshot", ccase, {"hw_switch_data": rig.hw(), "last_snapshot": hw})
            return


# ----------------------------------------------------------------------------------------------- lost response / retry
class VLoop(asyncio.SelectorEventLoop):
    """asyncio loop on a virtual clock (advanced by the harness only)"""

    def __init__(self):
        super().__init__()
        self.vt = 0.0

    def time(self):
        return self.vt


def retry_run(gate, max_retries, ops):
    """real send_and_wait_for_response_processed + real writer task; ops: 'timeout' (1 s passes) | 'response'"""
    loop = VLoop()
    obs = []
    try:
        asyncio.set_event_loop(loop)

        def spin():
            for _ in range(6):
                loop.run_until_complete(asyncio.sleep(0))
        comm, sc, platform = make_fast()
        w = FakeWriter()
        comm.writer = w
        wt = loop.create_task(comm._socket_writer())
        if not gate:
            comm.no_response_waiting.clear()      # an earlier command's response was lost
        task = loop.create_task(comm.send_and_wait_for_response_processed("CH:2000,FF", "CH:", timeout=1,
                                                                          max_retries=max_retries))

        def look():
            return "written=%d fin=%d gate=%d" % (w.log.count(b"CH:2000,FF\r"), 1 if task.done() else 0,
                                                  1 if comm.no_response_waiting.is_set() else 0)
        spin()
        obs.append(look())
        for op in ops:
            if op == "timeout":
                loop.vt += 1.0078125
                spin()
            else:
                comm.parse_incoming_raw_bytes(b"CH:P\r")
                spin()
            obs.append(look())
        err = repr(task.exception()) if task.done() and not task.cancelled() and task.exception() else None
        for t in (task, wt):
            t.cancel()
        spin()
        return obs, w.log.count(b"CH:2000,FF\r"), err
    finally:
        asyncio.set_event_loop(None)
        loop.close()


def retry_case(ctx, r, model, fixed=None):
    gate, max_retries, ops = fixed or (r.random() < 0.6, r.choice([0, 1, 2, 3]),
                                       [r.choice(["timeout", "timeout", "response"]) for _ in range(r.randint(1, 7))])
    case = {"kind": "retry", "gate": gate, "max_retries": max_retries, "ops": ops}
    ctx.count("retry_cases")
    ctx.evaluated(case, True)
    try:
        obs, written, err = retry_run(gate, max_retries, ops)
    except Exception as e:
        ctx.fail("fast-retry-crash", case, {"error": repr(e)})
        return
    if err:
        ctx.fail("fast-retry-crash", case, {"error": err})
        return
    # oracle: the command was handed over, its response never came, more than (max_retries + 1) time-outs passed:
    # "a lost response is retried as configured" demands 1 + max_retries writes
    lost = gate and "response" not in ops and ops.count("timeout") >= max_retries + 2
    if lost and written < 1 + max_retries and max_retries > 0:
        ctx.fail("fast-lost-response-not-retried", case, {"written": written, "expected_at_least": 1 + max_retries,
                                                          "timeouts_passed": ops.count("timeout")})
    if model is not None:
        ans = [model.ask("rstart %d %d" % (1 if gate else 0, max_retries))]
        for op in ops:
            ans.append(model.ask("rtimeout" if op == "timeout" else "rresponse"))
        ctx.compare(dict(case, what="retry observations"), obs, ans)


# ----------------------------------------------------------------------------------------------- entry points
D22_WITNESS = [(b"-L:0A", "sw"), (b"-L:G1", "malformed"), (b"-L:0B", "sw")]
D7_WITNESS = [["c", 1, "DL:"], ["f", 2], ["run"]]


def run(ctx):
    model = None if getattr(ctx, "model_unavailable", False) else leanproc.LeanProc(ID)
    try:
        # recorded witnesses first (DESIGN.md section 5: D22 fixed, D7 known; undecodable frames known)
        fast_case(ctx, ctx.rng("w-d22"), model, frames=D22_WITNESS, ncorr=0)
        fast_case(ctx, ctx.rng("w-und"), model, frames=[(b"-L:0A", "sw"), (b"-L:0\xff", "malformed"), (b"-L:0B", "sw")],
                  ncorr=0)
        writer_case(ctx, ctx.rng("w-d7"), model, ops=D7_WITNESS, disciplined=False)
        retry_case(ctx, ctx.rng("w-retry"), model, fixed=(True, 2, ["timeout"] * 5))
        for i in range(ctx.n(700, 6000)):
            fast_case(ctx, ctx.rng("fast", i), model)
        for i in range(ctx.n(300, 3000)):
            pk_case(ctx, ctx.rng("pk", i), model)
        for i in range(ctx.n(700, 6000)):
            opp_case(ctx, ctx.rng("opp", i), model)
        for i in range(ctx.n(200, 3000)):
            crc_case(ctx, ctx.rng("crc", i), model)
        for i in range(ctx.n(400, 4000)):
            writer_case(ctx, ctx.rng("writer", i), model)
        for i in range(ctx.n(80, 800)):
            retry_case(ctx, ctx.rng("retry", i), model)
        # ---- session 3: protocol code behind the frame decoders (harness/common/serial_c14.py, Model/Framing2.lean)
        S2.pk2_case(ctx, ctx.rng("w-pk2"), model, ncorr=0, frames=[
            ("PSW0071", "sw"), ("PSW007", "malformed"), ("PSW", "malformed"), ("PWF", "other"), ("PSA01x0", "malformed"),
            ("PSW0070", "sw")])
        S2.opp_init_case(ctx, ctx.rng("w-oppinit"), model, cards=[
            {"addr": 0x21, "wings": [2, 7, 10, 2], "vers": [2, 1, 0, 0], "inp": 0xffffffff, "mtx": 0xffffffffffffffff}])
        S2.fcfg_case(ctx, ctx.rng("w-fcfg"), model, ncorr=0, frames=[
            ("ID:NET FP-CPU-2000 02.13", "id"), ("DL:00,81,00,10,0A,FF,00,00,00DL:01,81,00,10,0A,FF,00,00,00", "malformed"),
            ("SL:00,00,00,00", "sl"), ("CH:P", "ch")])
        for i in range(ctx.n(500, 5000)):
            S2.pk2_case(ctx, ctx.rng("pk2", i), model)
        for i in range(ctx.n(120, 1500)):
            S2.opp_init_case(ctx, ctx.rng("oppinit", i), model)
        for i in range(ctx.n(400, 4000)):
            S2.opp_msg_case(ctx, ctx.rng("oppmsg", i), model)
        for i in range(ctx.n(350, 4000)):
            S2.fcfg_case(ctx, ctx.rng("fcfg", i), model)
        for i in range(ctx.n(300, 3000)):
            S2.gate_case(ctx, ctx.rng("gate", i), model)
        # ---- second extension job (harness/common/serial3_c14.py, Model/Framing3.lean)
        S3.plat_case(ctx, ctx.rng("w-readid"), model, case={      # the serial-number reply split over several reads
            "kind": "opp-plat", "chains": [{"serial": None, "id": 74565, "cards": [
                {"addr": 0x20, "wings": [2, 4, 0x0a, 2], "vers": [2, 1, 0, 0], "inp": 0xfffffffe, "mtx": 0xffffffffffffff7f}]}],
            "init_damage": {}, "mode": "valid", "steady": ["ff"], "meta": [[["ff", ["eom"]]]]})
        S3.fnn_case(ctx, ctx.rng("w-nn"), model, ncorr=0, nboards=2, frames=[
            ("NN:00,FP-I/O-3208-3   ,01.10,08,20,00,00,00,00,00,00", "nn"),
            ("NN:05,FP-I/O-3208-3   ,01.10,08,20,00,00,00,00,00,00", "malformed"),
            ("NN:01,FP-I/O-0804-3   ,01.10,04,08,00,00,00,00,00,00", "nn")])
        S3.fnn_case(ctx, ctx.rng("w-nn2"), model, ncorr=0, nboards=2, frames=[
            ("NN:01,FP-I/O-0804-3   ,01.10,04,08,00,00,00,00,00,00", "malformed"),
            ("NN:00,FP-I/O-3208-3   ,01.10,08,20,00,00,00,00,00,00", "nn"),
            ("NN:01,FP-I/O-0804-3   ,01.10,04,08,00,00,00,00,00,00", "nn")])
        for i in range(ctx.n(130, 2000)):
            S3.plat_case(ctx, ctx.rng("oppplat", i), model)
        for i in range(ctx.n(300, 3000)):
            S3.opp_msgu_case(ctx, ctx.rng("oppmsgu", i), model)
        for i in range(ctx.n(300, 4000)):
            S3.fnn_case(ctx, ctx.rng("fnn", i), model)
        for i in range(ctx.n(200, 2500)):
            S3.pkc_case(ctx, ctx.rng("pkc", i), model)
        try:
            rig = FastRig()
        except Exception:
            if not getattr(ctx, "failures", None):
                raise
            ctx.count("fast_rig_did_not_boot_after_failures")      # the failures found above are the report
            return
        try:
            z = "00" * 14
            sa_case(ctx, ctx.rng("w-sa"), model, rig, items=[      # same snapshot twice around contradicting events
                (b"SA:0E," + z.encode(), ("snap", z)), (b"-L:02", ("ev", 2, True)), (b"-L:05", ("ev", 5, True)),
                (b"SA:0E," + z.encode(), ("snap", z)), (None, ("dropped", 1, True)),
                (b"SA:0E,FFFF", ("malformed", "truncated-sa")),
                (b"SA:0E,02" + z[2:].encode(), ("snap", "02" + z[2:])), (b"/L:01", ("ev", 1, False))])
            for i in range(ctx.n(250, 3000)):
                sa_case(ctx, ctx.rng("sa", i), model, rig)
        finally:
            rig.close()
    finally:
        if model is not None:
            model.close()


def replay(ctx, rep):
    case = rep["case"]
    sig = rep.get("signature", "")
    if case["kind"] == "opp-plat":
        S3.plat_replay(ctx, case)
    elif case["kind"] == "fast-nn":
        S3.fnn_replay(ctx, case)
    elif case["kind"] == "pkone-connect":
        S3.pkc_replay(ctx, case)
    elif case["kind"] == "opp-msgu":
        obs, p, boards = S2.opp_msg_run(case["cards"], [bytes.fromhex(m) for m in case["msgs"]], registered=False)
        if any("crash:" in o for o in obs):
            ctx.fail("opp-init-message-crash", case, {"observations": obs})
    elif case["kind"] == "pk2":
        S2.pk2_replay(ctx, case)
    elif case["kind"] in ("opp-init", "opp-msg"):
        S2.opp_init_replay(ctx, case)
    elif case["kind"] == "fast-cfg":
        S2.fcfg_replay(ctx, case)
    elif case["kind"] == "gate":
        S2.gate_replay(ctx, case)
    elif case["kind"] == "fast":
        data = bytes.fromhex(case.get("shrunk") or case["data"])
        for chunks in ([data], [bytes.fromhex(c) for c in case.get("chunks", [])] or [data]):
            toks, escapes, _, _, _ = fast_run(chunks)
            s = fast_fail_sig(escapes)
            if s:
                ctx.fail(s, case, {"escapes": escapes[:3], "decoded": toks})
                return
        one = fast_run([bytes.fromhex(case["data"])])[0]
        ch = fast_run([bytes.fromhex(c) for c in case.get("chunks", [case["data"]])])[0]
        if one != ch:
            ctx.fail("fast-chunking", case, {"got": ch, "one_chunk": one})
    elif case["kind"] == "pkone":
        data = bytes.fromhex(case["data"])
        a = pk_run([data])
        b = pk_run([bytes.fromhex(c) for c in case.get("chunks", [case["data"]])])
        if a[1] or b[1]:
            ctx.fail("pkone-undecodable-frame-raises", case, {"escapes": (a[1] + b[1])[:3]})
        elif a[0] != b[0]:
            ctx.fail("pkone-chunking", case, {"got": b[0], "one_chunk": a[0]})
    elif case["kind"] == "opp":
        cards = [tuple(c) for c in case["cards"]]
        data = bytes.fromhex(case["data"])
        a = opp_run(cards, [data])
        b = opp_run(cards, [bytes.fromhex(c) for c in case.get("chunks", [case["data"]])])
        if a[1] or b[1]:
            ctx.fail("opp-parser-crash", case, {"escapes": (a[1] + b[1])[:3]})
        elif a[0] != b[0] or a[3].events != b[3].events:
            ctx.fail("opp-chunking", case, {"got": [f.hex() for f in b[0]], "one_chunk": [f.hex() for f in a[0]]})
        elif sig:
            ctx.fail(sig, case, {"note": "stream-level oracle; re-run ./check C14 with the same seed",
                                 "frames": [f.hex() for f in a[0]], "bad_crc": a[5].bad_crc["c"]})
    elif case["kind"] == "fast-sa":
        rig = FastRig()
        try:
            items = [(f.encode() if f is not None else None, tuple(m)) for f, m in case["items"]]
            for chunks in ([bytes.fromhex(c) for c in case.get("chunks", [])], None):
                if chunks is None:
                    chunks = [b"".join(f + b"\r" for f, _ in items if f is not None)]
                logical0, hw0 = rig.logical(), rig.hw()
                esc = []
                for c in chunks:
                    rig.feed(c, esc)
                exp, hw = sa_expect(rig, items, logical0, hw0)
                wrong = {n: exp[n] for n, sw in rig.sw.items() if rig.sc.is_active(sw) != exp[n]}
                if esc:
                    ctx.fail("fast-sa:parser-raises", case, {"escapes": esc[:3]})
                    return
                if wrong:
                    ctx.fail("fast-sa:state-not-last-report", case, {"wrong": wrong})
                    return
                if rig.hw() != hw:
                    ctx.fail("fast-sa:hw-data-not-last-snapshot", case, {"hw_switch_data": rig.hw()})
                    return
        finally:
            rig.close()
    elif case["kind"] == "retry":
        obs, written, err = retry_run(case["gate"], case["max_retries"], case["ops"])
        if err:
            ctx.fail("fast-retry-crash", case, {"error": err})
        elif written < 1 + case["max_retries"]:
            ctx.fail("fast-lost-response-not-retried", case, {"written": written, "observations": obs})
    elif case["kind"] == "writer":
        obs, verdict = writer_run(case.get("shrunk") or case["ops"])
        if verdict["order"]:
            ctx.fail("fast-writer-order", case, verdict["order"])
        if verdict["violation"]:
            ctx.fail("fast-writer-does-not-pause", case, verdict["violation"])
