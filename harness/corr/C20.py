"""C20 - credits: the balance follows the pricing table and stays within bounds.

Implementation side: the real credits mode (mpf/modes/credits) on a real machine: coin switches, service-credit switch,
credit events, the start button (attract's request_to_start_game / the game's request_player_add), ball ends, game
ends, the two expiration delays on virtual time, free-play toggles, credits_reset / slam_tilt / earnings_reset, power
cycles (a new machine booted from what the old one saved), the coin-inhibit output, the events the mode posts.
Model side: MpfVerif.Model.Credits (integer credit units) through the compiled driver drv_c20.
Oracle (independent of the model, exact rational arithmetic): bounds, start only with a full price, exact deduction,
audits = coins accepted, balance = reference pricing (cumulative greedy tier bonus) of the money inserted.
"""
import gc
from fractions import Fraction
from unittest.mock import MagicMock

from harness.common import leanproc
from harness.common.shrink import ddmin
from harness.common.vmachine import VMachine, BootError
from harness.common.pool_c20c11 import CaseTimeout, watchdog

ID = "C20"
LEAN_MODULES = ["MpfVerif.Props.C20"]
PROPS_FILE = "MpfVerif/Props/C20.lean"


def _gen_credits():
    from translate import credits_gen
    return credits_gen.generate()


def _gen_credits_ops():
    from translate import credits_eff
    return credits_eff.generate()


GEN = [_gen_credits, _gen_credits_ops]
MANIFEST = {
    "text": "Proof on an integer credit-unit Lean model of the credits mode (unit and pricing-table calculation, _add_credit_units with cap and tier bonus, start / player-add gate, deduction, fractional and full expiration, free-play switching, service credits, credit events, audits, coin-inhibit output, posted events, power cycles with the on-disk expiry of credit_units): for every well-formed price/tier/coin/max configuration (any combination of coin switches, service switch and credit events, including none) and every history of coins, service credits, credit events, start requests, ball and game ends, clock advances, play-mode toggles (also with a coin in flight), resets and power cycles, 0 <= balance <= max_credits * units per game after every step; a game or player starts in credit play only with a full price available and deducts exactly that; the earnings audits equal the coins accepted; the balance obeys the ledger coins + tier bonus + granted credits - deducted prices - (capped, expired or lost-at-power-off units); a power cycle keeps the balance or drops it; the unit-by-unit bonus loop grants exactly the cumulative tier bonus. Tie to the source: (1) the three integer decision kernels (cap-and-store of _add_credit_units, _clear_fractional_credits, the deduction of _player_added) and (2) seven whole handlers (_request_to_start_game, _player_add_request, _game_started, _game_ended, _clear_fractional_credits, clear_all_credits, toggle_credit_play) are regenerated from credits.py on every run - the handlers as programs for a stateful interpreter (object state, effect log: variable writes, events, delays, audit/display calls) - and proved to do exactly what the hand model does (handlers_refine_source); 11 more methods (coin / event / service callbacks, _add_credit_units with its loop, _player_added, _ball_starting, coin inhibit, timeouts) are regenerated too, so they must stay inside the translated subset, but their equality with the hand model is checked by the correspondence run only. The rest of the hand model is tied by a correspondence run on the real credits mode of a real machine (balance, tier counter, strings, game/player state, delays, audits, posted events, coin-inhibit output compared after every op, across power cycles), and the property's clauses are recomputed independently from each op history in exact rational arithmetic (also for decimal prices such as 0.10 / 0.30 / 0.35 that are not doubles).",
    "note": "Trusted: Lean kernel + standard axioms; translate/credits_gen.py (Python ast -> straight-line Lean Int code) and translate/credits_eff.py + Model/PyStore.lean (Python ast -> data for a fixed stateful interpreter; exact `/`, Python `%` for a positive divisor) with the hand-written meaning of logged actions in Model/CreditsGen.lean (`applyEff`: opaque methods _update_credit_strings / _audit* / enable_*_play mean the corresponding piece of the hand model; anything without a meaning raises a flag that the theorems prove is never raised); the hand-written rest of Model/Credits.lean (pricing-tier table, unit calculation, game rotation, timers, power cycle: validated only by the differential run). The model's numbers are exact; mpf computes with doubles, and the check demands the exact result. Not modelled: prices changed through settings at run time (the code re-reads them only in enable_credit_play), the tier counter across a power cycle is simply restarted (it is an instance attribute, not a machine variable), credit events with fractional credits, extra balls, replay award via a conditional game_ending event; audit totals are compared up to 1e-6 (mpf sums floats: 0.1+0.2 is counted as an observation).",
    "technique": "Lean 4 theorems (invariants by induction over the op list, omega) on a hand model; integer kernels and seven handlers machine-translated from the source on every run and proved equal to the hand model (deep embedding with store + effect log); differential correspondence and an independent rational-arithmetic oracle on the real credits mode incl. power cycles",
    "translated": True,
}
RULE = ("a case = one credits configuration (price, 0-3 coin switches each with an audit class and an optional label, 0-3 "
        "pricing tiers incl. one cheaper than its predecessor, max_credits incl. 0, expiration times, "
        "persist_credits_while_off_time 0/8/64/3600 s, with/without service switch, 0-2 credit events, with/without coin-inhibit "
        "output, boot in free or credit play; event-only, switch-only, service-only and empty configurations are forced 19% of "
        "the time; decimal non-double prices (nickels/dimes) 10%; the two price configurations of mpf/tests/machine_files/credits "
        "30%) + 5-45 ops (coin i, service, credit event, start button, ball end, game end, clock advance to/around the "
        "expiration deadlines, free-play on/off/toggle, a coin with a toggle request in the queue, credits_reset, slam_tilt, "
        "earnings_reset, power cycle with an off-time around the persistence deadlines), with a stream biased to fill up to "
        "the cap. non-trivial = at least one coin was accepted and one start request was made; distinct = canonical JSON of "
        "(config, ops)")
TRUSTED = ["modelled, not verified: DelayManager / asyncio timers (TimeTravelLoop), the game mode's player-add and ball rotation "
           "rules, the machine-variable store and its load-time expiry test (mpf/core/machine_vars.py; the harness carries the "
           "saved dictionaries of the test data managers over a power cycle and shifts the absolute expiry stamps by the off-time), "
           "the virtual platform's driver state for the coin-inhibit output",
           "Model/Credits.lean is hand-written; seven handlers and three kernels are proved equal to the regenerated source, the "
           "rest is tied to mpf/modes/credits/code/credits.py by correspondence on every run",
           "the oracle fails only on the property's clauses (bounds, start needs a full price, exact deduction, coin audits per "
           "class and label, balance = pricing reference, a power cycle keeps or drops the balance); display strings, a start refused "
           "despite a full price, award / service / paid-game counters and float drift of audit sums are counted as observations"]
ASSUMPTIONS = ["prices and coin values are whole multiples of the computed credit unit (otherwise `_add_credit_units` refuses the "
               "coin by design: counted as outside); a tier never gives fewer credits than its price buys (no negative bonus); "
               "credit events give whole credits",
               "prices do not change at run time (no settings-driven price templates)"]

GAME = {"balls_per_game": 2, "max_players": 3}
SUITE_CONFIGS = [
    # mpf/tests/machine_files/credits/config/config.yaml (prices via settings defaults .5 / 2 -> 5 credits)
    {"coins": [25, 25, 100], "tiers": [[50, 1], [200, 5]], "max": 12},
    # config_credit_tiers.yaml
    {"coins": [25, 100], "tiers": [[50, 1], [200, 5], [500, 15]], "max": 30},
]


# ---------------------------------------------------------------------------------------------- configurations

def money(cents):
    f = Fraction(cents, 100)
    return str(f.numerator) if f.denominator == 1 else repr(float(f))


def gen_cfg(r):
    """up to three draws: configurations whose credit unit does not divide every value are outside the model (counted,
    not run), so most of the budget should go to the ones inside it"""
    for _ in range(3):
        cfg = gen_cfg_once(r)
        if ref_units(cfg)[2]:
            break
    return cfg


def gen_cfg_once(r):
    k = r.random()
    if k < 0.3:
        base = dict(r.choice(SUITE_CONFIGS))
        cfg = {"coins": list(base["coins"]), "tiers": [list(t) for t in base["tiers"]], "max": base["max"]}
        if r.random() < 0.5:
            cfg["max"] = r.choice([1, 2, 3, 5, 12])
    else:
        price = r.choice([25, 50, 50, 75, 100, 100, 200])
        coins = r.sample([25, 50, 100, 200], r.choice([0, 1, 1, 2, 2, 3]))
        tiers = []
        if r.random() < 0.85:
            tiers.append([price, 1])
            last = price
            for _ in range(r.choice([0, 0, 1, 1, 2])):
                tp = last + 25 * r.randint(1, 12)
                need = -(-tp // price)
                tiers.append([tp, need + r.choice([0, 0, 1, 1, 2, 3])])
                last = tp
            if len(tiers) > 1 and r.random() < 0.12:
                tiers.append([max(25, last - 25 * r.randint(1, 3)), r.randint(1, 4)])   # cheaper than predecessor: skipped
        cfg = {"coins": coins, "tiers": tiers, "max": r.choice([0, 1, 2, 3, 3, 5, 12])}
        if r.random() < 0.10:
            # decimal prices whose nearest double is not the number (0.1, 0.3, 0.35, 0.7 ...): nickels and dimes
            b = r.choice([5, 10, 10, 20])
            p = b * r.choice([1, 2, 3, 3, 6, 7, 7, 9])
            cfg["coins"] = sorted(set(b * r.choice([1, 1, 2, 3, 6]) for _ in range(r.choice([1, 1, 2]))))
            cfg["tiers"] = [[p, 1]]
            if r.random() < 0.5:
                cfg["tiers"].append([p * 3, 3 + r.choice([0, 1, 2])])
    cfg["frac"] = r.choice([0, 4, 16, 16])
    cfg["all"] = r.choice([0, 8, 64, 64])
    cfg["fp"] = r.random() < 0.15
    # which credit sources are configured at all: coin switches / service switch / credit events, in every combination
    cfg["svc"] = r.random() < 0.75
    cfg["evs"] = r.choice([[], [1], [1, 2], [1, 2], [2, 3]])
    shape = r.random()
    if shape < 0.07:        # event-only
        cfg["coins"], cfg["svc"], cfg["evs"] = [], False, r.choice([[1], [1, 2]])
    elif shape < 0.12:      # switch-only
        cfg["svc"], cfg["evs"] = False, []
        if not cfg["coins"]:
            cfg["coins"] = [r.choice([25, 50, 100])]
    elif shape < 0.16:      # service-only
        cfg["coins"], cfg["svc"], cfg["evs"] = [], True, []
    elif shape < 0.19:      # no credit source at all
        cfg["coins"], cfg["svc"], cfg["evs"] = [], False, []
    # audit class and label of every coin switch
    cfg["ctype"] = [r.choice(["money", "money", "token"]) for _ in cfg["coins"]]
    cfg["clabel"] = [r.choice([None, None, "left", "right"]) for _ in cfg["coins"]]
    cfg["persist"] = r.choice([0, 8, 64, 3600, 3600])
    cfg["inh"] = r.random() < 0.3
    return cfg


def norm_cfg(cfg):
    """defaults for the keys added later (replay files written by older versions of this check)"""
    cfg = dict(cfg)
    cfg.setdefault("svc", True)
    cfg.setdefault("evs", [1, 2])
    cfg.setdefault("ctype", ["money"] * len(cfg["coins"]))
    cfg.setdefault("clabel", [None] * len(cfg["coins"]))
    cfg.setdefault("persist", 3600)
    cfg.setdefault("inh", False)
    return cfg


def ref_units(cfg):
    """independent (Fraction) version of the unit rule: (unit, units per game, exact?)"""
    price = Fraction(cfg["tiers"][0][0], 100) if cfg["tiers"] else Fraction(1)
    m = min(Fraction(c, 100) for c in cfg["coins"]) if cfg["coins"] else price
    if m == price:
        unit = m
    elif m < price:
        unit = min(price - m, m)
    else:
        unit = min(m - price, price)
    vals = [price] + [Fraction(c, 100) for c in cfg["coins"]] + [Fraction(t[0], 100) for t in cfg["tiers"]]
    exact = unit > 0 and all((v / unit).denominator == 1 for v in vals)
    dyadic = all(v % Fraction(1, 4) == 0 for v in vals)
    return unit, (int(price / unit) if unit > 0 else 0), exact, dyadic


def ref_tiers(cfg, unit, upg):
    """accepted tiers [(units, bonus)] and the wrap-around, straight from the documentation's meaning"""
    if not cfg["tiers"]:
        return [], 1
    out, wrap = [], 0
    for p, cr in cfg["tiers"]:
        cu = Fraction(p, 100) / unit
        if wrap > cu:
            continue
        wrap = int(cu)
        out.append((int(cu), upg * cr - int(cu)))
    return out, wrap


def ref_cum(tiers, x):
    """total bonus for x units bought in one run: largest tier first"""
    b = 0
    for tu, tb in reversed(tiers):
        if tu > 0:
            b += (x // tu) * tb
            x %= tu
    return b


def build_config(cfg):
    L = ["modes:", "  - credits", "machine:", "  min_balls: 0", "game:",
         "  balls_per_game: %d" % GAME["balls_per_game"], "  max_players: %d" % GAME["max_players"], "switches:"]
    for i in range(len(cfg["coins"])):
        L += ["  s_c%d:" % i, "    number: %d" % (i + 1)]
    L += ["  s_esc:", "    number: 10", "  s_start:", "    number: 11", "    tags: start"]
    if cfg["inh"]:
        L += ["digital_outputs:", "  o_inh:", "    type: driver", "    number: 1"]
    L += ["credits:", "  max_credits: %d" % cfg["max"], "  free_play: %s" % ("yes" if cfg["fp"] else "no"),
          "  persist_credits_while_off_time: %ds" % cfg["persist"]]
    if cfg["svc"]:
        L.append("  service_credits_switch: s_esc")
    if cfg["inh"]:
        L.append("  coin_inhibit_disable_output: o_inh")
    if cfg["coins"]:
        L.append("  switches:")
        for i, c in enumerate(cfg["coins"]):
            L += ["    - switch: s_c%d" % i, "      type: %s" % cfg["ctype"][i], "      value: %s" % money(c)]
            if cfg["clabel"][i]:
                L.append("      label: %s" % cfg["clabel"][i])
    if cfg["evs"]:
        L.append("  events:")
        for j, k in enumerate(cfg["evs"]):
            L += ["    - event: award_%d" % j, "      type: award", "      credits: %d" % k]
    if cfg["tiers"]:
        L.append("  pricing_tiers:")
        for p, cr in cfg["tiers"]:
            L += ["    - price: %s" % money(p), "      credits: %d" % cr]
    L += ["  fractional_credit_expiration_time: %ds" % cfg["frac"], "  credit_expiration_time: %ds" % cfg["all"]]
    return "\n".join(L) + "\n"


def cfg_line(cfg):
    return "cfg 100 %d %d %d %d %d %d %d %d %d c:%s t:%s e:%s" % (
        cfg["max"], cfg["frac"], cfg["all"], GAME["balls_per_game"], GAME["max_players"], 1 if cfg["fp"] else 0,
        1 if cfg["svc"] else 0, cfg["persist"], 1 if cfg["inh"] else 0,
        ",".join(map(str, cfg["coins"])), ",".join("%d/%d" % (p, c) for p, c in cfg["tiers"]),
        ",".join(map(str, cfg["evs"])))


# ------------------------------------------------------------------------------------------------------ ops

def gen_ops(r, cfg):
    n = r.randint(5, 45)
    nc = len(cfg["coins"])
    if nc and r.random() < 0.08:
        # directed stream: play-mode switched in the middle of a game, the game ends in the other mode, next game paid
        big = max(range(nc), key=lambda i: cfg["coins"][i])
        pre = [["coin", big]] * r.randint(1, 4) + [["service"], ["service"], ["start"]] + [["drain"]] * r.randint(0, 2)
        pre += [[r.choice(["toggle", "fpon"])]] + [["drain"]] * r.randint(1, 3) + [[r.choice(["toggle", "fpoff"])], ["start"]]
        tail = []
        for _ in range(r.randint(3, 10)):
            tail.append(r.choice([["coin", big], ["coin", big], ["coin", r.randrange(nc)], ["drain"], ["start"]]))
        return pre + tail
    fill = r.random() < 0.3 and nc > 0         # stream that fills up to the cap
    big = max(range(nc), key=lambda i: cfg["coins"][i]) if nc else 0
    ops = []
    for _ in range(n):
        k = r.random()
        if fill and k < 0.6:
            ops.append(["coin", big if r.random() < 0.7 else r.randrange(nc)])
        elif k < 0.34:
            ops.append(["coin", r.randrange(nc)] if nc else ["service"])
        elif k < 0.50:
            ops.append(["start"])
        elif k < 0.62:
            ops.append(["drain"])
        elif k < 0.67:
            ops.append(["service"])
        elif k < 0.73:
            ops.append(["event", r.randrange(2)])
        elif k < 0.755:
            ops.append(["reboot", r.choice(OFF_TIMES)])
        elif k < 0.775 and nc:
            ops.append(["cointog", r.randrange(nc)])
        elif k < 0.82:
            ops.append(["adv", r.choice([1, 2, 3, 4, 7, 8, 14, 15, 16, 17, 62, 63, 64, 65])])
        elif k < 0.90:
            ops.append([r.choice(["fpon", "fpoff", "fpoff", "toggle", "toggle"])])
        elif k < 0.94:
            ops.append([r.choice(["reset", "slam"])])
        elif k < 0.98:
            ops.append(["endgame"])
        else:
            ops.append(["earnreset"])
    return ops


OFF_TIMES = [0, 1, 2, 5, 6, 7, 8, 9, 60, 62, 63, 64, 65, 3590, 3598, 3599, 3600, 3601, 5000]


def op_line(op):
    return " ".join(str(x) for x in op)


EVENTS_WATCHED = ("credits_added", "max_credits_reached", "not_enough_credits")


class Run:
    def __init__(self, cfg):
        self.cfg = cfg
        self.yaml = build_config(cfg)
        self.vm = VMachine(self.yaml)
        self.posted = {e: 0 for e in EVENTS_WATCHED}
        self.payloads = []          # non-empty keyword arguments seen on a watched event

    def start(self):
        self.vm.start()
        m = self.m = self.vm.machine
        m.playfield.add_ball = MagicMock()
        m.ball_controller.num_balls_known = 3
        self.c = m.modes["credits"]
        for e in EVENTS_WATCHED:
            m.events.add_handler(e, self._seen, priority=1, _ev=e)
        self.vm.align(1.0)
        return self

    def _seen(self, _ev, **kwargs):
        self.posted[_ev] += 1
        if kwargs:
            self.payloads.append((_ev, sorted(kwargs)))

    def reboot(self, off):
        """power cycle: what the machine-variable and earnings data managers last saved is what is on disk; the new
        machine's clock starts at 0 = the old clock at power-off + `off` seconds"""
        import copy
        m = self.m
        t_stop = self.vm.now()
        disk = copy.deepcopy(m.variables.machine_var_data_manager.data)
        for v in disk.values():
            if isinstance(v, dict) and v.get("expire"):
                v["expire"] = v["expire"] - t_stop - off
        earnings = copy.deepcopy(self.c.data_manager.data)
        self.vm.stop()
        for attempt in (0, 1):
            self.vm = VMachine(self.yaml, mock_data={"machine_vars": copy.deepcopy(disk), "earnings": copy.deepcopy(earnings)})
            try:
                self.start()
                break
            except BootError:
                # a boot that fails once and succeeds when repeated with the same data is the loaded host, not the code
                # under test (seen once in a thorough run with 6 workers; the replay passed): only a repeated failure counts
                if attempt == 1:
                    raise

    def stop(self):
        self.vm.stop()

    def act(self, op):
        """the request itself, then everything that is runnable without time passing; returns None or 'crash:<Exc>'"""
        m, vm = self.m, self.vm
        k = op[0]
        try:
            if k == "coin":
                vm.hit_switch("s_c%d" % op[1], 1)
                vm.hit_switch("s_c%d" % op[1], 0)
            elif k == "service":
                vm.hit_switch("s_esc", 1)
                vm.hit_switch("s_esc", 0)
            elif k == "start":
                vm.hit_switch("s_start", 1)
                vm.hit_switch("s_start", 0)
            elif k == "event":
                vm.post("award_%d" % op[1])
            elif k == "drain":
                if m.game is not None:
                    m.game.balls_in_play = 0
            elif k == "endgame":
                if m.game is not None:
                    m.game.end_game()
            elif k == "adv":
                pass
            elif k == "reboot":
                self.reboot(op[1])
            elif k == "cointog":
                # the toggle request is in the event queue when the coin drops
                vm.post("toggle_credit_play")
                vm.hit_switch("s_c%d" % op[1], 1)
                vm.hit_switch("s_c%d" % op[1], 0)
            else:
                vm.post({"fpon": "enable_free_play", "fpoff": "enable_credit_play", "toggle": "toggle_credit_play",
                         "reset": "credits_reset", "slam": "slam_tilt", "earnreset": "earnings_reset"}[k])
            for _ in range(8):      # the game-start / ball-end flows need a few loop iterations, no time
                self.vm.run()
            return None
        except CaseTimeout:
            raise
        except BaseException as e:
            return "crash:" + type(e).__name__

    def tick(self, op):
        try:
            self.vm.advance(op[1] if op[0] == "adv" else 1)
            return None
        except CaseTimeout:
            raise
        except BaseException as e:
            return "crash:" + type(e).__name__

    def units(self):
        return self.m.variables.get_machine_var("credit_units")

    def free_play(self):
        return bool(self.m.settings.get_setting_value("free_play"))

    def players(self):
        g = self.m.game
        return 0 if g is None else g.num_players

    def audits(self):
        """(coins, earnings, award credits, service credits, paid games), coins and earnings summed over the audit classes"""
        e = self.c.earnings
        return (sum(v for k, v in e.items() if k.startswith("1 Total Coins ")),
                sum(v for k, v in e.items() if k.startswith("2 Total Earnings ")), e.get("award Awards", 0),
                e.get("service_credit Awards", 0), e.get("3 Total Paid Games", 0))

    def inhibit(self):
        if not self.cfg["inh"]:
            return "-"
        return "1" if self.m.digital_outputs["o_inh"].hw_driver.state == "enabled" else "0"

    def obs(self):
        m, c = self.m, self.c
        g = m.game
        gs = "-" if g is None else "%d/%s/%s" % (g.num_players, g.player.number if g.player else "?",
                                                  g.player.ball if g.player else "?")
        now = self.vm.now()

        def due(name):
            d = c.delay.delays.get(name)
            if d is None:
                return "-"
            x = d[0].when() - now
            return str(int(x)) if x == int(x) else repr(x)
        a = self.audits()
        earn = Fraction(a[1]).limit_denominator(10 ** 6) * 100
        v, s = m.variables.get_machine_var("credits_value"), m.variables.get_machine_var("credits_string")
        return "u=%s t=%s r=%d fp=%d g=%s fd=%s ad=%s a=%s/%s/%s/%s/%s ev=%d/%d/%d ci=%s v=%s;%s" % (
            self.units() or 0, c.credit_units_for_pricing_tiers, 1 if c.reset_pricing_tier_count_this_game else 0,
            1 if self.free_play() else 0, gs, due("clear_fractional_credits"), due("clear_all_credits"),
            a[0], earn, a[2], a[3], a[4], self.posted["credits_added"], self.posted["max_credits_reached"],
            self.posted["not_enough_credits"], self.inhibit(), "-" if v is None else v, "-" if s is None else s)

    def calc(self):
        c = self.c
        unit = Fraction(c.credit_unit).limit_denominator(10 ** 6) * 100
        tab = c.pricing_table
        return "unit=%s upg=%s wrap=%s table=%s" % (unit, c.credit_units_per_game, c.pricing_tiers_wrap_around,
                                                   ",".join(str(tab.get(i, "?" if i else 0)) for i in range(c.pricing_tiers_wrap_around + 1)))


class Oracle:
    """the property's clauses, recomputed from the op history and the implementation's observable state"""

    def __init__(self, cfg):
        self.cfg = cfg
        self.unit, self.upg, _, _ = ref_units(cfg)
        self.tiers, self.wrap = ref_tiers(cfg, self.unit, self.upg)
        self.cap = cfg["max"] * self.upg
        self.aud = {}          # reference earnings audits, by key
        self.notes = {}        # observations that are not clauses of the property (counted, never failed on)
        self.balance = 0       # reference balance
        self.run_units = 0     # units bought since the tier count last restarted
        self.restarted_this_game = False   # the ball-2 restart happens once per game (games seen in credit play)
        self.bad = []

    def fail(self, sig, **detail):
        self.bad.append((sig, detail))

    def note(self, name):
        self.notes[name] = self.notes.get(name, 0) + 1

    def audit(self, key, v):
        self.aud[key] = self.aud.get(key, 0) + v

    def coin_accepted(self, i):
        v = Fraction(self.cfg["coins"][i], 100)
        cls, label = self.cfg["ctype"][i], self.cfg["clabel"][i]
        self.audit("1 Total Coins " + cls, 1)
        self.audit("2 Total Earnings " + cls, v)
        if label:
            self.audit(label + " Coins " + cls, 1)
            self.audit(label + " Earnings " + cls, v)

    def add(self, n, bonus):
        total = self.balance + n + bonus
        if self.cap and total > self.cap:
            total = self.cap
        self.balance = total

    def after_act(self, op, before, run, crashed):
        """before = (units, free_play, players, game_on, cur_player_ball) observed before the request"""
        u0, fp0, pl0, ball0 = before
        u1, pl1 = run.units() or 0, run.players()
        k = op[0]
        if crashed:
            self.fail(crashed + ":" + k, op=op)
            return
        if not isinstance(u1, int) or isinstance(u1, bool):
            self.fail("balance-not-int", op=op, units=repr(u1))
            return
        # ---- reference balance: what the pricing table yields for the money inserted
        if not fp0:
            if k in ("coin", "cointog"):
                v = Fraction(self.cfg["coins"][op[1]], 100)
                n = int(v / self.unit)
                x = self.run_units % self.wrap
                bonus = ((x + n) // self.wrap) * ref_cum(self.tiers, self.wrap) + ref_cum(self.tiers, (x + n) % self.wrap) \
                    - ref_cum(self.tiers, x)
                self.run_units = x + n
                self.add(n, bonus)
                self.coin_accepted(op[1])
            elif k == "service" and self.cfg["svc"]:
                self.add(self.upg, 0)
                self.audit("service_credit Awards", 1)
            elif k == "event" and op[1] < len(self.cfg["evs"]):
                self.add(self.cfg["evs"][op[1]] * self.upg, 0)
                self.audit("award Awards", self.cfg["evs"][op[1]])
        if k in ("reset", "slam"):
            self.balance = 0
            self.run_units = 0
        if k == "earnreset":
            self.aud = {}
        if k == "reboot":
            # the property has expirations, and a power cycle may be one: the balance survives or is gone, nothing else
            if u1 not in (u0, 0):
                self.fail("reboot-balance", op=op, units_before=u0, units_after=u1)
            self.note("reboot_kept" if u1 == u0 else "reboot_dropped")
            self.balance = u1
            self.run_units = 0
            self.restarted_this_game = False
        added = pl1 - pl0 if pl1 > pl0 else 0
        if k == "start" and not fp0 and u0 >= self.upg and not added and \
                (pl0 == 0 or (pl0 < GAME["max_players"] and ball0 is not None and ball0[1] <= 1)):
            # with a full price available the start button is not refused (no game yet, or a game on ball 1 with room):
            # more than the property states ("starts only when"), so an observation
            self.note("obs_start_refused_with_full_price")
        if added and not fp0:
            # ---- a game or an additional player starts only when a full price is available ...
            if u0 < self.upg:
                self.fail("start-without-full-price", op=op, units_before=u0, price_units=self.upg, players=[pl0, pl1])
            # ---- ... and deducts exactly that
            if u1 != u0 - self.upg * added or added != 1:
                self.fail("deduction-not-exact", op=op, units_before=u0, units_after=u1, price_units=self.upg,
                          players=[pl0, pl1])
            self.audit("3 Total Paid Games", added)
            self.balance -= self.upg * added
            if pl0 == 0:
                self.run_units = 0      # pricing tiers restart with the game
                self.restarted_this_game = False
        self.bounds(op, u1)
        self.display(op, run)
        if u1 != self.balance:
            self.fail("balance-mismatch", op=op, units=u1, reference=self.balance, units_before=u0)
            self.balance = u1
        self.check_audits(op, run)

    def check_audits(self, op, run):
        """the earnings audits equal the coins accepted: per audit class and per labelled switch (count and value); the
        award / service-credit / paid-game counters are not in the property's text: compared, counted, not failed on"""
        e = run.c.earnings
        real = {}
        for key, v in e.items():
            if key[:2] in ("4 ", "5 ", "6 "):
                continue
            if isinstance(v, float):
                f = Fraction(v).limit_denominator(10 ** 6)
                if float(f) != v:
                    self.note("obs_audit_float_drift")
                v = f
            real[key] = v
        want = {k: v for k, v in self.aud.items() if v}
        real = {k: v for k, v in real.items() if v}
        if real != want:
            other = ("service_credit Awards", "award Awards", "3 Total Paid Games")
            coin_keys = [k for k in set(real) | set(want) if k not in other and real.get(k) != want.get(k)]
            if coin_keys:
                self.fail("audit-mismatch", op=op, audits={k: str(real.get(k)) for k in coin_keys},
                          reference={k: str(want.get(k)) for k in coin_keys})
            else:
                self.note("obs_audit_other_mismatch")
            self.aud = dict(real)

    def display(self, op, run):
        """the credits_string / credits_value machine variables show the balance (whole credits and the fraction)"""
        m = run.m
        s, v = m.variables.get_machine_var("credits_string"), m.variables.get_machine_var("credits_value")
        if run.free_play():
            want_s, want_v = "FREE PLAY", v
        else:
            u = run.units() or 0
            whole, num = divmod(u, self.upg)
            want_v = ("%d %d/%d" % (whole, num, self.upg) if whole else "%d/%d" % (num, self.upg)) if num else str(whole)
            want_s = "CREDITS " + want_v
        if (s, v) != (want_s, want_v):
            self.note("obs_display_mismatch")       # the display variables are not in the property's text

    def ball2(self):
        """ball 2 of player 1 starts while the machine is in credit play: the tier count restarts, once per game"""
        if not self.restarted_this_game:
            self.run_units = 0
            self.restarted_this_game = True

    def game_over(self, fp):
        if not fp:
            self.restarted_this_game = False

    def bounds(self, op, u):
        if u < 0:
            self.fail("bounds:negative", op=op, units=u)
        if self.cap and u > self.cap:
            self.fail("bounds:over-max", op=op, units=u, max_units=self.cap)

    def after_tick(self, op, run, crashed, ball_before, ball_after, u_mid, frac_fired, all_fired, fp):
        if crashed:
            self.fail(crashed + ":tick", op=op)
            return
        u = run.units() or 0
        if not isinstance(u, int):
            self.fail("balance-not-int", op=op, units=repr(u))
            return
        self.bounds(op, u)
        self.display(op, run)
        # time passing can only expire credits: the fraction of a credit, or all of them, exactly when their time is up
        expected = u_mid
        if frac_fired:
            expected -= expected % self.upg
        if all_fired:
            expected = 0
            self.run_units = 0
        if u != expected:
            self.fail("balance-mismatch", op=op, units=u, reference=expected, units_before_time_passed=u_mid,
                      fractional_expired=frac_fired, all_expired=all_fired)
        self.balance = u
        # ball 2 of player 1 starts: the tier count restarts (observed through the game state)
        if ball_after == (1, 2) and ball_before != (1, 2) and not fp:
            self.ball2()


def ball_of(run):
    g = run.m.game
    if g is None or not g.player:
        return None
    return (g.player.number, g.player.ball)


def execute(cfg, ops, model):
    """one case under a wall-clock watchdog: a case can fail, it can never hang"""
    try:
        with watchdog(30):
            return execute_unguarded(cfg, ops, model)
    except CaseTimeout as e:
        if model is not None:
            model.p.kill()
        return [("hang", {"error": str(e), "ops": len(ops)})], [], {"accepted_coins": 0, "starts": 0, "added": 0,
                                                                   "capped": 0, "expired": 0, "hangs": 1}


def execute_unguarded(cfg, ops, model):
    """-> (oracle failures [(sig, detail)], comparisons [(what, impl, model)], stats)"""
    cfg = norm_cfg(cfg)
    run = Run(cfg)
    run.start()
    comps, stats = [], {"accepted_coins": 0, "starts": 0, "added": 0, "capped": 0, "expired": 0}
    orc = None
    try:
        orc = Oracle(cfg)
        ans = ""
        if model is not None:
            ans = model.ask(cfg_line(cfg))
            comps.append(("cfg-state", run.obs(), "u=" + ans.split(" u=", 1)[-1]))
        calc_checked = False
        for op in ops:
            if model is not None and not calc_checked and not run.free_play():
                calc_checked = True     # unit / units per game / pricing table as calculated by the implementation
                comps.append(("calc", "ok wf=1 " + run.calc(), ans.split(" u=", 1)[0]))
            ball0 = ball_of(run)
            before = (run.units() or 0, run.free_play(), run.players(), ball0)
            cr = run.act(op)
            if cr is None and ball_of(run) != ball0 and ball_of(run) == (1, 2) and not before[1]:
                orc.ball2()           # ball 2 of player 1 started inside the request
            if cr is None and before[2] > 0 and run.players() == 0:
                orc.game_over(before[1])
            orc.after_act(op, before, run, cr)
            if cr:
                break
            if op[0] in ("coin", "cointog") and not before[1]:
                stats["accepted_coins"] += 1
                if orc.cap and (run.units() or 0) == orc.cap:
                    stats["capped"] += 1
            if op[0] == "start":
                stats["starts"] += 1
                stats["added"] += max(0, run.players() - before[2])
            u_mid = run.units() or 0
            ball1 = ball_of(run)
            d = run.c.delay.delays.get("clear_all_credits")
            df = run.c.delay.delays.get("clear_fractional_credits")
            fp_mid = run.free_play()
            cr = run.tick(op)
            all_fired = d is not None and d[0].when() <= run.vm.now()
            frac_fired = df is not None and df[0].when() <= run.vm.now()
            if cr is None and ball1 is not None and run.players() == 0:
                orc.game_over(fp_mid)
            orc.after_tick(op, run, cr, ball1, ball_of(run), u_mid, frac_fired, all_fired, fp_mid)
            if cr:
                break
            if (run.units() or 0) < u_mid:
                stats["expired"] += 1
            if model is not None:
                comps.append((op_line(op), run.obs(), model.ask(op_line(op))))
        if run.payloads:
            stats["obs_event_payload"] = len(run.payloads)
        return orc.bad, comps, stats
    finally:
        if orc is not None:
            for k, v in orc.notes.items():
                stats[k] = stats.get(k, 0) + v
        run.stop()


def run_case(ctx, cfg, ops, model, sample=True):
    case = {"cfg": cfg, "ops": ops}
    unit, upg, exact, dyadic = ref_units(cfg)
    if not exact:
        # the credit unit does not divide every value: `_add_credit_units` refuses such a coin ("need to be ints")
        ctx.count("outside_model_inexact_units")
        ctx.evaluated(case, False, sample=False)
        return
    if not dyadic:
        ctx.count("float_inexact_values")     # 0.1 / 0.3 / 0.35 ...: exact in the model and the oracle, floats in mpf
    for key in ("svc", "inh"):
        if cfg.get(key):
            ctx.count("cfg_" + key)
    ctx.count("cfg_sources_%s%s%s" % ("c" if cfg["coins"] else "-", "s" if cfg.get("svc") else "-", "e" if cfg.get("evs") else "-"))
    try:
        bad, comps, stats = execute(cfg, ops, model)
    except BootError as e:
        # the generated configurations are valid: a machine that does not boot is a crash of the code under test
        ctx.count("boot_failed")
        ctx.evaluated(case, False, sample=False)
        if not any(f["signature"] == "crash:boot" for f in ctx.failures):
            ctx.fail("crash:boot", case, {"error": str(e)[:300]})
        return
    for o in ops:
        ctx.count("op_" + o[0])
    for k, v in stats.items():
        ctx.count(k, v)
    ctx.evaluated(case, stats["accepted_coins"] > 0 and stats["starts"] > 0, sample=sample)
    if any(c[0] == "calc" and c[2].startswith("ok wf=0") for c in comps):
        ctx.count("outside_model_not_wf")
        return
    for what, impl, mod in comps:
        ctx.compare(dict(case, at=what), impl, mod)
    if bad:
        sig = bad[0][0]
        if any(f["signature"] == sig for f in ctx.failures):
            ctx.count("further_failing_cases")      # one shrunk witness per signature is enough
            return

        def fails(sub):
            try:
                b, _, _ = execute(cfg, sub, None)
            except BootError:
                return False
            return any(s == sig for s, _ in b)
        small = ops if sig == "hang" else ddmin(ops, fails, max_tests=120)
        try:
            b2, _, _ = execute(cfg, small, None)
        except BootError:
            b2 = []
        hit = [d for s, d in b2 if s == sig]
        if hit:
            ctx.fail(sig, {"cfg": cfg, "ops": small}, hit[0])
        else:
            ctx.fail(sig, case, bad[0][1])


def run_range(ctx, lo, hi):
    model = None if getattr(ctx, "model_unavailable", False) else leanproc.LeanProc(ID)
    try:
        for i in range(lo, hi):
            r = ctx.rng("case", i)
            cfg = gen_cfg(r)
            run_case(ctx, cfg, gen_ops(r, cfg), model)
            if i % 25 == 24:
                gc.collect()        # stopped machines are cyclic garbage
            if len(ctx.failures) >= 3 or ctx.hist.get("further_failing_cases", 0) >= 20 or ctx.hist.get("hangs"):
                break       # the verdict is settled; do not burn the budget on more witnesses
    finally:
        if model is not None:
            model.close()


def run(ctx):
    import os
    total = ctx.n(500, 9000)
    if total <= 1000:
        run_range(ctx, 0, total)
    else:       # thorough tier / failing-input search: fresh worker processes, 300 cases each
        from harness.common import pool_c20c11
        pool_c20c11.run_parallel(ctx, "harness.corr." + ID, total, workers=int(os.environ.get("VERIF_WORKERS", "8")))


def replay(ctx, rep):
    c = rep["case"]
    bad, _, _ = execute(c["cfg"], c["ops"], None)
    for sig, detail in bad[:1]:
        ctx.fail(sig, c, detail)
