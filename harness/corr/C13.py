"""C13 - Delays and periodic timers fire exactly when promised, or never.

Implementation side: a real machine (VMachine, virtual time on the 1/8 s grid); the real DelayManager (a fresh one, the
machine-wide one, or a real mode's `mode.delay`), the real ClockBase.schedule_interval/PeriodicTask and real Timer
devices in a mode.  Callbacks are harness functions that log their invocation (time, kwargs) and then issue the
commands of a generated *program* on the same manager (re-add, remove, run_now, ... from inside a callback).
Model side: MpfVerif.Model.Delay via drv_c13.  Which of several same-instant timers runs first is decided by asyncio and
fed to the model (`fire name` / `pfire pid`), which answers not-enabled if that timer could not run then.
Oracle (model independent): a reference map name -> (due, cb, arg) maintained from the log of issued calls; every
callback invocation must be the pending one at exactly its due tick with the stored arguments, nothing pending may be
overdue, check() must equal membership, run_now must call synchronously with the stored arguments; periodic ticks must be
at t0 + k*interval, none after cancel; timer devices: ticks only while running, exactly tick_interval apart, complete
exactly when the count reaches the end value; a stopped mode's delays never fire (a callback the loop runs while
`mode.active` is False is a failure; the mode's stop with a handler holding the `mode_<n>_stopping` queue for any time).
"""
import json
import os
from functools import partial

from harness.common import leanproc, mpfleak
from harness.common.shrink import ddmin
from harness.common.util import InfraError
from harness.common.vmachine import VMachine, BootError

ID = "C13"
LEAN_MODULES = ["MpfVerif.Props.C13"]
PROPS_FILE = "MpfVerif/Props/C13.lean"


def _gen_delay_ops():
    from translate import delays_gen
    return delays_gen.generate()


def _gen_clock_ops():
    from translate import clock_gen
    return clock_gen.generate()


GEN = [_gen_delay_ops, _gen_clock_ops]
MANIFEST = {
  "text": "Proof on a Lean model of DelayManager (dict of named delays + the set of live loop handles, kept separately) and PeriodicTask, with callbacks as arbitrary programs that re-add/remove/run_now/clear on the same manager (also their own name), start/cancel/replace periodic tasks, RAISE (KeyError or anything else) and BLOCK the loop for any time, and the event loop's choice among due timers left open. The model's commands are tied to the source by translation: mpf/core/delays.py add / remove / add_if_doesnt_exist / check / reset / clear / run_now / _process_delay_callback are regenerated on every run as data for a fixed interpreter (self.delays as interpreter state, clock.schedule_once/unschedule, uuid4 and the callback call as logged effects) and delay_ops_refine_source proves that folding the calls of the TRANSLATED method gives exactly the hand model's step (same dict, same live handles and due times, same handles scheduled/cancelled in order, same callbacks called with the same kwargs) for every name, callback, kwargs and every ms that is an int or a float of any sign (a negative delay is due at once), named or anonymous (uuid4); run_now swallows exactly KeyError, _process_delay_callback passes every exception on after dropping the entry. Proved for every program table and every sequence of calls, time steps and timer firings: a handle never fires before its due tick, fires at exactly that tick when nothing blocked the loop and late by at most the time the loop has been blocked since it was last idle (the loop cannot sleep past anything due; a late delivery shifts no other deadline), with the callback and argument it was scheduled with, at most once, never after it was cancelled (remove, replace under the same name, clear, run_now); every scheduled handle is fired, cancelled or still pending; the dict and the live handles stay coupled (check() truthful, run_now calls the stored callback with the stored argument and cancels the handle); the n-th tick of a periodic task (any interval incl. 0) is never before t0 + n*interval, exactly there when nothing blocked the loop, the next tick is always due at t0 + (count+1)*interval whatever the lateness (no drift, missed ticks delivered back to back, the loop cannot sleep before the count caught up), no tick after cancel. The periodic part is tied to the source by translation as well: mpf/core/clock.py PeriodicTask.__init__ / _schedule / _run / cancel / get_next_call_time and ClockBase.schedule_once / schedule_interval / unschedule are regenerated on every run (the task's attributes as interpreter state; loop.time, loop.call_at, loop.call_later, callable, event.cancel and the call of the stored callback as logged effects; a callback may change the task it belongs to) and periodic_refines_source proves that they do what the hand model's pstart / pcancel / pfire do: _last_call moves on by exactly one interval without loop.time() being asked, exactly one next run is requested at the new _last_call + _interval iff the task is not cancelled after its callback, a cancelled handle is silent. Mode.stop() -> delay.clear() and the release of the mode_<name>_stopping queue (_stopped / _finish_stop -> delay.clear()) are mode-level operations of the model (MOp): never_after_mode_stop proves over all histories before the stop, while a handler HOLDS the stopping queue for any time (adds, firings, time, further stops) and after the release that no delay pending at stop() and no delay still pending at the release ever fires, and that the manager is empty after both. A second Lean model covers the Timer device (running, count, tick interval, system timer, pending timed pause; start/stop/pause/add/subtract/jump/reset/restart/set_ and change_tick_interval, max_value, both directions incl. a start value already past the end value, restart_on_complete, clock runs, pause end, STALLS of the loop of any length and the removal of the device when its mode stops): tick only by a running timer not at its end value; the system timer never runs before its due instant t0 + (runs+1)*interval, late by at most the time the loop has been blocked since it was last idle (exactly there without stalls), each run moves the schedule on by one interval whatever its lateness, missed ticks are delivered back to back and the loop cannot go idle before they are (PeriodicTask catch-up); complete exactly when a count change reaches the end value (lateness never changes the count); a timed pause resumes exactly once, late only by the blocked time; after the mode stopped the timer (its own delay manager's pause end, its system timer) is silent for ever. All models are tied to delays.py/clock.py/timer.py/mode.py by correspondence runs on real machines every check (fresh, machine-wide and mode-owned DelayManager incl. held stopping queues, real PeriodicTask, real Timer in a mode driven through control events, stalled loops, mode stop with a pause pending).",
  "note": "Trusted: Lean kernel + {propext, Quot.sound, Classical.choice}; translate/py2effd.py (Python ast -> DSt/DTop data; rejects a dict access after a callback call, so running a called callback after the method - the model's flattened agenda - is the same as inside) and the interpreter Model/PyEffD.lean (~200 lines, on top of PyEff/PyExec) giving that data Python's meaning; Model/DelayGen.lean applyEff (what clock.schedule_once/unschedule mean for the loop's handles: unschedule of a dead handle is a no-op, a negative timeout is due now); the refinement assumes the invariant Inv (proved for all reachable states), a clock that does not raise and returns the next handle; asyncio's timer heap and mpf.tests TimeTravelLoop made monotonic by the harness (its clock would otherwise run backwards for a timer in the past); time cannot pass a due live handle except while a callback blocks (built into the model's `to` / `block` steps); times on a 1/8 s grid (floats exact; float ms only whole ticks). translate/clock_gen.py (attributes of self as the interpreter's dict, hoisted attribute reads, callable() and the stored callback as effects; constant parameter defaults and `if debug: log` dropped) and Model/ClockGen.lean execCb (a top-level callback call may change the object's attributes: k arbitrary; = the plain interpreter for k = id, proved); periodic_refines_source assumes a loop whose calls do not raise and whose time() is the model's now; the asyncio side of call_at/call_later (a handle runs once, not before `when`) stays modelled, not verified. The order `queue released -> Mode._stopped -> due timers of the same loop iteration -> _finish_stop` is taken from the implementation (the oracle only demands that nothing of the mode fires while mode.active is False). Timer operations are issued through control events listed with the value-less actions first. Ball saves and other devices with their own delay managers are not modelled (C07 drives them).",
  "technique": "translator (Python ast -> deep-embedded Lean programs with dict state, try/except, effects that may raise) + refinement proof hand model = translated source, re-checked against the current source; Lean 4 invariants over all op sequences/schedules/lateness (induction over the op list, fuel-bounded agenda with exception unwinding for callback programs) on two hand models (delays/periodic tasks/mode stop, Timer device with stalls) + differential correspondence with the real DelayManager/PeriodicTask/Timer/Mode + executable oracles (lateness only while blocked, timeline reference for timers, nothing fires for an inactive mode)",
  "translated": True,
}
RULE = ("cases: (a) 6-30 ops over 4 names (+ anonymous uuid names), 4 callbacks with generated programs of 0-3 commands "
        "(add/add_if/reset/remove/clear/run_now/check/pcancel, biased to the callback's own name; raise KeyError/other; block the "
        "loop 1-5 ticks; prestart = cancel a running periodic task and start a new one from inside a tick), delays from "
        "{-2,-1,0,0,1,1,2,2,3,4,8} ticks at top level (zero/negative inside programs only towards a lower callback index), 15% passed "
        "as float, advances from {0,1,1,1,2,3,5} ticks, top-level blocks, up to 2 periodic tasks (interval 1-3 ticks; 12% of the "
        "cases an interval-0 task whose callback cancels it) - on a fresh, the machine-wide or a mode-owned DelayManager, the mode "
        "stream with one mode stop whose mode_<n>_stopping handler issues commands and in 60% of the mode cases HOLDS the queue for "
        "2-6 further ops (calls, advances, firings, blocks) before it is released; (b) Timer devices (up/down, end/max value, "
        "start value inside or already past the end value, restart_on_complete, tick interval 1-3 ticks) driven by 5-25 control "
        "calls incl. set/change_tick_interval (x2, x3), 25% of the cases with loop stalls of 1-5 ticks (late ticks and pause ends, compared with the model), 25% with "
        "the owning mode stopping (also inside a timed pause, also stalled) followed by time only. non-trivial = at least one "
        "timer firing and at least one cancel/replace/run_now or a command issued from inside a callback (timer stream: at least "
        "one tick and one control call after start); distinct = canonical JSON")
TRUSTED = [
    "modelled, not verified: asyncio timer heap / TimeTravelLoop (made monotonic by the harness; a due live handle runs before the "
    "loop sleeps past it; same-instant order taken from the implementation and validated by the model), functools.partial, dict "
    "insertion order, uuid4 freshness",
    "translate/py2effd.py + Model/PyEffD.lean (Python subset with one dict attribute, try/except, raising effects) and "
    "Model/DelayGen.lean applyEff; Model/Delay.lean's DelayManager commands are PROVED equal to the translated delays.py "
    "(delay_ops_refine_source); translate/clock_gen.py + Model/ClockGen.lean execCb: the periodic part is PROVED equal to the "
    "translated clock.py (periodic_refines_source); both also tied by correspondence on every run",
    "Model/TimerDevice.lean is hand-written; tied to mpf/devices/timer.py by correspondence on every run (and an independent "
    "Python reference trace); Mode.stop()/_finish_stop are `clear`s at mode-level operations of the model (the order of "
    "_stopped, due timers and _finish_stop inside one loop iteration is the implementation's)",
]
ASSUMPTIONS = ["delays and intervals are multiples of 125 ms (any sign; float ms only whole ticks); ms is an int or a float (not NaN)",
               "a callback's exception that reaches the event loop stops the machine (MpfTestCase scaffolding and mpf's own handler): "
               "the case ends at that instant",
               "timer: with restart_on_complete the (clipped) start value is not itself at/past the end value (otherwise the real code "
               "recurses for ever; the model answers `diverge`); tick-interval changes by integer factors",
               "timer operations arrive as control events with template values, value-less actions (start/stop/reset/restart) "
               "listed before value actions: outside C13's statement but wrong in the code - a value-less action listed after a "
               "value action inherits its timer_value and reset/restart crash (repair on branch verif-C13C03b, then run with "
               "VERIF_C13_CE_SHUFFLE=1); a direct Timer.pause(<number>) takes the number as ms although documented as seconds",
               "callback programs are cut after 48 commands per loop callback (model and harness alike)"]

TICK = 0.125
FUEL = 48
CONFIG = "switches:\n  s1:\n    number: 1\n"
MODE_CONFIG = "modes:\n  - m1\n"
MODE_YAML = "mode:\n  start_events: start_m1\n  stop_events: stop_m1\n  game_mode: false\n  priority: 100\n"


def first_of(ctx, sig):
    """shrink only the first failure of a signature (ddmin re-runs the real code up to 150 times)"""
    seen = ctx.notes.setdefault("shrunk_signatures", [])
    if sig in seen:
        return False
    seen.append(sig)
    return True


# ---------------------------------------------------------------------------------------------------- generator

class CbError(Exception):
    """what a generated callback raises with `raise 1` (anything that is not a KeyError)"""


def gen_cmd(r, in_prog, anon, own=None, opts=None):
    """own: index of the callback whose program is being generated (None at top level)"""
    opts = opts or {}
    k = r.random()
    name = r.choice([0, 0, 1, 1, 2, 3])
    if own is not None and r.random() < 0.35:
        name = own          # a callback that removes / re-adds / runs its own name (callbacks are mostly added under their index)
    cb = r.randrange(4)
    if not in_prog and r.random() < 0.5:
        cb = name
    # a zero or negative delay re-added from its own callback would spin the loop for ever at one instant (real code and
    # model): inside a program they are only used with a callback of strictly lower index, so every such chain ends
    ms = r.choice([1, 1, 2, 2, 3, 4]) if in_prog else r.choice([0, 0, -1, -2, 1, 1, 2, 2, 3, 4, 8])
    if in_prog and own is not None and own > 0 and r.random() < 0.2:
        ms, cb = r.choice([0, 0, -1, -3]), r.randrange(own)
    flt = [1] if r.random() < 0.15 else []      # sixth element: pass `ms` as a float (same instant: the grid stays exact)
    arg = r.choice([0, 1, -1, 7, -13, r.randint(-99, 99)])
    if in_prog or r.random() < 0.5:
        x = r.random()
        if x < 0.07:
            return ["block", r.choice([1, 1, 2, 3, 5])]
        if own is not None and x < 0.12:
            return ["raise", r.choice([0, 0, 1])]
        if own is not None and x < 0.16 and opts.get("prestart", True):
            return ["prestart", r.randrange(3), r.choice([1, 2, 2, 3]), r.randrange(4)]
    if k < 0.30:
        if not in_prog and r.random() < 0.12:
            anon[0] += 1
            name = 100 + anon[0]
        return ["add", ms, name, cb, arg] + flt
    if k < 0.40:
        return ["addif", ms, name, cb, arg] + flt
    if k < 0.55:
        return ["reset", ms, name, cb, arg] + flt
    if k < 0.68:
        return ["rm", r.choice([name, name, 100 + anon[0]]) if anon[0] else name]
    if k < 0.72:
        return ["clear"]
    if k < 0.84:
        return ["runnow", r.choice([name, name, name, 100 + anon[0]]) if anon[0] else name]
    if k < 0.95 or in_prog:
        return ["check", name]
    return ["pcancel", r.randrange(2)]


def gen_delay_case(r, kind):
    anon = [0]
    progs = {}
    # an interval-0 periodic task runs in every loop iteration until it is cancelled: it is the first task of the case
    # (pid 0) and its callback's program starts by cancelling pid 0; pids must then be static: no prestart in programs
    zero_iv = kind != "mode" and r.random() < 0.12
    zero_cb = r.randrange(1, 4)
    opts = {"prestart": not zero_iv}
    for k in range(4):
        n = r.choice([0, 0, 1, 1, 2, 3]) if k else r.choice([0, 0, 0, 1])
        prog = []
        for _ in range(n):
            c = gen_cmd(r, True, anon, own=k, opts=opts)
            if r.random() < 0.15:
                c = ["pcancel", r.randrange(2)]
            prog.append(c)
        if zero_iv and k == zero_cb:
            prog = [["pcancel", 0]] + prog[:2]
        progs[str(k)] = prog
    if any(c[0] == "runnow" for prog in progs.values() for c in prog):
        # run_now calls callbacks of any index synchronously: with it a chain of zero delays need not end (the loop would
        # spin at one instant for ever, in the real code and in the model): zero/negative delays from programs only without it
        for prog in progs.values():
            for c in prog:
                if c[0] in ("add", "addif", "reset") and c[1] <= 0:
                    c[1] = 1
    ops = []
    npers = 0
    stopped = False
    holding = 0          # > 0: a handler holds the mode_m1_stopping queue for that many more ops
    hold_mode = kind == "mode" and r.random() < 0.6
    for _ in range(r.randint(6, 30)):
        k = r.random()
        if holding:
            holding -= 1
            if holding == 0:
                ops.append(["mrelease"])
                stopped = True
                continue
        if k < 0.36:
            ops.append(["adv", r.choice([0, 1, 1, 1, 2, 3, 5])])
        elif k < 0.42 and npers < 2 and kind != "mode":
            npers += 1
            if zero_iv and npers == 1:
                ops.append(["cmd", ["pstart", 0, zero_cb]])
            else:
                ops.append(["cmd", ["pstart", r.choice([1, 2, 2, 3]), r.randrange(4)]])
        elif kind == "mode" and not stopped and not holding and k < 0.47 and len(ops) > 3:
            prog = [gen_cmd(r, True, anon) for _ in range(r.choice([0, 1, 1, 2]))]
            if hold_mode:
                # Mode.stop() with a handler that holds the mode_m1_stopping queue: the following ops (calls on the mode's
                # manager, time, firings) happen while the mode is stopping; `mrelease` lets _stopped/_finish_stop run
                ops.append(["mhold", prog])
                holding = r.choice([2, 3, 4, 6])
            else:
                stopped = True
                ops.append(["mstop", prog])
        elif not stopped:
            ops.append(["cmd", gen_cmd(r, False, anon)])
        else:
            ops.append(["adv", r.choice([1, 1, 2, 3])])
    if holding:
        ops.append(["mrelease"])
        ops.append(["adv", 3])
    elif kind == "mode" and not stopped:
        ops.append(["mstop", [gen_cmd(r, True, anon) for _ in range(r.choice([0, 1, 1, 2]))]])
        ops.append(["adv", 3])
    ops.append(["adv", r.choice([1, 2, 9])])
    return {"kind": kind, "progs": progs, "ops": ops}


# ---------------------------------------------------------------------------------------------------- real code

def make_monotonic(loop):
    """The repo's TimeTravelLoop sets the clock to the closest timer even when that lies in the past (a negative delay, or
    a callback that took time), i.e. time would run backwards.  A real loop's clock is monotonic and runs such a timer in its
    next iteration: give the test loop that behaviour (same patch as the seeded-change demo uses)."""
    from mpf.tests.loop import NextTimers

    class MonoTimers(NextTimers):
        __slots__ = ["loop"]

        def pop_closest(self):
            return max(super().pop_closest(), self.loop._time)

    old = loop._timers
    new = MonoTimers()
    new._timers_set, new._timers_heap, new.loop = old._timers_set, old._timers_heap, loop
    loop._timers = new


class DelayRun:
    """Runs one case on a real machine.  Produces `groups` (one per top-level call or loop callback, with the
    observation tokens the model prints for it) and `log` (flat event log for the oracle)."""

    def __init__(self, case):
        self.case = case
        self.kind = case["kind"]
        self.progs = {int(k): v for k, v in case["progs"].items()}
        self.groups = []
        self.log = []
        self.names = {}
        self.tasks = []
        self.task_n = []
        self.steps = 0
        self.exhausted = False
        self.sync = False
        self.crash = None
        self.vm = None
        self.finished = False
        self.calls = 0
        self.unwinding = False
        self.dead = False
        self.rcalls = 0
        self.loop_escaped = False
        self.neg = {}

    # time ----------------------------------------------------------------------------------------------
    def tick(self):
        x = (self.vm.now() - self.t0) / TICK
        return int(x) if x == int(x) else round(x, 6)

    def nm(self, n):
        return self.names.get(n, "n%d" % n)

    # groups --------------------------------------------------------------------------------------------
    def group(self, head):
        self.cur = {"head": head, "t": self.tick(), "obs": []}
        self.groups.append(self.cur)
        self.steps = 0
        self.exhausted = False

    def obs(self, tok):
        self.cur["obs"].append(tok)

    # callbacks -----------------------------------------------------------------------------------------
    def make_cb(self, k):
        def cb(**kw):
            if self.finished:       # machine teardown advances the clock; not part of the case
                return
            self.watchdog()
            how = "R" if self.sync else "F"
            self.sync = False
            if how == "R":
                self.rcalls += 1
            tag, arg, t = kw.get("tag"), kw.get("arg"), self.tick()
            if how == "F":
                self.group(["fire", tag])
                if self.kind == "mode" and not self.mode.active:
                    # the property's words: the owning mode stopped first (Mode._stopped has run), and the delay fires
                    self.log.append(("fired-inactive", tag, t))
            self.log.append(("call", how, k, tag, arg, t))
            self.obs("%s %s %s %s %s" % (how, tag, k, arg, t))
            if how == "F":
                self.run_prog_from_loop(k)
            else:
                self.run_prog(k)
        cb.__name__ = "cb%d" % k
        return cb

    def watchdog(self):
        """a runaway loop at one instant (virtual time never advances) must end the case, not hang the check"""
        self.calls += 1
        if self.calls > 4000:
            self.finished = True
            raise RuntimeError("runaway: more than 4000 callbacks in one case")

    def ptick(self, pid):
        if self.finished:
            return
        self.watchdog()
        self.task_n[pid] += 1
        t = self.tick()
        self.group(["pfire", pid])
        self.log.append(("tick", pid, self.task_n[pid], t))
        self.obs("T %s %s %s" % (pid, self.task_n[pid], t))
        self.run_prog_from_loop(self.task_cb[pid])

    def run_prog_from_loop(self, k):
        """the program of a callback the loop called: an exception that leaves it reaches the loop (the loop goes on with
        the other handles of this iteration, then the machine stops)"""
        g = self.cur
        try:
            self.run_prog(k)
        except (CbError, KeyError) as e:
            if e.args == ("c13",):
                self.unwinding = False
                g["obs"].append("U")
                self.log.append(("escaped", g["head"][0], self.tick()))
                self.loop_escaped = True
            raise

    def run_prog(self, k):
        for c in self.progs.get(k, []):
            self.do_cmd(c)

    def marker(self):
        """the model's `endTry` marker at the end of a run_now whose callback returned: one step of the budget"""
        if self.exhausted:
            return
        if self.steps >= FUEL:
            self.exhausted = True
            self.obs("X")
            return
        self.steps += 1

    def do_cmd(self, c):
        if self.exhausted:
            return
        if self.steps >= FUEL:
            self.exhausted = True
            self.obs("X")
            return
        self.steps += 1
        dm, t = self.dm, self.tick()
        op = c[0]
        if op == "block":
            # the running callback (or an unrelated one) takes time: the clock advances, the loop does not run
            self.vm.tc.loop.advance_time(c[1] * TICK)
            self.log.append(("block", t, self.tick()))
            self.obs("B %d" % c[1])
        elif op == "raise":
            self.obs("E %d" % c[1])
            self.log.append(("raise", c[1], t))
            self.unwinding = c[1] == 0
            raise (KeyError("c13") if c[1] == 0 else CbError("c13"))
        elif op == "prestart":
            _, pid, iv, cb = c
            if pid < len(self.tasks) and not self.tasks[pid]._canceled:
                self.log.append(("pcancel", pid, t))
                self.vm.machine.clock.unschedule(self.tasks[pid])
                new = len(self.tasks)
                self.task_n.append(0)
                self.task_cb.append(cb)
                self.log.append(("pstart", new, iv, t))
                self.tasks.append(self.vm.machine.clock.schedule_interval(partial(self.ptick, new), iv * TICK))
        elif op in ("add", "addif", "reset"):
            _, ms, name, cb, arg = c[:5]
            self.log.append(("issue", c, t))
            f = self.cbs[cb]
            msv = float(ms * 125) if len(c) > 5 else ms * 125
            if op == "add":
                if name >= 100 and name not in self.names:
                    self.names[name] = dm.add(msv, f, tag=name, arg=arg)
                else:
                    dm.add(msv, f, self.nm(name), tag=name, arg=arg)
            elif op == "addif":
                dm.add_if_doesnt_exist(msv, f, self.nm(name), tag=name, arg=arg)
            else:
                dm.reset(msv, f, self.nm(name), tag=name, arg=arg)
            if ms < 0:
                # `call_later` with a negative delay: the handle's `when` lies in the past, the loop runs it in its next
                # iteration, i.e. it is due now (what the model and the oracle say); remember that for the pending line
                d = dm.delays.get(self.nm(name))
                if d is not None and d[0].when() < self.vm.now() and id(d[0]) not in self.neg:
                    self.neg[id(d[0])] = (d[0], t)
        elif op == "rm":
            self.log.append(("issue", c, t))
            dm.remove(self.nm(c[1]))
        elif op == "clear":
            self.log.append(("issue", c, t))
            dm.clear()
        elif op == "runnow":
            self.log.append(("issue", c, t))
            self.sync = True
            before = self.rcalls
            try:
                dm.run_now(self.nm(c[1]))
            finally:
                self.sync = False
            # returned normally: the callback returned (the model runs its endTry marker), or a KeyError raised somewhere
            # below was swallowed by this run_now (the model has dropped the agenda up to and including the marker)
            if self.unwinding:
                self.unwinding = False
                self.log.append(("swallowed", c, t))
            elif self.rcalls != before:
                self.marker()
            self.log.append(("returned", c, t))
        elif op == "check":
            res = dm.check(self.nm(c[1]))
            self.log.append(("check", c[1], res is True, t))
            self.obs("C %s %s" % (c[1], 1 if res is True else (0 if res is False else repr(res))))
        elif op == "pstart":
            pid = len(self.tasks)
            self.task_n.append(0)
            self.task_cb.append(c[2])
            self.log.append(("pstart", pid, c[1], t))
            self.tasks.append(self.vm.machine.clock.schedule_interval(partial(self.ptick, pid), c[1] * TICK))
        elif op == "pcancel":
            self.log.append(("pcancel", c[1], t))
            if c[1] < len(self.tasks):
                self.vm.machine.clock.unschedule(self.tasks[c[1]])
        else:
            raise InfraError("unknown command %r" % (c,))

    # driver --------------------------------------------------------------------------------------------
    def run(self, shared_vm=None):
        """shared_vm: an already booted machine to run a `fresh` case on (a new DelayManager per case; used by the
        exhaustive small-scope enumeration, where a boot per sequence would dominate)"""
        from mpf.core.delays import DelayManager
        if shared_vm is not None:
            if self.kind != "fresh":
                raise InfraError("only fresh-manager cases can share a machine")
            self.vm = shared_vm
        else:
            if self.kind == "mode":
                self.vm = VMachine(CONFIG + MODE_CONFIG, modes={"m1": MODE_YAML})
            else:
                self.vm = VMachine(CONFIG)
            try:
                self.vm.start()
            except BootError as e:
                raise InfraError("C13 machine does not boot: %s" % e)
        try:
            vm = self.vm
            m = vm.machine
            self.task_cb = []
            self.cbs = [self.make_cb(k) for k in range(4)]
            if self.kind == "mode":
                vm.post("start_m1")
                vm.run()
                self.mode = m.modes["m1"]
                if not self.mode.active:
                    raise InfraError("mode m1 did not start")
                self.dm = self.mode.delay
            elif self.kind == "machine":
                self.dm = m.delay
            else:
                self.dm = DelayManager(m)
            make_monotonic(vm.tc.loop)
            vm.align()
            self.t0 = vm.now()
            self.mode_stopped_at = None
            for op in self.case["ops"]:
                if self.crash or self.dead:
                    break
                try:
                    if op[0] == "cmd":
                        self.group(["cmd", op[1]])
                        self.do_cmd(op[1])
                    elif op[0] == "adv":
                        self.log.append(("adv", self.tick(), self.tick() + op[1]))
                        vm.advance(op[1] * TICK)
                        self.group(["to"])
                    elif op[0] == "mstop":
                        self.mstop(op[1])
                    elif op[0] == "mhold":
                        self.mhold(op[1])
                    elif op[0] == "mrelease":
                        self.mrelease()
                    else:
                        raise InfraError("unknown op %r" % (op,))
                except InfraError:
                    raise
                except (CbError, KeyError) as e:
                    if e.args != ("c13",):
                        self.crash = "%s: %s" % (type(e).__name__, e)
                        self.group(["crash"])
                        self.obs("crash " + type(e).__name__)
                        continue
                    # a generated callback raised and nothing caught it: it reached the caller (a top-level call of the
                    # harness: the case goes on) or the event loop (the machine stops: the case ends here)
                    self.unwinding = False
                    if self.loop_escaped:
                        self.dead = True
                    else:
                        self.obs("U")
                        self.log.append(("escaped", self.cur["head"][0], self.tick()))
                except Exception as e:       # an exception escaping the real code is an observation
                    self.crash = "%s: %s" % (type(e).__name__, e)
                    self.group(["crash"])
                    self.obs("crash " + type(e).__name__)
            self.end = self.tick()
            self.pending = None if self.dead else self.pending_line()
        finally:
            self.finished = True
            if shared_vm is None:
                self.vm.stop()
            else:
                self.vm = None
        return self

    def mstop(self, prog):
        m = self.vm.machine
        self.group(["cmd", ["clear"]])
        self.log.append(("issue", ["clear"], self.tick()))

        def stopping(**kwargs):
            for c in prog:
                self.group(["cmd", c])
                self.do_cmd(c)
        key = m.events.add_handler("mode_m1_stopping", stopping)
        self.vm.post("stop_m1")
        self.vm.run()
        m.events.remove_handler_by_key(key)
        if self.mode.active or self.mode.stopping:
            raise InfraError("mode m1 did not stop")
        self.group(["cmd", ["clear"]])
        self.log.append(("mode-stopped", self.tick()))

    def mhold(self, prog):
        """Mode.stop() with a handler that holds the `mode_m1_stopping` queue event (after issuing `prog` on the mode's
        manager): the mode stays `stopping` until `mrelease`"""
        m = self.vm.machine
        self.held = None
        self.group(["cmd", ["clear"]])
        self.log.append(("issue", ["clear"], self.tick()))
        self.log.append(("mode-stopping", self.tick()))

        def stopping(queue=None, **kwargs):
            queue.wait()
            self.held = queue
            for c in prog:
                self.group(["cmd", c])
                self.do_cmd(c)
        self.hold_key = m.events.add_handler("mode_m1_stopping", stopping)
        self.vm.post("stop_m1")
        self.vm.run()
        if self.held is None or not self.mode.stopping or not self.mode.active:
            raise InfraError("mode m1 is not held in `stopping`")

    def mrelease(self):
        m = self.vm.machine
        if getattr(self, "held", None) is None:
            return              # (shrunk case without the mhold)
        self.group(["cmd", ["clear"]])
        self.log.append(("issue", ["clear"], self.tick()))
        q, self.held = self.held, None
        q.clear()
        self.vm.run()
        m.events.remove_handler_by_key(self.hold_key)
        if self.mode.active or self.mode.stopping:
            raise InfraError("mode m1 did not stop after the queue was released")
        self.log.append(("mode-stopped", self.tick()))

    def pending_line(self):
        loop = self.vm.tc.loop
        a = []
        for name, d in self.dm.delays.items():
            tag = [k for k, v in self.names.items() if v == name]
            n = tag[0] if tag else (int(name[1:]) if name[:1] == "n" and name[1:].isdigit() else name)
            due = (d[0].when() - self.t0) / TICK
            if id(d[0]) in self.neg:
                due = self.neg[id(d[0])][1]
            a.append("%s@%s" % (n, int(due) if due == int(due) else due))
        b = []
        for pid, task in enumerate(self.tasks):
            if not task._canceled:
                due = (task.get_next_call_time() - self.t0) / TICK
                b.append("%s@%s" % (pid, int(due) if due == int(due) else due))
        del loop
        return "P " + " ".join(a) + " | " + " ".join(b)


def model_lines(run):
    """(line to send, expected answer) pairs derived from what the implementation did"""
    out = [("new", "ok")]
    for k, prog in sorted(run.progs.items()):
        if prog:
            out.append(("prog %d %s" % (k, " ; ".join(" ".join(map(str, c[:5])) for c in prog)), "ok"))
    now = 0
    for g in run.groups:
        h = g["head"]
        if g["t"] != now:
            out.append(("to %s" % g["t"], "ok"))
            now = g["t"]
        exp = " ".join(g["obs"]) or "ok"
        now += sum(int(x[2:]) for x in g["obs"] if x.startswith("B "))      # callbacks that blocked: the clock moved
        if h[0] == "cmd":
            out.append(("cmd " + " ".join(map(str, h[1][:5])), exp))
        elif h[0] == "fire":
            out.append(("fire %s" % h[1], exp))
        elif h[0] == "pfire":
            out.append(("pfire %s" % h[1], exp))
        elif h[0] == "crash":
            out.append(("crash", exp))
        elif h[0] == "to":
            pass
    if run.pending is not None:
        out.append(("pending", run.pending))
    return out


# ---------------------------------------------------------------------------------------------------- oracle

def oracle(run):
    """Property C13 stated on the implementation's log.  Returns None or (signature, detail)."""
    pending = {}     # name -> (due, cb, arg)
    pers = {}        # pid -> [interval, t0, n, canceled]
    expect_sync = None
    stopped = False
    log = run.log
    if run.crash:
        return "crash", {"error": run.crash}

    blocks = [(e[1], e[2]) for e in log if e[0] == "block"]

    def late_ok(due, t):
        """a callback due at `due` may run (or still be pending) at t > due only if the loop could not run in between:
        the whole of (due, t] lies inside intervals during which some callback blocked the loop"""
        if t <= due:
            return True
        covered = sum(max(0, min(b, t) - max(a, due)) for a, b in blocks)
        return covered >= t - due

    def overdue(t, strict):
        for n, (due, cb, arg) in pending.items():
            if (due < t or (not strict and due <= t)) and not late_ok(due, t):
                return "delay-missed", {"name": n, "due": due, "now": t}
        for pid, (iv, t0, n, canc) in pers.items():
            nxt = t0 + (n + 1) * iv
            if not canc and (nxt < t or (not strict and nxt <= t)) and not late_ok(nxt, t):
                return "periodic-missed-tick", {"pid": pid, "due": nxt, "now": t}
        return None

    for i, ev in enumerate(log):
        kind = ev[0]
        if expect_sync is not None and kind != "call":
            if expect_sync[0] is not None:
                return "run-now-no-call", {"name": expect_sync[1], "event": i}
            expect_sync = None
        if kind == "issue":
            c, t = ev[1], ev[2]
            bad = overdue(t, True)
            if bad:
                return bad
            op = c[0]
            if op in ("add", "reset") or (op == "addif" and c[2] not in pending):
                pending[c[2]] = (t + max(c[1], 0), c[3], c[4])      # a negative delay is due at once
            elif op == "rm":
                pending.pop(c[1], None)
            elif op == "clear":
                pending.clear()
            elif op == "runnow":
                p = pending.pop(c[1], None)
                expect_sync = (p, c[1])
        elif kind == "returned":
            pass
        elif kind == "call":
            _, how, cb, tag, arg, t = ev
            if how == "R":
                if expect_sync is None or expect_sync[0] is None:
                    return "run-now-spurious-call", {"cb": cb, "tag": tag, "event": i}
                due, ecb, earg = expect_sync[0]
                if (ecb, expect_sync[1], earg) != (cb, tag, arg):
                    return "run-now-args", {"expected": [ecb, expect_sync[1], earg], "got": [cb, tag, arg], "t": t}
                expect_sync = None
            else:
                if expect_sync is not None and expect_sync[0] is not None:
                    return "run-now-no-call", {"name": expect_sync[1], "event": i}
                expect_sync = None
                bad = overdue(t, True)
                if bad:
                    return bad
                if stopped:
                    return "mode-delay-after-stop", {"cb": cb, "name": tag, "t": t}
                if tag not in pending:
                    return "delay-fired-not-pending", {"cb": cb, "name": tag, "arg": arg, "t": t}
                due, ecb, earg = pending.pop(tag)
                if t < due or not late_ok(due, t):
                    # early, or late although the loop was free to run it (a late delivery of ANOTHER callback must not
                    # shift this one)
                    return "delay-wrong-time", {"name": tag, "due": due, "t": t}
                if (ecb, earg) != (cb, arg):
                    return "delay-wrong-args", {"name": tag, "expected": [ecb, earg], "got": [cb, arg]}
        elif kind == "check":
            _, name, res, t = ev
            if res != (name in pending):
                return "check-untruthful", {"name": name, "said": res, "pending": sorted(pending), "t": t}
        elif kind == "pstart":
            pers[ev[1]] = [ev[2], ev[3], 0, False]
        elif kind == "pcancel":
            if ev[1] in pers:
                pers[ev[1]][3] = True
        elif kind == "tick":
            _, pid, n, t = ev
            iv, t0, k, canc = pers[pid]
            if canc:
                return "periodic-tick-after-cancel", {"pid": pid, "t": t}
            exp_t = t0 + n * iv
            if n != k + 1 or t < exp_t or not late_ok(exp_t, t):
                # the n-th tick is never before t0 + n*interval and is late only while the loop was blocked: lateness of one
                # tick is not carried into the next, ticks missed during a stall are delivered back to back
                return "periodic-drift", {"pid": pid, "n": n, "t": t, "expected": exp_t}
            pers[pid][2] = n
        elif kind in ("adv", "block", "raise", "swallowed", "escaped", "mode-stopping"):
            pass
        elif kind == "fired-inactive":
            return "mode-delay-after-stop", {"name": ev[1], "t": ev[2], "mode_active": False}
        elif kind == "mode-stopped":
            stopped = True
            pending.clear()
    return final_overdue(run, pending, pers, late_ok)


def final_overdue(run, pending, pers, late_ok):
    """at the end of the case (the last op is an advance) nothing may be left that was due strictly before the end"""
    t = run.end
    if run.dead:         # a callback's exception reached the loop: the machine has stopped at that instant
        return None
    for n, (due, cb, arg) in pending.items():
        if due < t and not late_ok(due, t):
            return "delay-missed", {"name": n, "due": due, "end": t}
    for pid, (iv, t0, n, canc) in pers.items():
        if not canc and t0 + (n + 1) * iv < t and not late_ok(t0 + (n + 1) * iv, t):
            return "periodic-missed-tick", {"pid": pid, "due": t0 + (n + 1) * iv, "end": t}
    return None


def nontrivial(run):
    fired = any(e[0] in ("call", "tick") for e in run.log)
    inner = any(g["head"][0] in ("fire", "pfire") and len(g["obs"]) > 1 for g in run.groups)
    canc = any(e[0] == "issue" and e[1][0] in ("rm", "clear", "reset", "runnow") for e in run.log)
    return fired and (inner or canc)


def check_case(ctx, case, model, shrink=True, shared_vm=None, sample=True):
    run = DelayRun(case).run(shared_vm)
    ctx.evaluated(case, nontrivial(run), sample=sample)
    for g in run.groups:
        ctx.count("grp_" + g["head"][0])
    for e in run.log:
        if e[0] == "issue":
            ctx.count("cmd_" + e[1][0])
        elif e[0] == "call":
            ctx.count("call_" + e[1])
        elif e[0] in ("tick", "check", "pstart", "pcancel", "block", "swallowed", "escaped", "mode-stopping", "mode-stopped"):
            ctx.count(e[0])
        elif e[0] == "raise":
            ctx.count("raise_%d" % e[1])
        if e[0] == "issue" and e[1][0] in ("add", "addif", "reset"):
            ctx.count("ms_negative" if e[1][1] < 0 else "ms_zero" if e[1][1] == 0 else "ms_positive")
            if len(e[1]) > 5:
                ctx.count("ms_float")
        if e[0] == "pstart" and e[2] == 0:
            ctx.count("pstart_interval_0")
        if e[0] == "call" and e[5] > 0 and any(a < e[5] <= b for a, b in [(x[1], x[2]) for x in run.log if x[0] == "block"]):
            ctx.count("call_at_end_of_a_block")
    if any("X" in g["obs"] for g in run.groups):
        ctx.count("budget_exhausted")
    hold = [e[1] for e in run.log if e[0] == "mode-stopping"]
    rel = [e[1] for e in run.log if e[0] == "mode-stopped"]
    if hold and rel:
        ctx.count("fired_while_mode_stopping", sum(1 for e in run.log if e[0] == "call" and e[1] == "F" and hold[0] <= e[5] <= rel[0]))
        ctx.count("hold_ticks", rel[0] - hold[0])
    bad = oracle(run)
    if bad:
        sig, detail = bad
        small = case
        if shrink and first_of(ctx, sig):
            def fails(ops):
                c2 = dict(case, ops=ops)
                b = oracle(DelayRun(c2).run())
                return b is not None and b[0] == sig
            ops = ddmin(case["ops"], fails, max_tests=150)
            small = dict(case, ops=ops)
            b2 = oracle(DelayRun(small).run())
            if b2 is not None and b2[0] == sig:
                detail = b2[1]
            else:
                small = case
        ctx.fail(sig, small, detail)
    if model is not None:
        lines = model_lines(run)
        got = [model.ask(l) for l, _ in lines]
        ctx.compare(dict(case, what="delay/periodic trace", sent=[l for l, _ in lines]), [e for _, e in lines], got)
    return bad


# ---------------------------------------------------------------------------------------------------- timer device

TIMER_MODE = """mode:
  start_events: start_m1
  stop_events: stop_m1
  game_mode: false
timers:
  t1:
    start_value: %(start)d
    %(end)s
    direction: %(direction)s
    tick_interval: %(iv)s
    %(maxv)s
    restart_on_complete: %(roc)s
    start_running: %(sr)s
    control_events:
%(ce)s"""

# (action, value) pairs reachable from the generator; value-less actions first (see report: _setup_control_events leaks
# the previous entry's kwargs into value-less actions)
TIMER_ACTIONS = ([(a, None) for a in ("start", "stop", "reset", "restart")] + [("pause", v) for v in (0, 2, 3, 5)] +
                 [("add", v) for v in (1, 2, 4)] + [("subtract", v) for v in (1, 2, 4)] +
                 [("jump", v) for v in (0, 1, 2, 4, 7)] + [("set_tick_interval", v) for v in (1, 2, 3)] +
                 [("change_tick_interval", 2), ("change_tick_interval", 3)])


def timer_event(action, value):
    return "t1_%s%s" % (action, "" if value is None else "_%d" % value)


def control_events_yaml(order=None):
    out = []
    acts = TIMER_ACTIONS if order is None else [TIMER_ACTIONS[i] for i in order]
    for a, v in acts:
        out.append("      - action: %s\n        event: %s\n" % (a, timer_event(a, v)))
        if v is not None:
            val = v * TICK if a in ("pause", "set_tick_interval") else v
            out[-1] += "        value: %s\n" % val
    return "".join(out)


def gen_timer_case(r):
    direction = r.choice(["up", "down"])
    if direction == "up":
        start = r.choice([0, 0, 1, 3])
        end = r.choice([None, start + r.choice([1, 2, 3, 5])])
    else:
        start = r.choice([2, 3, 5, 8])
        end = r.choice([None, 0, 1])
    cfg = {"start": start, "end": end, "direction": direction, "iv": r.choice([1, 1, 2, 3]),
           "max": r.choice([None, None, 6, 9]), "roc": r.random() < 0.25, "sr": r.random() < 0.4}
    if r.random() < 0.08:
        # the start value already at / past the end value (direction down with start < end, up with start >= end): the timer
        # completes the moment it is started; with restart_on_complete the real code recurses for ever (see ASSUMPTIONS)
        cfg["end"] = start + r.choice([0, 1, 3]) if direction == "down" else start - r.choice([0, 1])
        cfg["roc"] = False
    stall = r.random() < 0.25
    ops = []
    for _ in range(r.randint(5, 25)):
        k = r.random()
        if k < 0.4:
            ops.append(["adv", r.choice([1, 1, 1, 2, 3, 4, 7])])
        elif k < 0.55:
            ops.append(["start"])
        elif k < 0.63:
            ops.append(["stop"])
        elif k < 0.72:
            ops.append(["pause", r.choice([0, 0, 2, 3, 5])])
        elif k < 0.79:
            ops.append(["add", r.choice([1, 2, 4])])
        elif k < 0.86:
            ops.append(["subtract", r.choice([1, 2, 4])])
        elif k < 0.91:
            ops.append(["jump", r.choice([0, 1, 2, 4, 7])])
        elif k < 0.93:
            ops.append(["reset"])
        elif k < 0.95:
            ops.append(["restart"])
        elif k < 0.975:
            ops.append(["set_tick_interval", r.choice([1, 2, 3])])
        else:
            ops.append(["change_tick_interval", r.choice([2, 2, 3])])
        if stall and r.random() < 0.15:
            # something unrelated blocks the loop: the clock moves on, nothing runs (ticks will be delivered late)
            # (followed by an advance: all late deliveries happen there, not in the middle of the next control event)
            ops.append(["stall", r.choice([1, 1, 2, 3, 5])])
            ops.append(["adv", r.choice([1, 1, 2])])
    if r.random() < 0.25:
        # the owning mode stops (device_removed_from_mode = stop(), control events unregistered): from then on only time
        # passes (and the loop stalls); a pause end or system timer still in the loop must stay silent
        k = r.randrange(len(ops) // 2, len(ops) + 1)
        ops = ops[:k] + [["mode_stop"]] + [o for o in ops[k:] if o[0] in ("adv", "stall")] + [["adv", r.choice([1, 3, 6])]]
    ops.append(["adv", r.choice([2, 5, 9])])
    case = {"kind": "timer", "cfg": cfg, "ops": ops}
    if os.environ.get("VERIF_C13_CE_SHUFFLE") == "1":
        # control events in a generated order: needs the `_setup_control_events` repair (branch verif-C13C03b), without it
        # a value-less action listed after a value action inherits that value and `reset`/`restart` crash
        order = list(range(len(TIMER_ACTIONS)))
        r.shuffle(order)
        case["ce_order"] = order
    return case


_tw = {}


def install_timer_logger():
    """Wrap Timer._timer_tick / Timer.start once per process: tells the active run *why* events appear while time
    advances (the system timer ran on a running timer, or the 'pause' delay called start)."""
    from mpf.devices.timer import Timer
    if _tw.get("cls") is Timer:
        return
    o_tick, o_start = Timer._timer_tick, Timer.start

    def _timer_tick(self):
        run = _tw.get("run")
        mine = run is not None and not run.finished and self is run.timer
        if mine and self.running and run.depth == 0:
            run.cause("clock")
        if mine:
            run.depth += 1
        try:
            return o_tick(self)
        finally:
            if mine:
                run.depth -= 1

    def start(self, **kwargs):
        run = _tw.get("run")
        mine = run is not None and not run.finished and self is run.timer
        if mine and run.in_adv and run.depth == 0:
            run.cause("resume")
        if mine:
            run.depth += 1
        try:
            return o_start(self, **kwargs)
        finally:
            if mine:
                run.depth -= 1
    Timer._timer_tick = _timer_tick
    Timer.start = start
    _tw["cls"] = Timer


class TimerRun:
    EVENTS = ["tick", "started", "stopped", "paused", "complete", "time_added", "time_subtracted"]

    def __init__(self, case):
        self.case = case
        self.log = []
        self.crash = None
        self.finished = False
        self.timer = None
        self.depth = 0
        self.in_adv = False
        self.groups = []

    def tick(self):
        x = (self.vm.now() - self.t0) / TICK
        return int(x) if x == int(x) else round(x, 6)

    def cause(self, what):
        self.cur = {"head": what, "t": self.tick(), "obs": [], "state": None}
        self.groups.append(self.cur)

    def run(self):
        install_timer_logger()
        c = self.case["cfg"]
        y = TIMER_MODE % {"start": c["start"], "end": ("end_value: %d" % c["end"]) if c["end"] is not None else "debug: false",
                          "direction": c["direction"], "iv": "%dms" % (c["iv"] * 125),
                          "maxv": ("max_value: %d" % c["max"]) if c["max"] is not None else "console_log: none",
                          "roc": "true" if c["roc"] else "false", "sr": "true" if c["sr"] else "false",
                          "ce": control_events_yaml(self.case.get("ce_order"))}
        self.vm = VMachine(CONFIG + MODE_CONFIG, modes={"m1": y})
        try:
            self.vm.start()
        except BootError as e:
            raise InfraError("C13 timer machine does not boot: %s" % e)
        _tw["run"] = self
        try:
            vm = self.vm
            m = vm.machine
            make_monotonic(vm.tc.loop)
            vm.align()
            self.t0 = vm.now()
            for ev in self.EVENTS:
                m.events.add_handler("timer_t1_" + ev, self.make_handler(ev))
            self.log.append(("op", ["mode_start"], self.tick()))
            self.cause(["mode_start"])
            vm.post("start_m1")
            vm.run()
            if not m.modes["m1"].active:
                raise InfraError("timer mode did not start")
            self.timer = m.timers["t1"]
            self.snap()
            for op in self.case["ops"]:
                try:
                    if op[0] == "stall":
                        self.log.append(("stall", self.tick(), self.tick() + op[1]))
                        self.cause(op)          # the model's `stall d` (group time = the instant the stall begins)
                        vm.tc.loop.advance_time(op[1] * TICK)
                        continue
                    if op[0] == "adv":
                        self.log.append(("adv", self.tick(), self.tick() + op[1]))
                        self.in_adv = True
                        try:
                            vm.advance(op[1] * TICK)
                        finally:
                            self.in_adv = False
                        self.cause("to")
                    elif op[0] == "mode_stop":
                        self.log.append(("op", op, self.tick()))
                        self.cause(op)
                        vm.post("stop_m1")
                        vm.run()
                        if m.modes["m1"].active:
                            raise InfraError("timer mode did not stop")
                    else:
                        self.log.append(("op", op, self.tick()))
                        self.cause(op)
                        vm.post(timer_event(op[0], op[1] if len(op) > 1 else None))
                        vm.run()
                    self.snap()
                except InfraError:
                    raise
                except Exception as e:
                    self.crash = "%s: %s" % (type(e).__name__, e)
                    break
            self.end = self.tick()
        finally:
            self.finished = True
            _tw["run"] = None
            self.vm.stop()
        return self

    def snap(self):
        self.log.append(("state", self.timer.running, self.timer.ticks, self.tick()))
        self.cur["state"] = "S %d %s" % (1 if self.timer.running else 0, self.timer.ticks)

    def make_handler(self, ev):
        def on_event(ticks=None, **kwargs):
            if not self.finished:
                self.log.append(("event", ev, ticks, self.tick()))
                self.cur["obs"].append("%s:%s" % (ev, ticks))
                if len(self.log) > 6000:
                    self.finished = True
                    raise RuntimeError("runaway: more than 6000 timer events in one case")
        return on_event


def timer_oracle(run):
    """The property's timer clause evaluated on the real event log: `complete` only with the count at/past the end value,
    no `tick` event with the count at/past the end value (direct statements), then the full reference trace below."""
    if run.crash:
        if "multiple values for argument 'timer_value'" in run.crash:
            return "timer-control-event-kwargs-leak", {"error": run.crash}
        return "timer-crash", {"error": run.crash}
    c = run.case["cfg"]
    up = c["direction"] == "up"
    end = c["end"] if (c["end"] is not None or up) else 0

    def done(v):
        return (up and end is not None and v >= end) or ((not up) and v <= end)

    for ev in run.log:
        if ev[0] == "event":
            _, name, tk, t = ev
            if name == "complete" and not done(tk):
                return "timer-complete-not-at-end", {"ticks": tk, "end": end, "t": t}
            if name == "tick" and done(tk):
                return "timer-tick-at-end-value", {"ticks": tk, "end": end, "t": t}
    return timer_clock_oracle(run)


def timer_clock_oracle(run):
    """Reference trace from an explicit little state machine (there is no Lean model of Timer): clock ticks only while
    running, exactly `interval` after the last (re)arming or previous tick; complete exactly when the count reaches the end
    value; running/ticks after every call."""
    c = run.case["cfg"]
    up = c["direction"] == "up"
    end = c["end"] if (c["end"] is not None or up) else 0
    mx = c["max"]
    st = {"running": False, "ticks": c["start"], "arm": None, "iv": c["iv"], "resume": None}
    run.late = [0, 0]
    exp = []         # expected (event, ticks, t) in order

    def done():
        v = st["ticks"]
        return (up and end is not None and v >= end) or ((not up) and v <= end)

    def post(name, t):
        exp.append((name, st["ticks"], t))

    def stop(t):
        st["resume"] = None
        st["running"] = False
        st["arm"] = None
        post("stopped", t)

    def complete(t, depth=0):
        stop(t)
        post("complete", t)
        if c["roc"] and depth < 3:
            jump(c["start"], t, depth + 1)
            if not st["running"]:
                start(t, depth + 1)
            else:
                tick_events(t, depth + 1)

    def check_done(t, depth=0):
        if done():
            complete(t, depth)
            return True
        return False

    def tick_events(t, depth=0):
        if not check_done(t, depth):
            post("tick", t)

    def start(t, depth=0):
        if st["running"]:
            return
        if check_done(t, depth):
            return
        st["running"] = True
        st["resume"] = None
        st["arm"] = t
        post("started", t)
        tick_events(t, depth)

    def jump(v, t, depth=0):
        st["ticks"] = v
        if mx and st["ticks"] > mx:
            st["ticks"] = mx
        st["arm"] = t       # the periodic task is re-created even when the timer is not running
        check_done(t, depth)

    def advance(t_from, t_to):
        """t_from is the instant at which the loop starts running again: whatever was scheduled before it (the loop was
        stalled) is delivered at t_from, in the order of its schedule; the periodic task stays on its absolute schedule
        (`arm` = the instant the tick was due, not the instant it ran), a resumed timer starts a new schedule now"""
        while True:
            nxt = []
            if st["arm"] is not None:
                nxt.append((st["arm"] + st["iv"], 1))
            if st["resume"] is not None:
                nxt.append((st["resume"], 0))
            nxt = [x for x in nxt if x[0] <= t_to]
            if not nxt:
                return None
            if len(nxt) == 2 and max(nxt[0][0], t_from) == max(nxt[1][0], t_from):
                return "tie"
            ts, what = min(nxt)
            t = max(ts, t_from)
            if ts < t_from and (what == 0 or st["running"]):
                run.late[what] += 1       # a pause end / a clock tick of a running timer delivered late (after a stall)
            if what == 0:
                st["resume"] = None
                start(t)
            else:
                if not st["running"]:
                    st["arm"] = None      # _timer_tick removes the system timer when not running
                    continue
                st["arm"] = ts
                st["ticks"] += 1 if up else -1
                tick_events(t)

    if c["sr"]:
        start(0)
    got = []
    tie = False
    stalled = False
    removed = False
    for ev in run.log:
        if ev[0] == "op" and ev[1][0] != "mode_start":
            o, t = ev[1], ev[2]
            if removed:
                continue        # the mode has stopped: the timer's control events are unregistered
            if o[0] == "mode_stop":
                removed = True
            if o[0] == "start":
                start(t)
            elif o[0] in ("stop", "mode_stop"):
                stop(t)         # device_removed_from_mode() is stop()
            elif o[0] == "pause":
                st["running"] = False
                st["arm"] = None
                post("paused", t)
                if o[1] > 0:
                    st["resume"] = t + o[1]
            elif o[0] == "add":
                v = st["ticks"] + o[1]
                if mx and v > mx:
                    v = mx
                st["ticks"] = v
                post("time_added", t)
                check_done(t)
            elif o[0] == "subtract":
                st["ticks"] -= o[1]
                post("time_subtracted", t)
                check_done(t)
            elif o[0] == "jump":
                jump(o[1], t)
            elif o[0] == "reset":
                jump(c["start"], t)
            elif o[0] == "restart":
                jump(c["start"], t)
                if not st["running"]:
                    start(t)
                else:
                    tick_events(t)
            elif o[0] == "set_tick_interval":
                st["iv"] = o[1]
                st["arm"] = t
            elif o[0] == "change_tick_interval":
                st["iv"] *= o[1]
                st["arm"] = t
        elif ev[0] == "stall":
            stalled = True
        elif ev[0] == "adv":
            if advance(ev[1], ev[2]) == "tie":
                tie = True
                break
        elif ev[0] == "event":
            got.append((ev[1], ev[2], ev[3]))
        elif ev[0] == "state" and not tie:
            if (ev[1], ev[2]) != (st["running"], st["ticks"]):
                return classify_timer(exp, got, {"state": [ev[1], ev[2]], "expected_state": [st["running"], st["ticks"]], "t": ev[3]})
    if tie:
        return "tie", None
    if exp != got:
        return classify_timer(exp, got, {})
    return None


def classify_timer(exp, got, extra):
    k = 0
    while k < len(exp) and k < len(got) and exp[k] == got[k]:
        k += 1
    e = exp[k] if k < len(exp) else None
    g = got[k] if k < len(got) else None
    d = dict(extra, index=k, expected=e, got=g)
    if g is not None and g[0] == "tick" and (e is None or e[0] != "tick" or e[2] != g[2]):
        return "timer-unexpected-tick", d
    if e is not None and e[0] == "tick" and (g is None or g[0] != "tick"):
        return "timer-missing-tick", d
    if (e and e[0] == "complete") or (g and g[0] == "complete"):
        return "timer-complete-mismatch", d
    return "timer-trace-mismatch", d


TIMER_MODEL_OP = {"start": "start", "stop": "stop", "reset": "reset", "restart": "restart", "pause": "pause %d",
                  "add": "add %d", "subtract": "sub %d", "jump": "jump %d", "set_tick_interval": "setiv %d",
                  "change_tick_interval": "chiv %d", "stall": "stall %d", "mode_stop": "removed"}


def timer_model_lines(run):
    c = run.case["cfg"]
    opt = lambda v: "-" if v is None else str(v)
    out = [("tm new %d %d %s %s %d %d" % (1 if c["direction"] == "up" else 0, c["start"], opt(c["end"]), opt(c["max"]),
                                         1 if c["roc"] else 0, c["iv"]), "ok")]
    now = 0
    for g in run.groups:
        h = g["head"]
        if g["t"] != now:
            out.append(("tm to %s" % g["t"], "ok"))
            now = g["t"]
        exp = " ".join(g["obs"]) or "ok"
        if h == "to":
            pass
        elif h == "clock":
            out.append(("tm clock", exp))
        elif h == "resume":
            out.append(("tm resume", exp))
        elif h == ["mode_start"]:
            if c["sr"]:
                out.append(("tm start", exp))
            elif g["obs"]:
                out.append(("tm nothing-expected", exp))
        else:
            f = TIMER_MODEL_OP[h[0]]
            out.append(("tm " + (f % h[1] if "%" in f else f), exp))
            if h[0] == "stall":
                now += h[1]         # the clock moved while the loop did not run
        if g["state"] is not None:
            out.append(("tm state", g["state"]))
    return out


def check_timer_case(ctx, case, shrink=True, model=None):
    run = TimerRun(case).run()
    n_ticks = sum(1 for e in run.log if e[0] == "event" and e[1] == "tick")
    n_ops = sum(1 for e in run.log if e[0] == "op")
    bad = timer_oracle(run)
    if bad and bad[0] == "tie":
        ctx.count("timer_tie_skipped")
        return None
    ctx.evaluated(case, n_ticks > 0 and n_ops > 2)
    ctx.count("timer_cases")
    ctx.count("timer_tick_events", n_ticks)
    ctx.count("timer_complete_events", sum(1 for e in run.log if e[0] == "event" and e[1] == "complete"))
    for e in run.log:
        if e[0] == "op":
            ctx.count("timer_op_" + e[1][0])
    if bad:
        sig, detail = bad
        small = case
        if shrink and first_of(ctx, sig):
            def fails(ops):
                b = timer_oracle(TimerRun(dict(case, ops=ops)).run())
                return b is not None and b[0] == sig
            small = dict(case, ops=ddmin(case["ops"], fails, max_tests=120))
            b2 = timer_oracle(TimerRun(small).run())
            if b2 is not None and b2[0] == sig:
                detail = b2[1]
            else:
                small = case
        ctx.fail(sig, small, detail)
    if getattr(run, "late", None):
        ctx.count("timer_late_pause_ends", run.late[0])
        ctx.count("timer_late_clock_ticks", run.late[1])
    if any(o[0] == "stall" for o in case["ops"]):
        ctx.count("timer_cases_with_stall")          # late deliveries: `stall d` in Model/TimerDevice.lean
    if model is not None and not run.crash:
        lines = timer_model_lines(run)
        got = [model.ask(l) for l, _ in lines]
        ctx.compare(dict(case, what="timer device trace", sent=[l for l, _ in lines]), [e for _, e in lines], got)
    return bad


# ---------------------------------------------------------------------------------------------------- corpus

CORPUS = [
    # D3: run_now must pass the stored kwargs
    {"kind": "fresh", "progs": {"0": [], "1": [], "2": [], "3": []},
     "ops": [["cmd", ["add", 8, 0, 1, 7]], ["cmd", ["runnow", 0]], ["adv", 9]]},
    # run_now from a callback on its own name after re-adding; remove at the expiry instant by a same-instant sibling
    {"kind": "fresh", "progs": {"0": [], "1": [["reset", 2, 0, 2, 5], ["runnow", 0]], "2": [["rm", 1], ["check", 1]], "3": []},
     "ops": [["cmd", ["add", 2, 0, 1, 1]], ["cmd", ["add", 2, 1, 2, 2]], ["cmd", ["add", 2, 2, 0, 3]], ["adv", 2], ["adv", 3]]},
    # replace under the same name, add_if on an existing name, clear, zero delay
    {"kind": "machine", "progs": {"0": [], "1": [["add", 1, 0, 1, 4]], "2": [], "3": []},
     "ops": [["cmd", ["add", 3, 0, 0, 1]], ["adv", 1], ["cmd", ["add", 3, 0, 2, 2]], ["cmd", ["addif", 1, 0, 3, 3]],
             ["adv", 2], ["adv", 1], ["cmd", ["add", 0, 1, 1, 9]], ["adv", 0], ["adv", 1], ["cmd", ["clear"]], ["adv", 4]]},
    # periodic: cancel from its own callback, from a delay, absolute schedule
    {"kind": "fresh", "progs": {"0": [], "1": [["pcancel", 0]], "2": [["add", 1, 0, 1, 0]], "3": []},
     "ops": [["cmd", ["pstart", 2, 2]], ["cmd", ["pstart", 3, 0]], ["adv", 7], ["cmd", ["pcancel", 1]], ["adv", 7]]},
    # a callback that raises: KeyError inside run_now is swallowed (the rest of that callback is skipped, the caller's program
    # goes on), anything else reaches the top-level caller; the entry is gone in both cases; then a KeyError in a callback
    # the loop fired reaches the loop (the case ends there)
    {"kind": "fresh", "progs": {"0": [], "1": [["raise", 0], ["add", 1, 3, 0, 1]], "2": [["raise", 1], ["add", 1, 3, 0, 2]],
                                "3": [["runnow", 1], ["check", 1], ["add", 2, 1, 1, 5]]},
     "ops": [["cmd", ["add", 4, 1, 1, 1]], ["cmd", ["add", 4, 2, 2, 2]], ["cmd", ["add", 1, 0, 3, 3]], ["adv", 1],
             ["cmd", ["check", 1]], ["cmd", ["runnow", 2]], ["cmd", ["check", 2]], ["cmd", ["check", 3]], ["adv", 3], ["adv", 2]]},
    # late deliveries: a callback blocks the loop for 3 intervals of a periodic task and past the due time of two delays: the
    # missed ticks come back to back at the end of the block, the following ticks are on the original schedule, the delays fire
    # late but the one added afterwards is not shifted
    {"kind": "fresh", "progs": {"0": [], "1": [["block", 3], ["add", 2, 3, 0, 9]], "2": [], "3": []},
     "ops": [["cmd", ["pstart", 1, 0]], ["cmd", ["add", 2, 0, 1, 1]], ["cmd", ["add", 3, 1, 2, 2]], ["cmd", ["add", 4, 2, 2, 3, 1]],
             ["adv", 2], ["adv", 4], ["cmd", ["block", 2]], ["adv", 3]]},
    # negative and zero delays (due at once, in the next loop iteration), `ms` as a float; an interval-0 task that cancels itself;
    # a tick that replaces its own task (rescheduling inside the tick)
    {"kind": "fresh", "progs": {"0": [], "1": [["pcancel", 0], ["add", -3, 2, 0, 4]], "2": [["prestart", 1, 1, 0]], "3": []},
     "ops": [["cmd", ["pstart", 0, 1]], ["cmd", ["add", -2, 0, 0, 1]], ["cmd", ["add", 0, 1, 0, 2, 1]], ["adv", 0],
             ["cmd", ["pstart", 2, 2]], ["adv", 5], ["cmd", ["add", -1, 0, 3, 3]], ["cmd", ["check", 0]], ["adv", 1]]},
    # held mode_m1_stopping queue: delay 0 is pending at stop() (never fires), delay 1 added by the stopping handler fires inside
    # the hold, delay 2 added during the hold is killed by the release; a delay that is due at the very instant of the release
    # while the loop was blocked (found by this check: it fired after Mode._stopped, before _finish_stop; fixed e964f0a)
    {"kind": "mode", "progs": {"0": [], "1": [], "2": [], "3": []},
     "ops": [["cmd", ["add", 2, 0, 1, 1]], ["adv", 1], ["mhold", [["add", 1, 1, 2, 5]]], ["cmd", ["add", 4, 2, 3, 6]], ["adv", 2],
             ["cmd", ["check", 2]], ["mrelease"], ["adv", 6]]},
    {"kind": "mode", "progs": {"0": [], "1": [["check", 1]], "2": [], "3": []},
     "ops": [["mhold", []], ["cmd", ["reset", 1, 1, 1, -76]], ["cmd", ["block", 1]], ["mrelease"], ["adv", 2]]},
    # D12: a delay added on the mode's manager while the mode is stopping
    {"kind": "mode", "progs": {"0": [], "1": [], "2": [], "3": []},
     "ops": [["cmd", ["add", 4, 0, 1, 1]], ["adv", 1], ["mstop", [["add", 2, 1, 2, 5]]], ["adv", 5]]},
]


EXH_PROGS = {"0": [], "1": [["add", 1, 0, 0, 5]], "2": [], "3": []}
EXH_ALPHABET = [["cmd", ["add", 1, 0, 0, 1]], ["cmd", ["add", 2, 0, 1, 2]], ["cmd", ["addif", 2, 0, 0, 3]],
                ["cmd", ["reset", 1, 0, 1, 4]], ["cmd", ["rm", 0]], ["cmd", ["runnow", 0]], ["cmd", ["check", 0]],
                ["adv", 1], ["adv", 2]]
EXH_SMALL = [EXH_ALPHABET[0], EXH_ALPHABET[3], EXH_ALPHABET[4], EXH_ALPHABET[5], EXH_ALPHABET[7], EXH_ALPHABET[8]]
EXH_SPACES = [(EXH_ALPHABET, 5), (EXH_SMALL, 6)]


def exhaustive(ctx, model, spaces=None):
    """every op sequence of length <= L over an alphabet (one delay name, delays of 1 and 2 ticks, a callback that re-adds
    the name, advances of 1 and 2 ticks), each followed by a 3-tick flush, through oracle and correspondence; one real
    machine is shared, every sequence gets a new DelayManager"""
    import itertools
    vm = None
    total = 0
    desc = []
    try:
        for alphabet, maxlen in (spaces or EXH_SPACES):
            n = 0
            for L in range(0, maxlen + 1):
                for seq in itertools.product(alphabet, repeat=L):
                    if vm is None or total % 4000 == 0:
                        if vm is not None:
                            vm.stop()
                            mpfleak.release()
                        vm = VMachine(CONFIG)
                        try:
                            vm.start()
                        except BootError as e:
                            raise InfraError("C13 machine does not boot: %s" % e)
                    case = {"kind": "fresh", "progs": EXH_PROGS, "ops": [list(o) for o in seq] + [["adv", 3]]}
                    check_case(ctx, case, model, shared_vm=vm, sample=False)
                    n += 1
                    total += 1
            desc.append("all %d op sequences of length <= %d over the %d-op alphabet %s" % (n, maxlen, len(alphabet),
                                                                                         json.dumps(alphabet)))
    finally:
        if vm is not None:
            vm.stop()
    ctx.exhaustive = True
    ctx.notes["exhaustive_subspace"] = ("; ".join(desc) + " (one delay name, callback 1 re-adds the name; each sequence "
                                         "followed by a 3-tick advance; a new DelayManager per sequence on a shared machine)")


def run(ctx):
    model = None if getattr(ctx, "model_unavailable", False) else leanproc.LeanProc(ID)
    try:
        for case in CORPUS:
            check_case(ctx, case, model)
        kinds = ["fresh", "fresh", "machine", "mode"]
        for i in range(ctx.n(800, 9000)):
            r = ctx.rng("delay", i)
            check_case(ctx, gen_delay_case(r, kinds[i % 4]), model)
            if i % 200 == 199:
                mpfleak.release()
        for i in range(ctx.n(450, 5000)):
            check_timer_case(ctx, gen_timer_case(ctx.rng("timer", i)), model=model)
            if i % 200 == 199:
                mpfleak.release()
        if ctx.tier == "thorough" and not ctx.search and not ctx.failures and not ctx.disagreements:
            exhaustive(ctx, model)
    finally:
        if model is not None:
            model.close()


def replay(ctx, rep):
    case = rep["case"]
    if case.get("kind") == "timer":
        check_timer_case(ctx, case, shrink=False)
    elif case.get("kind") in ("fresh", "machine", "mode"):
        case = {k: case[k] for k in ("kind", "progs", "ops")}
        check_case(ctx, case, None, shrink=False)
