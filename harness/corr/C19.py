"""C19 - BCP messages round-trip exactly and reassemble from any chunking.

Implementation side: the real encode_command_string / decode_command_string and the real read_message of both socket
client classes on an asyncio.StreamReader fed generated chunkings.
Model side: MpfVerif.Model.Bcp (byte-level encode/decode/reader) over the line protocol.
Oracle (model independent): decode(encode(cmd, kw)) == (cmd, kw) with identical types; chunked stream == message list.
"""
import asyncio
import json
import math

from harness.common import leanproc
from harness.common.util import InfraError

ID = "C19"
LEAN_MODULES = ["MpfVerif.Props.C19"]
PROPS_FILE = "MpfVerif/Props/C19.lean"


def _gen_bcp_tables():
    from translate import bcp_tables
    return bcp_tables.generate()


def _gen_bcp_codec():
    from translate import bcp_codec
    return bcp_codec.generate()


GEN = [_gen_bcp_tables, _gen_bcp_codec]
MANIFEST = {
  "text": "Proof on a byte-level Lean model of the BCP encoder, decoder and receiver: decode(encode cmd kw) = (cmd, kw) for every command and every list of distinct scalar parameters over arbitrary byte strings (incl. %XX, type-like prefixes, separators), ints, float texts, bools, None; the JSON branch hands the encoder's JSON text unchanged to the parser, and json.dumps/json.loads are a CONCRETE codec in the model (null/true/false/ints/float texts/strings over all Unicode scalar values with ensure_ascii escapes and surrogate pairs/lists/dicts, any nesting) with jdec(jenc v) = v proved; the receiver's frames depend only on the byte sequence (any chunking), every frame list is delivered completely and in order, and with any number of clients whose reads interleave arbitrarily each client's known commands are dispatched in the order sent with their own payload only (unknown commands skipped). Tie to the source: decode_command_string and encode_command_string are translated whole from the Python AST into data for a fixed interpreter and proved EQUAL to the model's decode / encodeFlat / encodeJson for every input (codec_refines_source, no hypotheses); the branch tables (isinstance order, prefixes, slice offsets, safe argument, separators, BYTE_MARKER) are regenerated as well and the table-driven functions the Lean driver runs are proved equal to the hand model (tables_refine_model, tables_consistent). Correspondence on every check: encode, decode incl. a malformed stream, json.dumps/json.loads vs the concrete codec, reader frames under random chunkings, and real machines (BcpTransportManager, BcpInterface, BcpServer, BCPClientSocket on in-memory sockets) with 1-4 clients, interleaved chunked streams with payloads, unknown commands, clients connecting later / closing, and the sender path (events and direct sends of nested values read back by the real AsyncioBcpClientSocket).",
  "note": "Trusted: Lean kernel + {propext, Classical.choice, Quot.sound}; the interpreter Model/PyStr.lean and the meaning of its primitives (urllib.parse.quote/unquote/urlsplit/urlunparse as modelled byte-level functions, byte-level slices, ASCII lower()); CPython float repr round-trip (floats are carried as text; float() of a malformed text is not modelled); asyncio.StreamReader.readuntil/readexactly; read_message itself is hand-modelled (source-pinned, tied by correspondence). Known finding: a scalar parameter named 'bytes' collides with the payload marker.",
  "technique": "Lean 4 theorems (induction over byte lists / parameter lists / schedules / nested JSON values); Python-AST -> deep-embedding translator with refinement proofs gen = hand; differential correspondence with the real encoder/decoder/reader/transport manager/interface",
  "translated": True,
 }
RULE = ("cases: (a) command + parameter dict over str/int/float/bool/None (+ nested list/dict for the JSON branch, also compared "
        "with the model's concrete JSON codec), strings biased to %XX, type-like prefixes, separators, newlines, non-BMP; (b) raw "
        "query strings from a 12-symbol alphabet (malformed stream) decoded by implementation and model; (c) streams of 1-5 "
        "messages with optional byte payloads under random chunkings (down to single bytes); (d) real machines with 1-3 outgoing "
        "and optionally one incoming BCP client, 1-5 valid messages per client (registered commands with flat / JSON parameters, "
        "payloads, the same line repeated with the payload toggled, trigger -> event, unknown commands, a command answered with "
        "an error reply), every client's stream chunked at random and the chunks of all clients merged at random, optional clean "
        "close; (e) a client torn off in the middle of a line or payload (recorded, not judged); (f) sender: 1-6 sends of flat / "
        "nested parameters to one / all clients / through a registered trigger event, wire bytes read back by the real "
        "AsyncioBcpClientSocket under a random chunking; (g) lines below and above the stream reader's 64 KiB limit through the "
        "socket classes and a real machine; (h) objects json does not know (MpfJSONEncoder.default). non-trivial = the case "
        "contains a character outside the unreserved set, a typed/nested value, a payload, more than one chunk or more than one "
        "client; distinct = canonical JSON of the case")
TRUSTED = [
    "modelled, not verified: urllib.parse.quote/unquote/urlsplit/urlunparse (byte-level primitives of Model/PyStr.lean and "
    "Model/Bcp.lean), CPython float repr round-trip, asyncio.StreamReader.readuntil/readexactly, the event queue of the machine",
    "json.dumps/json.loads: concrete model (Model/BcpJson.lean) compared with CPython's json on every nested case; not modelled: "
    "non-str dict keys, NaN, int digit limit, recursion limit, duplicate keys",
    "translate/bcp_codec.py + the interpreter Model/PyStr.lean give decode_command_string / encode_command_string their meaning; "
    "read_message, BcpTransportManager and BcpInterface are hand-modelled (Model/Bcp.lean reader, Model/BcpMux.lean), "
    "source-pinned and tied by correspondence",
]
ASSUMPTIONS = ["parameter names are str; nested dict keys are str; no NaN; no lone surrogates (cannot be UTF-8 encoded)",
               "a parameter literally named 'bytes' collides with the wire protocol's payload marker (known finding)",
               "receiver-side cases send only well-formed messages whose parameters fit the registered callback (a missing / "
               "unexpected parameter, int:zz, a stream torn mid-message are outside the property and recorded as counters)"]

ALPHA = ["a", "%", "4", "1", ":", "&", "=", "i", "n", "t", "+", "?"]
NASTY = ["100%41", "int:5", "bool:true", "bool:False", "NoneType:", "float:x", "float:1.5", "%", "%4", "%zz", "a&b=c",
         "x&bytes=3", "&bytes=", "a=b", "?q", "#frag", "a\nb", "\r", "\t", " lead", "trail ", "+", "a+b", "%2B", "%25",
         "é", "中文", "\U0001F600", "", "json=", "json={}", "int:", "INT:5", "Bool:True", "nonetype:",
         "{\"a\": 1}", "[1, 2]", "\\", "\"", "'", "%E4%B8%AD", "\x00", "\x7f", "a;b", "a,b", "int:0x10", "float:nan"]


def gen_str(r):
    k = r.random()
    if k < 0.35:
        return r.choice(NASTY)
    if k < 0.7:
        return "".join(r.choice(ALPHA) for _ in range(r.randint(0, 8)))
    if k < 0.85:
        return r.choice(NASTY) + r.choice(NASTY)
    return "".join(chr(r.choice([r.randint(32, 126), r.randint(0, 0x2FF), r.randint(0x10000, 0x10FFF)]))
                   for _ in range(r.randint(0, 6)))


def gen_float(r):
    return r.choice([0.0, -0.0, 1.5, 2.0, -3.25, 1e22, 1e-7, 0.1, 1 / 3, 123456789.125, float("inf"), float("-inf"),
                     r.uniform(-1e6, 1e6), r.random()])


def gen_scalar(r):
    k = r.random()
    if k < 0.45:
        return gen_str(r)
    if k < 0.6:
        return r.choice([0, 1, -1, 7, 255, -(2 ** 63), 2 ** 70, r.randint(-10 ** 6, 10 ** 6)])
    if k < 0.72:
        return gen_float(r)
    if k < 0.86:
        return r.random() < 0.5
    return None


def gen_value(r, depth):
    if depth <= 0 or r.random() < 0.5:
        return gen_scalar(r)
    if r.random() < 0.5:
        return [gen_value(r, depth - 1) for _ in range(r.randint(0, 3))]
    return {gen_key(r, True): gen_value(r, depth - 1) for _ in range(r.randint(0, 3))}


def gen_key(r, nested=False):
    k = r.random()
    if k < 0.6:
        return r.choice(["name", "value", "x", "player_num", "a_b", "k1", "json", "bytes"] if nested else
                        ["name", "value", "x", "player_num", "a_b", "k1", "prev_value", "change"])
    if k < 0.8:
        return "".join(r.choice("abcxyz_019") for _ in range(r.randint(1, 6)))
    return gen_str(r) or "e"


def gen_kwargs(r, nested):
    kw = {}
    for _ in range(r.choice([0, 1, 1, 2, 2, 3, 4])):
        kw[gen_key(r)] = gen_value(r, 2) if nested else gen_scalar(r)
    if not nested and r.random() < 0.04:
        kw = dict([(r.choice(["json", "bytes"]), gen_scalar(r))] + list(kw.items()))
    if nested and not any(isinstance(v, (list, dict)) for v in kw.values()):
        kw[gen_key(r)] = [gen_value(r, 1)]
    return kw


def gen_cmd(r):
    return r.choice(["trigger", "play", "machine_variable", "player_added", "x", "mode_start", "a1_b"])


def typed(v):
    """value with its exact type, so 1 != True != 1.0 and '5' != 5"""
    if isinstance(v, bool):
        return ["bool", v]
    if isinstance(v, int):
        return ["int", str(v)]
    if isinstance(v, float):
        return ["float", repr(v)]
    if v is None:
        return ["none"]
    if isinstance(v, str):
        return ["str", v]
    if isinstance(v, bytes):
        return ["bytes", v.hex()]
    if isinstance(v, (list, tuple)):
        return ["list" if isinstance(v, list) else "tuple", [typed(x) for x in v]]
    if isinstance(v, dict):
        return ["dict", [[typed(k), typed(x)] for k, x in v.items()]]
    return ["other", repr(v)]


def classify(kw, nested):
    """Signature class of a failing round-trip case (for known_findings.json): which input class it belongs to."""
    keys = list(kw)
    if "bytes" in keys:
        return "reserved-key-bytes"
    return "roundtrip"


def is_nontrivial_kw(kw):
    def nt(v):
        if isinstance(v, str):
            return any(not (c.isalnum() and c.isascii()) and c not in "_.-~" for c in v)
        return True
    return any(nt(v) or nt(k) for k, v in kw.items())


def hexs(s):
    return s.encode("utf-8").hex() if s else "-"


def scalar_tokens(v):
    """line-protocol form of a scalar: <type> <hex payload>"""
    if isinstance(v, bool):
        return "b", "01" if v else "00"
    if isinstance(v, int):
        return "i", str(v).encode().hex()
    if isinstance(v, float):
        return "f", str(v).encode().hex()
    if v is None:
        return "n", "-"
    return "s", hexs(v)


def model_line_for_kwargs(cmd, kw):
    parts = ["enc", hexs(cmd), str(len(kw))]
    for k, v in kw.items():
        t, p = scalar_tokens(v)
        parts += [hexs(k), t, p]
    return " ".join(parts)


def canon_decoded(cmd, kw):
    """the model's canonical output format for a decoded flat message"""
    parts = [hexs(cmd), str(len(kw))]
    for k, v in kw.items():
        t, p = scalar_tokens(v)
        parts += [hexs(k), t, p]
    return "ok " + " ".join(parts)


def impl_funcs():
    from mpf.core.bcp import bcp_socket_client as m
    return m


def roundtrip_case(ctx, m, cmd, kw, nested):
    case = {"kind": "roundtrip", "cmd": cmd, "kwargs": typed(kw), "nested": nested}
    try:
        line = m.encode_command_string(cmd, **kw)
    except Exception as e:
        ctx.fail(classify(kw, nested), case, {"stage": "encode", "error": repr(e)})
        return None
    if "\n" in line:
        ctx.fail(classify(kw, nested), case, {"stage": "encode", "error": "raw newline in encoded line", "line": line})
        return line
    try:
        cmd2, kw2 = m.decode_command_string(line)
    except Exception as e:
        ctx.fail(classify(kw, nested), case, {"stage": "decode", "line": line, "error": repr(e)})
        return line
    if cmd2 != cmd or typed(kw2) != typed(kw):
        ctx.fail(classify(kw, nested), case, {"stage": "compare", "line": line, "got": [cmd2, typed(kw2)]})
    return line


class ChunkFeeder:
    """Feeds chunks into a real StreamReader while the real read_message coroutine consumes them."""

    def __init__(self, m, which):
        self.loop = asyncio.new_event_loop()
        self.reader = asyncio.StreamReader(loop=self.loop)
        self.frames = []
        if which == "asyncio":
            self.client = m.AsyncioBcpClientSocket(None, self.reader)
            orig = m.AsyncioBcpClientSocket._process_command

            def spy(message, rawbytes=None, _o=orig):
                self.frames.append([message.hex(), (rawbytes or b"").hex()])
                return _o(message, rawbytes)
            self.client._process_command = spy
        else:
            self.client = m.BCPClientSocket.__new__(m.BCPClientSocket)
            self.client._receiver = self.reader
            self.client._debug = False
            self.client._bcp_client_socket_commands = {}
            orig = self.client._process_command

            def spy(message, rawbytes=None, _o=orig):
                self.frames.append([message.hex(), (rawbytes or b"").hex()])
                return _o(message, rawbytes)
            self.client._process_command = spy

    def run(self, chunks, eof_first=False):
        """eof_first: the peer has sent everything and closed before the reader task gets to run (all chunks and EOF are in the
        StreamReader before the first read): every complete message must still be delivered, then EOF ends the loop"""
        out = []
        err = None
        if eof_first:
            async def consume_all():
                while True:
                    out.append(await self.client.read_message())

            async def drive_eof():
                nonlocal err
                for c in chunks:
                    self.reader.feed_data(c)
                self.reader.feed_eof()
                try:
                    await consume_all()
                except BrokenPipeError:
                    pass                      # the connection is closed: the expected end
                except Exception as e:        # noqa
                    err = repr(e)
            self.loop.run_until_complete(drive_eof())
            self.loop.close()
            return out, err

        async def consume():
            while True:
                out.append(await self.client.read_message())

        async def drive():
            nonlocal err
            t = self.loop.create_task(consume())
            for c in chunks:
                self.reader.feed_data(c)
                for _ in range(3):
                    await asyncio.sleep(0)
                if t.done():
                    break
            for _ in range(3):
                await asyncio.sleep(0)
            if t.done():
                err = repr(t.exception())
            else:
                t.cancel()
                try:
                    await t
                except asyncio.CancelledError:
                    pass
        self.loop.run_until_complete(drive())
        self.loop.close()
        return out, err


def chunkings(r, data, n):
    res = [[data], [bytes([b]) for b in data]]
    for _ in range(n):
        cuts = sorted(r.sample(range(1, len(data)), min(len(data) - 1, r.randint(1, 6)))) if len(data) > 1 else []
        res.append([data[i:j] for i, j in zip([0] + cuts, cuts + [len(data)])])
    return res


def stream_case(ctx, m, r, model, fixed=None):
    msgs = list(fixed or [])
    for _ in range(0 if fixed else r.randint(1, 5)):
        nested = r.random() < 0.3
        kw = gen_kwargs(r, nested)
        kw.pop("rawbytes", None)
        if nested:
            kw.pop("bytes", None)
        payload = None
        if r.random() < 0.4:
            payload = bytes(r.choice([10, 13, 38, 0, 255, 98, 61, r.randint(0, 255)]) for _ in range(r.randint(1, 12)))
        msgs.append((gen_cmd(r), kw, payload))
    data = b""
    expected = []
    for cmd, kw, payload in msgs:
        try:
            line = m.encode_command_string(cmd, **kw)
        except Exception:
            return
        if payload is not None:
            line += "&bytes=%d" % len(payload)
        data += line.encode() + b"\n" + (payload or b"")
        exp = dict(kw)
        if payload:
            exp["rawbytes"] = payload
        expected.append([cmd, typed(exp)])
    which = r.choice(["asyncio", "mpf"])
    results = []
    for chunks in chunkings(r, data, 3):
        fd = ChunkFeeder(m, which)
        out, err = fd.run(chunks)
        got = [[c, typed(k)] for c, k in out]
        results.append((chunks, got, err, fd.frames))
    # the same stream with the peer's close already fed before the first read (only complete messages are sent here)
    fd = ChunkFeeder(m, which)
    out, err = fd.run(chunkings(r, data, 1)[-1], eof_first=True)
    results.append(([data, b"<eof-before-first-read>"], [[c, typed(k)] for c, k in out], err, fd.frames))
    ctx.count("stream_eof_before_first_read")
    case = {"kind": "stream", "client": which, "expected": expected, "data": data.hex()}
    ctx.count("stream_msgs", len(msgs))
    ctx.count("stream_payloads", sum(1 for x in msgs if x[2] is not None))
    ctx.evaluated(case, True)
    one = results[0]
    reserved = any("bytes" in kw for _, kw, _ in msgs)
    for chunks, got, err, frames in results:
        if err is not None or got != expected:
            sig = "reserved-key-bytes" if reserved else ("stream-roundtrip" if got == one[1] else "chunking")
            ctx.fail(sig, dict(case, chunks=[c.hex() for c in chunks]), {"got": got, "error": err})
            return
        if got != one[1]:
            ctx.fail("chunking", dict(case, chunks=[c.hex() for c in chunks]), {"got": got, "one_chunk": one[1]})
            return
    if model is not None:
        for chunks, got, err, frames in results[:3]:
            model.ask("reset")
            mframes = []
            for c in chunks:
                ans = model.ask("feed " + (c.hex() or "-"))
                if ans != "ok":
                    for fr in ans.split(" ")[1:]:
                        a, b = fr.split("/")
                        mframes.append([a if a != "-" else "", b if b != "-" else ""])
            ctx.compare(dict(case, chunks=[c.hex() for c in chunks], what="reader frames"), frames, mframes)


def malformed_case(ctx, m, r, model):
    q = "".join(r.choice(ALPHA) for _ in range(r.randint(0, 10)))
    line = r.choice(["c", "trigger"]) + "?" + q
    case = {"kind": "decode-raw", "line": line}
    try:
        cmd, kw = m.decode_command_string(line)
        if any("\ufffd" in str(x) for kv in kw.items() for x in kv):
            # %XX sequences that are not valid UTF-8: Python substitutes U+FFFD; the byte-level model has no such notion
            ctx.count("skipped_invalid_utf8")
            return
        impl = canon_decoded(cmd, kw)
    except (ValueError, json.JSONDecodeError):
        impl = "error"
    except Exception as e:
        impl = "crash " + type(e).__name__
    ctx.evaluated(case, True, sample=False)
    ctx.count("decode_raw")
    if model is not None:
        ans = model.ask("dec " + hexs(line))
        ctx.compare(case, impl, ans)



# ------------------------------------------------------------------------------------------------------------------------------
# receiver side through the real BcpTransportManager / BcpInterface of a real machine, sender side through the real
# BcpInterface / BcpTransportManager / BCPClientSocket.send

RESERVED_KEYS = ("client", "rawbytes", "bytes", "json")
TRIGGER_RESERVED = ("name", "callback", "event", "priority", "queue", "_from_bcp")


def clean_kwargs(kw, extra=()):
    return {k: v for k, v in kw.items() if k not in RESERVED_KEYS and k not in extra}


def gen_messages(r, client_no):
    """valid messages for one client: (kind, cmd, kwargs, payload)"""
    msgs = []
    for j in range(r.randint(1, 5)):
        k = r.random()
        if msgs and k < 0.25:
            # the same line again, payload toggled: a receiver that shares decoded kwargs between equal lines leaks rawbytes
            kind, cmd, kw, payload = msgs[-1]
            if kind in ("rec", "trigger"):
                payload = None if payload is not None else bytes(r.choice([10, 38, 0, 255, 61, r.randint(0, 255)])
                                                                 for _ in range(r.randint(1, 9)))
            msgs.append((kind, cmd, dict(kw), payload))
            continue
        nested = r.random() < 0.3
        payload = None
        if r.random() < 0.35:
            payload = bytes(r.choice([10, 13, 38, 0, 255, 98, 61, r.randint(0, 255)]) for _ in range(r.randint(1, 12)))
        if k < 0.6:
            msgs.append(("rec", r.choice(["rec", "rec2"]), clean_kwargs(gen_kwargs(r, nested)), payload))
        elif k < 0.8:
            kw = clean_kwargs(gen_kwargs(r, nested), TRIGGER_RESERVED)
            kw = {kk: v for kk, v in kw.items() if kk.isidentifier()}
            kw["name"] = "c19_ev_%d" % r.randint(0, 2)
            kw["src"] = client_no
            msgs.append(("trigger", "trigger", kw, None))
        elif k < 0.9:
            msgs.append(("unknown", "nope_%d" % r.randint(0, 3), clean_kwargs(gen_kwargs(r, False)), None))
        else:
            msgs.append(("error-reply", "monitor_start", {"category": "bogus_%d" % r.randint(0, 9)}, None))
    return msgs


def wire_of(m, msgs):
    data = b""
    for kind, cmd, kw, payload in msgs:
        line = m.encode_command_string(cmd, **kw)
        if payload is not None:
            line += "&bytes=%d" % len(payload)
        data += line.encode() + b"\n" + (payload or b"")
    return data


def random_chunks(r, data, single=True):
    if len(data) <= 1 or r.random() < 0.15:
        return [data] if data else []
    if single and r.random() < 0.1:
        return [bytes([b]) for b in data]
    cuts = sorted(r.sample(range(1, len(data)), min(len(data) - 1, r.randint(1, 7))))
    return [data[i:j] for i, j in zip([0] + cuts, cuts + [len(data)])]


def expected_dispatch(msgs):
    exp = []
    for kind, cmd, kw, payload in msgs:
        if kind in ("rec", "trigger"):
            e = dict(kw)
            if payload:
                e["rawbytes"] = payload
            exp.append([cmd, typed(e)])
    return exp


def run_dispatch(m, spec):
    """Drive a real machine.  spec: {"n_out", "clients": {name: {"msgs"|"data", "chunks": [hex]}}, "sched": [[name, i]],
    "incoming_at": step or None, "close": {name: "clean"|"mid-line"|"mid-payload"}} -> observations"""
    from harness.common.bcp_c19 import BcpMachine
    bm = BcpMachine(spec["n_out"]).start()
    try:
        logs = {}
        frames = {}

        def log_for(client):
            return logs.setdefault(client, [])

        names = {}

        def name_of(client):
            return names.get(id(client), client.name)

        async def rec(client, **kw):
            log_for(name_of(client)).append(["rec", typed(kw)])

        async def rec2(client, **kw):
            log_for(name_of(client)).append(["rec2", typed(kw)])
        bm.machine.bcp.interface.register_command_callback("rec", rec)
        bm.machine.bcp.interface.register_command_callback("rec2", rec2)
        order = spec["order"]
        events = {}
        orig_trigger = bm.machine.bcp.interface.bcp_receive_commands["trigger"]

        async def trigger_spy(client, **kw):
            log_for(name_of(client)).append(["trigger", typed(kw)])
            return await orig_trigger(client=client, **kw)
        bm.machine.bcp.interface.bcp_receive_commands["trigger"] = trigger_spy

        def on_event(ev):
            def h(**kwargs):
                kw = dict(kwargs)
                kw.pop("_from_bcp", None)
                src = kw.get("src")
                kw["name"] = ev
                events.setdefault(order[src] if isinstance(src, int) and 0 <= src < len(order) else "?", []).append(
                    ["trigger", typed(kw)])
            return h
        for i in range(3):
            bm.machine.events.add_handler("c19_ev_%d" % i, on_event("c19_ev_%d" % i))

        def spy_on(client, label):
            orig = client._process_command
            fl = frames.setdefault(label, [])

            def spy(message, rawbytes=None, _o=orig):
                fl.append([message.hex(), (rawbytes or b"").hex()])
                return _o(message, rawbytes)
            client._process_command = spy
        for i in range(spec["n_out"]):
            spy_on(bm.client(bm.name(i)), bm.name(i))
            bm.sent(bm.name(i))
        crashed = None
        for step, (name, idx) in enumerate(spec["sched"]):
            if name == "in0" and "in0" not in bm.socks:
                cl, label = bm.connect_incoming()
                names[id(cl)] = label
                spy_on(cl, label)
            bm.socks[name].recv_queue.append(bytes.fromhex(spec["clients"][name]["chunks"][idx]))
            if spec["run_after"][step]:
                crashed = bm.run()
                if crashed is not None:
                    break
        if crashed is None:
            crashed = bm.run()
        closed = {}
        for name, how in (spec.get("close") or {}).items():
            if crashed is not None or name not in bm.socks:
                break
            bm.close(name)
            crashed = bm.run()
            closed[name] = [c.name for c in bm.machine.bcp.transport.get_all_clients()]
        replies = {n: bm.sent(n).decode("utf-8", "replace") for n in bm.socks}
        return {"logs": logs, "events": events, "frames": frames, "crash": repr(crashed) if crashed is not None else None,
                "loop_errors": list(bm.loop_errors), "replies": replies, "closed": closed,
                "registered": [names.get(id(c), c.name) for c in (bm.machine.bcp.transport.get_all_clients() if bm.machine else [])]}
    finally:
        bm.stop()


def gen_dispatch_spec(m, r):
    n_out = r.choice([1, 2, 2, 3])
    from harness.common.bcp_c19 import BcpMachine
    order = [BcpMachine.name(i) for i in range(n_out)]
    if r.random() < 0.35:
        order.append("in0")
    clients = {}
    msgs_of = {}
    for no, name in enumerate(order):
        msgs = gen_messages(r, no)
        msgs_of[name] = msgs
        data = wire_of(m, msgs)
        clients[name] = {"data": data.hex(), "chunks": [c.hex() for c in random_chunks(r, data)]}
    # a random merge of the clients' chunk lists
    pos = {n: 0 for n in order}
    sched = []
    live = [n for n in order if clients[n]["chunks"]]
    while live:
        n = r.choice(live)
        sched.append([n, pos[n]])
        pos[n] += 1
        if pos[n] == len(clients[n]["chunks"]):
            live.remove(n)
    run_after = [r.random() < 0.7 for _ in sched]
    close = {}
    if r.random() < 0.3:
        close[r.choice(order)] = "clean"
    spec = {"n_out": n_out, "order": order, "clients": clients, "sched": sched, "run_after": run_after, "close": close}
    return spec, msgs_of


def dispatch_case(ctx, m, r, model):
    spec, msgs_of = gen_dispatch_spec(m, r)
    expected = {n: expected_dispatch(ms) for n, ms in msgs_of.items()}
    case = {"kind": "dispatch", "spec": spec, "expected": expected}
    ctx.evaluated(case, True)
    ctx.count("dispatch_clients", len(spec["order"]))
    for ms in msgs_of.values():
        for kind, cmd, kw, payload in ms:
            ctx.count("dispatch_msg_" + kind)
            if payload is not None:
                ctx.count("dispatch_payloads")
    if "in0" in spec["order"]:
        ctx.count("dispatch_incoming_client")
    obs = run_dispatch(m, spec)
    check_dispatch(ctx, case, obs)
    # observed, outside the property: the reply to a bogus monitor category
    for n, ms in msgs_of.items():
        for kind, cmd, kw, payload in ms:
            if kind == "error-reply":
                ctx.count("error_reply_seen" if ("error?cmd=monitor_start" in obs["replies"].get(n, "")) else "error_reply_missing")
    for n, how in spec["close"].items():
        if n in obs["closed"]:
            ctx.count("closed_client_unregistered" if n not in obs["closed"][n] and (n != "in0") else "closed_client_other")
    if model is not None and obs["crash"] is None:
        for n in spec["order"]:
            model.ask("reset")
            mframes = []
            for c in spec["clients"][n]["chunks"]:
                ans = model.ask("feed " + (c or "-"))
                if ans != "ok":
                    for fr in ans.split(" ")[1:]:
                        a, b = fr.split("/")
                        mframes.append([a if a != "-" else "", b if b != "-" else ""])
            ctx.compare({"kind": "dispatch", "client": n, "chunks": spec["clients"][n]["chunks"], "what": "frames of one client"},
                        obs["frames"].get(n, []), mframes)


def check_dispatch(ctx, case, obs):
    """the property on the receiver side: every client's messages are dispatched completely, in the order sent, with
    exactly the parameters sent and the payload only on the message that carried it - whatever the chunking and the
    interleaving with other clients"""
    expected = case["expected"]
    if obs["crash"] is not None or obs["loop_errors"]:
        ctx.fail("dispatch-crash", case, {"crash": obs["crash"], "loop_errors": obs["loop_errors"][:3]})
        return False
    for n, exp in expected.items():
        got = obs["logs"].get(n, [])
        if got != exp:
            ctx.fail("dispatch-order" if sorted(map(repr, got)) == sorted(map(repr, exp)) else "dispatch", case,
                     {"client": n, "got": got, "expected": exp})
            return False
        # the events posted by the dispatched `trigger` commands reach their handlers in the same order, same parameters
        exp_ev = [[c, ["dict", sorted(k[1], key=repr)]] for c, k in exp if c == "trigger"]
        got_ev = [[c, ["dict", sorted(k[1], key=repr)]] for c, k in obs["events"].get(n, [])]
        if got_ev != exp_ev:
            ctx.fail("dispatch-order" if sorted(map(repr, got_ev)) == sorted(map(repr, exp_ev)) else "dispatch", case,
                     {"client": n, "events": got_ev, "expected": exp_ev})
            return False
    stray = [n for n in obs["logs"] if n not in expected and obs["logs"][n]]
    if stray:
        ctx.fail("dispatch", case, {"stray": {n: obs["logs"][n] for n in stray}})
        return False
    return True


def disconnect_case(ctx, m, r):
    """a client whose connection ends in the middle of a message.  The property quantifies over splittings of complete
    streams, so what happens to the torn message is recorded, not judged; the messages BEFORE the tear must have been
    dispatched in order (they were sent completely)."""
    from harness.common.bcp_c19 import BcpMachine
    msgs = [x for x in gen_messages(r, 1) if x[0] == "rec"] or [("rec", "rec", {"a": "b"}, None)]
    data = wire_of(m, msgs)
    torn_kind = r.choice(["mid-line", "mid-payload"])
    if torn_kind == "mid-line":
        tail = b"rec?torn=value_not_complete"
        tail = tail[:r.randint(1, len(tail) - 1)]
    else:
        tail = b"rec?torn=1&bytes=9\n" + b"abcdefghi"[:r.randint(0, 8)]
    spec = {"n_out": 2, "order": ["local_display", "c1"],
            "clients": {"c1": {"data": (data + tail).hex(), "chunks": [c.hex() for c in random_chunks(r, data + tail)]}},
            "sched": [], "run_after": [], "close": {"c1": torn_kind}}
    spec["sched"] = [["c1", i] for i in range(len(spec["clients"]["c1"]["chunks"]))]
    spec["run_after"] = [True] * len(spec["sched"])
    case = {"kind": "disconnect", "spec": spec, "expected": {"c1": expected_dispatch(msgs)}}
    ctx.evaluated(case, True)
    ctx.count("disconnect_" + torn_kind)
    obs = run_dispatch(m, spec)
    got = obs["logs"].get("c1", [])
    exp = case["expected"]["c1"]
    if got[:len(exp)] != exp:
        ctx.fail("dispatch", case, {"client": "c1", "got": got, "expected_prefix": exp})
        return
    if len(got) > len(exp):
        ctx.count("observed_outside_property_torn_line_dispatched_as_command")
    if obs["crash"] is not None or obs["loop_errors"]:
        ctx.count("observed_outside_property_torn_message_kills_receiver")
    else:
        ctx.count("torn_message_no_crash")


def run_sender(m, ops):
    """ops: [how, target, cmd, typed kwargs] -> (crash, wire bytes per client, expected messages per client)"""
    from harness.common.bcp_c19 import BcpMachine
    bm = BcpMachine(2).start()
    try:
        names = ["local_display", "c1"]
        expected = {n: [] for n in names}
        # c1 asks for an event by BCP; the event is then posted inside MPF with generated parameters
        bm.socks["c1"].recv_queue.append(b"register_trigger?event=c19_out\n")
        crash = bm.run()
        for how, target, cmd, tkw, run_after in ops:
            kw = untyped(tkw)
            if how == "event":
                bm.machine.events.post("c19_out", **kw)
                expected["c1"].append(["trigger", typed(dict([("name", "c19_out")] + list(kw.items())))])
            elif how == "all":
                bm.machine.bcp.transport.send_to_all_clients(cmd, **kw)
                for n in names:
                    expected[n].append([cmd, typed(kw)])
            else:
                bm.machine.bcp.transport.send_to_client(bm.client(target), cmd, **kw)
                expected[target].append([cmd, typed(kw)])
            if how == "event" or run_after:      # a posted event is handled by the event queue, not at once
                crash = crash or bm.run()
        crash = crash or bm.run()
        wire = {n: bm.sent(n) for n in names}
    finally:
        bm.stop()
    return crash, wire, expected


def sender_case(ctx, m, r, model):
    """MPF -> remote: values handed to the real BcpInterface / BcpTransportManager / BCPClientSocket.send, read back from the
    socket by the real AsyncioBcpClientSocket under a random chunking"""
    ops = []
    for j in range(r.randint(1, 6)):
        nested = r.random() < 0.4
        kw = clean_kwargs(gen_kwargs(r, nested), TRIGGER_RESERVED)
        kw = {k: v for k, v in kw.items() if k.isidentifier()}
        ops.append([r.choice(["client", "all", "event"]), r.choice(["local_display", "c1"]), gen_cmd(r), typed(kw),
                    r.random() < 0.5])
    crash, wire, expected = run_sender(m, ops)
    case = {"kind": "sender", "ops": ops, "expected": expected}
    ctx.evaluated(case, True)
    ctx.count("sender_msgs", len(ops))
    if crash is not None:
        ctx.fail("sender-crash", case, {"crash": repr(crash)})
        return
    check_sender(ctx, m, r, dict(case, wire={n: w.hex() for n, w in wire.items()}))


def check_sender(ctx, m, r, case):
    for n, exp in case["expected"].items():
        data = bytes.fromhex(case["wire"][n])
        chunks = random_chunks(r, data) if r is not None else [data]
        fd = ChunkFeeder(m, "asyncio")
        out, err = fd.run(chunks)
        got = [[c, typed(k)] for c, k in out]
        if err is not None or not got or got[0][0] != "hello":
            ctx.fail("sender", case, {"client": n, "error": err, "got": got[:3], "what": "hello is not the first message"})
            return False
        if got[1:] != exp:
            ctx.fail("sender", case, {"client": n, "got": got[1:], "expected": exp})
            return False
        if data.count(b"\n") != len(got):
            ctx.fail("sender", case, {"client": n, "what": "more lines on the wire than messages", "lines": data.count(b"\n")})
            return False
    return True


LONG_LIMIT = 2 ** 16     # asyncio.StreamReader's default buffer limit (what open_connection / start_server give MPF)


def long_line_case(ctx, m, r, model):
    """one parameter value long enough that the encoded line exceeds the stream reader's default limit; through the real
    reader of the socket client classes and through a real machine's transport manager"""
    n = r.choice([LONG_LIMIT - 200, LONG_LIMIT + 1, LONG_LIMIT * 2 + 5, 3 * LONG_LIMIT])
    case = {"kind": "long-line", "client": r.choice(["asyncio", "mpf"]), "value_len": n, "filler": r.choice(["x", "y%", "ab"])}
    ctx.evaluated(case, True)
    long_line_run(ctx, m, r, case)


def long_line_run(ctx, m, r, case):
    n, filler, which = case["value_len"], case["filler"], case["client"]
    kw = {"a": 1, "v": (filler * n)[:n], "z": None}
    msgs = [("rec", {"first": "1"}, None), ("rec2", kw, None), ("rec", {"k": "v"}, bytes([10, 38, 1]))]
    data = b""
    expected = []
    for cmd, k, payload in msgs:
        line = m.encode_command_string(cmd, **k)
        if payload is not None:
            line += "&bytes=%d" % len(payload)
        data += line.encode() + b"\n" + (payload or b"")
        e = dict(k)
        if payload:
            e["rawbytes"] = payload
        expected.append([cmd, typed(e)])
    ctx.count("long_line_over_limit" if len(data) > LONG_LIMIT else "long_line_under_limit")
    sig = "line-longer-than-reader-limit" if len(data) > LONG_LIMIT else "stream-roundtrip"
    for chunks in ([data], random_chunks(r, data, False) if r is not None else [data[:70000], data[70000:]]):
        fd = ChunkFeeder(m, which)
        out, err = fd.run([c for c in chunks if c])
        got = [[c, typed(k)] for c, k in out]
        if err is not None or got != expected:
            ctx.fail(sig, case, {"error": err, "delivered": [g[0] for g in got], "expected": [e[0] for e in expected]})
            return
    # the same stream through a real machine: socket -> BCPClientSocket -> BcpTransportManager -> BcpInterface
    chunks = random_chunks(r, data, False) if r is not None else [data]
    spec = {"n_out": 1, "order": ["local_display"], "clients": {"local_display": {"data": "", "chunks": [c.hex() for c in chunks]}},
            "sched": [["local_display", i] for i in range(len(chunks))],
            "run_after": [r is None or r.random() < 0.7 for _ in chunks], "close": {}}
    obs = run_dispatch(m, spec)
    got = obs["logs"].get("local_display", [])
    if obs["crash"] is not None or obs["loop_errors"] or got != expected:
        ctx.fail(sig, dict(case, machine=True),
                 {"crash": obs["crash"], "delivered": [g[0] for g in got], "expected": [e[0] for e in expected]})


# ------------------------------------------------------------------------------------------------------------------------------
# the concrete JSON codec of the model (Model/BcpJson.lean) against json.dumps(cls=MpfJSONEncoder) / json.loads


def tree_tokens(v):
    """prefix token form of a JSON-able value for the Lean driver (see Model/BcpJson.lean parseTree)"""
    if v is None:
        return ["N"]
    if isinstance(v, bool):
        return ["T" if v else "F"]
    if isinstance(v, int):
        return ["I%d" % v]
    if isinstance(v, float):
        return ["D" + json.dumps(v).encode().hex()]
    if isinstance(v, str):
        return ["S" + ("".join("%06x" % ord(c) for c in v) or "-")]
    if isinstance(v, (list, tuple)):
        out = ["A%d" % len(v)]
        for x in v:
            out += tree_tokens(x)
        return out
    if isinstance(v, dict):
        out = ["O%d" % len(v)]
        for k, x in v.items():
            if not isinstance(k, str):
                raise InfraError("non-str key in a generated dict")
            out += tree_tokens(k) + tree_tokens(x)
        return out
    raise InfraError("no tree form for %r" % (v,))


def has_float_special(v):
    if isinstance(v, float):
        return v != v
    if isinstance(v, (list, tuple)):
        return any(has_float_special(x) for x in v)
    if isinstance(v, dict):
        return any(has_float_special(x) for x in v.values())
    return False


def json_case(ctx, m, model, kw):
    """model jenc == json.dumps(kw, cls=MpfJSONEncoder); model jdec of that text == tree of json.loads"""
    if model is None or has_float_special(kw):
        return
    text = json.dumps(kw, cls=m.MpfJSONEncoder)
    toks = " ".join(tree_tokens(kw))
    case = {"kind": "json", "value": typed(kw)}
    ctx.count("json_codec")
    ctx.compare(dict(case, what="json.dumps"), "ok " + text.encode().hex(), model.ask("jenc " + toks))
    back = json.loads(text)
    ctx.compare(dict(case, what="json.loads"), "ok " + " ".join(tree_tokens(back)), model.ask("jdec " + text.encode().hex()))


class Opaque:
    """an object json does not know: MpfJSONEncoder.default turns it into str(o)"""

    def __init__(self, text):
        self.text = text

    def __str__(self):
        return self.text


def opaque_case(ctx, m, r, model):
    """a nested value containing an object json does not know: it is sent as str(o) (MpfJSONEncoder.default) and arrives as
    that string - recorded and compared with the model's jencOther, not judged (not one of the property's value types)"""
    text = gen_str(r)
    kw = {"a": [Opaque(text), 1], "b": gen_scalar(r)}
    case = {"kind": "opaque", "text": text, "b": typed(kw["b"])}
    ctx.evaluated(case, True, sample=False)
    try:
        line = m.encode_command_string("t", **kw)
        cmd, back = m.decode_command_string(line)
    except Exception as e:
        ctx.count("observed_outside_property_opaque_object_" + type(e).__name__)
        return
    ctx.count("opaque_object_arrives_as_its_str" if back["a"][0] == text else "observed_outside_property_opaque_object_differs")
    if model is not None and not has_float_special(kw["b"]):
        want = dict(kw, a=[text, 1])
        ctx.compare(dict(case, what="MpfJSONEncoder.default"), "ok " + json.dumps(kw, cls=m.MpfJSONEncoder).encode().hex(),
                    model.ask("jenc " + " ".join(tree_tokens(want))))


def run(ctx):
    m = impl_funcs()
    model = None if getattr(ctx, "model_unavailable", False) else leanproc.LeanProc(ID)
    try:
        # corpus first
        r = ctx.rng("corpus")
        for s in NASTY:
            for kw in ({"v": s}, {"a": 1, "v": s, "z": None}, {"v": [s]}, {"v": {"k": s}}):
                nested = any(isinstance(x, (list, dict)) for x in kw.values())
                one_case(ctx, m, model, "trigger", kw, nested)
        # exhaustive sub-space in thorough: every string of length <= 4 over a 10-symbol alphabet, alone and nested once
        if ctx.tier == "thorough" and not ctx.search:
            import itertools
            alpha = ["a", "%", "4", "1", ":", "&", "=", "i", "n", "t"]
            n = 0
            for L in range(0, 5):
                for tup in itertools.product(alpha, repeat=L):
                    s = "".join(tup)
                    one_case(ctx, m, model, "t", {"v": s}, False, sample=False)
                    one_case(ctx, m, None, "t", {"v": [s]}, True, sample=False)
                    n += 1
            ctx.notes["exhaustive_subspace"] = "all %d strings of length<=4 over %s, as a value alone and nested in a list" % (n, "".join(alpha))
        for i in range(ctx.n(1500, 20000)):
            r = ctx.rng("rt", i)
            nested = r.random() < 0.3
            one_case(ctx, m, model, gen_cmd(r), gen_kwargs(r, nested), nested)
        for i in range(ctx.n(600, 8000)):
            malformed_case(ctx, m, ctx.rng("mal", i), model)
        for i in range(ctx.n(60, 600)):
            opaque_case(ctx, m, ctx.rng("opaque", i), model)
        # the recorded finding's witness (Props/C19.lean reserved_key_bytes_witness), replayed on the real reader
        stream_case(ctx, m, ctx.rng("witness"), model,
                    fixed=[("t", {"a": "b", "bytes": "12"}, None), ("trigger", {"name": "after_it"}, None)])
        for i in range(ctx.n(150, 2500)):
            stream_case(ctx, m, ctx.rng("stream", i), model)
        for i in range(ctx.n(300, 3000)):
            dispatch_case(ctx, m, ctx.rng("dispatch", i), model)
        for i in range(ctx.n(60, 500)):
            disconnect_case(ctx, m, ctx.rng("disconnect", i))
        for i in range(ctx.n(150, 1500)):
            sender_case(ctx, m, ctx.rng("sender", i), model)
        for i in range(ctx.n(4, 24)):
            long_line_case(ctx, m, ctx.rng("long", i), model)
    finally:
        if model is not None:
            model.close()


def one_case(ctx, m, model, cmd, kw, nested, sample=True):
    case = {"kind": "roundtrip", "cmd": cmd, "kwargs": typed(kw), "nested": nested}
    ctx.evaluated(case, is_nontrivial_kw(kw) or nested, sample=sample)
    ctx.count("json_branch" if nested else "flat_branch")
    for v in kw.values():
        ctx.count("val_" + typed(v)[0])
    line = roundtrip_case(ctx, m, cmd, kw, nested)
    if nested and line is not None:
        json_case(ctx, m, model, kw)
    if model is not None and line is not None and not nested and kw and next(iter(kw)) != "json":
        ans = model.ask(model_line_for_kwargs(cmd, kw))
        ctx.compare(dict(case, what="encode"), "ok " + hexs(line), ans)
        ans = model.ask("dec " + hexs(line))
        try:
            c2, k2 = m.decode_command_string(line)
            impl = canon_decoded(c2, k2)
        except Exception as e:
            impl = "error"
        ctx.compare(dict(case, what="decode"), impl, ans)


def untyped(t):
    k = t[0]
    if k == "bool":
        return t[1]
    if k == "int":
        return int(t[1])
    if k == "float":
        return float(t[1])
    if k == "none":
        return None
    if k == "str":
        return t[1]
    if k == "bytes":
        return bytes.fromhex(t[1])
    if k == "list":
        return [untyped(x) for x in t[1]]
    if k == "tuple":
        return tuple(untyped(x) for x in t[1])
    if k == "dict":
        return {untyped(a): untyped(b) for a, b in t[1]}
    raise InfraError("bad typed value %r" % (t,))


def replay(ctx, rep):
    m = impl_funcs()
    case = rep["case"]
    if case["kind"] == "roundtrip":
        roundtrip_case(ctx, m, case["cmd"], untyped(case["kwargs"]), case["nested"])
    elif case["kind"] == "dispatch":
        check_dispatch(ctx, case, run_dispatch(m, case["spec"]))
    elif case["kind"] == "disconnect":
        obs = run_dispatch(m, case["spec"])
        exp = case["expected"]["c1"]
        if obs["logs"].get("c1", [])[:len(exp)] != exp:
            ctx.fail("dispatch", case, {"got": obs["logs"].get("c1", [])})
    elif case["kind"] == "sender":
        crash, wire, expected = run_sender(m, case["ops"])
        if crash is not None:
            ctx.fail("sender-crash", case, {"crash": repr(crash)})
        else:
            check_sender(ctx, m, None, dict(case, expected=expected, wire={n: w.hex() for n, w in wire.items()}))
    elif case["kind"] == "long-line":
        long_line_run(ctx, m, None, case)
    elif case["kind"] == "stream":
        data = bytes.fromhex(case["data"])
        chunks = [bytes.fromhex(c) for c in case.get("chunks", [case["data"]])]
        for ch in ([data], chunks):
            fd = ChunkFeeder(m, case["client"])
            out, err = fd.run(ch)
            got = [[c, typed(k)] for c, k in out]
            if err is not None or got != case["expected"]:
                ctx.fail("stream-roundtrip", case, {"got": got, "error": err})
                return
