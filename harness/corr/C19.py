"""C19 - BCP messages round-trip exactly and reassemble from any chunking.

Implementation side: the real encode_command_string / decode_command_string and the real read_message of both socket
client classes on an asyncio.StreamReader fed generated chunkings.
Model side: MpfVerif.Model.Bcp (byte-level encode/decode/reader) over the line protocol.
Oracle (model independent): decode(encode(cmd, kw)) == (cmd, kw) with identical types; chunked stream == message list.
"""
import asyncio
import json
import math

from harness.common import leanproc
from harness.common.util import InfraError

ID = "C19"
LEAN_MODULES = ["MpfVerif.Props.C19"]
PROPS_FILE = "MpfVerif/Props/C19.lean"
GEN = []
MANIFEST = {
  "text": "Proof on a byte-level Lean model of the BCP encoder, decoder and receiver: decode(encode cmd kw) = (cmd, kw) for every command and every list of distinct scalar parameters over arbitrary byte strings (incl. %XX, type-like prefixes, separators), ints, float texts, bools, None; the JSON branch hands the encoder's JSON text unchanged to the parser (abstract codec); the receiver's frames depend only on the byte sequence (any chunking) and every frame list is delivered completely and in order. The model is tied to bcp_socket_client.py by a correspondence run (encode, decode incl. a malformed stream, reader frames under random chunkings) on every check.",
  "note": "Trusted: Lean kernel + {propext, Classical.choice, Quot.sound}; the hand-written model Model/Bcp.lean (validated only by differential runs); urllib.parse.quote/unquote/urlsplit, json, float repr and asyncio.StreamReader are modelled, not verified. Known finding: a scalar parameter named 'bytes' collides with the payload marker.",
  "technique": "Lean 4 theorems (induction over byte lists / parameter lists) on a hand model + differential correspondence with the real encoder/decoder/reader",
 }
RULE = ("cases: (a) command + parameter dict over str/int/float/bool/None (+ nested list/dict for the JSON branch), strings "
        "biased to %XX, type-like prefixes, separators, newlines, non-BMP; (b) raw query strings from a 12-symbol alphabet "
        "(malformed stream) decoded by implementation and model; (c) streams of 1-5 messages with optional byte payloads "
        "under random chunkings (down to single bytes). non-trivial = the case contains a character outside the unreserved "
        "set, a typed/nested value, a payload, or more than one chunk; distinct = canonical JSON of the case")
TRUSTED = [
    "modelled, not verified: urllib.parse.quote/unquote/urlsplit/urlunparse, json.dumps/json.loads (abstract codec with "
    "dec(enc v)=v and no raw newline as hypotheses), CPython float repr round-trip, asyncio.StreamReader.readline/readexactly",
    "Model/Bcp.lean is hand-written; tied to mpf/core/bcp/bcp_socket_client.py by correspondence on every run",
]
ASSUMPTIONS = ["parameter names are str; nested dict keys are str; no NaN; no lone surrogates (cannot be UTF-8 encoded)",
               "a parameter literally named 'bytes' collides with the wire protocol's payload marker (known finding)"]

ALPHA = ["a", "%", "4", "1", ":", "&", "=", "i", "n", "t", "+", "?"]
NASTY = ["100%41", "int:5", "bool:true", "bool:False", "NoneType:", "float:x", "float:1.5", "%", "%4", "%zz", "a&b=c",
         "x&bytes=3", "&bytes=", "a=b", "?q", "#frag", "a\nb", "\r", "\t", " lead", "trail ", "+", "a+b", "%2B", "%25",
         "é", "中文", "\U0001F600", "", "json=", "json={}", "int:", "INT:5", "Bool:True", "nonetype:",
         "{\"a\": 1}", "[1, 2]", "\\", "\"", "'", "%E4%B8%AD", "\x00", "\x7f", "a;b", "a,b", "int:0x10", "float:nan"]


def gen_str(r):
    k = r.random()
    if k < 0.35:
        return r.choice(NASTY)
    if k < 0.7:
        return "".join(r.choice(ALPHA) for _ in range(r.randint(0, 8)))
    if k < 0.85:
        return r.choice(NASTY) + r.choice(NASTY)
    return "".join(chr(r.choice([r.randint(32, 126), r.randint(0, 0x2FF), r.randint(0x10000, 0x10FFF)]))
                   for _ in range(r.randint(0, 6)))


def gen_float(r):
    return r.choice([0.0, -0.0, 1.5, 2.0, -3.25, 1e22, 1e-7, 0.1, 1 / 3, 123456789.125, float("inf"), float("-inf"),
                     r.uniform(-1e6, 1e6), r.random()])


def gen_scalar(r):
    k = r.random()
    if k < 0.45:
        return gen_str(r)
    if k < 0.6:
        return r.choice([0, 1, -1, 7, 255, -(2 ** 63), 2 ** 70, r.randint(-10 ** 6, 10 ** 6)])
    if k < 0.72:
        return gen_float(r)
    if k < 0.86:
        return r.random() < 0.5
    return None


def gen_value(r, depth):
    if depth <= 0 or r.random() < 0.5:
        return gen_scalar(r)
    if r.random() < 0.5:
        return [gen_value(r, depth - 1) for _ in range(r.randint(0, 3))]
    return {gen_key(r, True): gen_value(r, depth - 1) for _ in range(r.randint(0, 3))}


def gen_key(r, nested=False):
    k = r.random()
    if k < 0.6:
        return r.choice(["name", "value", "x", "player_num", "a_b", "k1", "json", "bytes"] if nested else
                        ["name", "value", "x", "player_num", "a_b", "k1", "prev_value", "change"])
    if k < 0.8:
        return "".join(r.choice("abcxyz_019") for _ in range(r.randint(1, 6)))
    return gen_str(r) or "e"


def gen_kwargs(r, nested):
    kw = {}
    for _ in range(r.choice([0, 1, 1, 2, 2, 3, 4])):
        kw[gen_key(r)] = gen_value(r, 2) if nested else gen_scalar(r)
    if not nested and r.random() < 0.04:
        kw = dict([(r.choice(["json", "bytes"]), gen_scalar(r))] + list(kw.items()))
    if nested and not any(isinstance(v, (list, dict)) for v in kw.values()):
        kw[gen_key(r)] = [gen_value(r, 1)]
    return kw


def gen_cmd(r):
    return r.choice(["trigger", "play", "machine_variable", "player_added", "x", "mode_start", "a1_b"])


def typed(v):
    """value with its exact type, so 1 != True != 1.0 and '5' != 5"""
    if isinstance(v, bool):
        return ["bool", v]
    if isinstance(v, int):
        return ["int", str(v)]
    if isinstance(v, float):
        return ["float", repr(v)]
    if v is None:
        return ["none"]
    if isinstance(v, str):
        return ["str", v]
    if isinstance(v, bytes):
        return ["bytes", v.hex()]
    if isinstance(v, (list, tuple)):
        return ["list" if isinstance(v, list) else "tuple", [typed(x) for x in v]]
    if isinstance(v, dict):
        return ["dict", [[typed(k), typed(x)] for k, x in v.items()]]
    return ["other", repr(v)]


def classify(kw, nested):
    """Signature class of a failing round-trip case (for known_findings.json): which input class it belongs to."""
    keys = list(kw)
    if "bytes" in keys:
        return "reserved-key-bytes"
    return "roundtrip"


def is_nontrivial_kw(kw):
    def nt(v):
        if isinstance(v, str):
            return any(not (c.isalnum() and c.isascii()) and c not in "_.-~" for c in v)
        return True
    return any(nt(v) or nt(k) for k, v in kw.items())


def hexs(s):
    return s.encode("utf-8").hex() if s else "-"


def scalar_tokens(v):
    """line-protocol form of a scalar: <type> <hex payload>"""
    if isinstance(v, bool):
        return "b", "01" if v else "00"
    if isinstance(v, int):
        return "i", str(v).encode().hex()
    if isinstance(v, float):
        return "f", str(v).encode().hex()
    if v is None:
        return "n", "-"
    return "s", hexs(v)


def model_line_for_kwargs(cmd, kw):
    parts = ["enc", hexs(cmd), str(len(kw))]
    for k, v in kw.items():
        t, p = scalar_tokens(v)
        parts += [hexs(k), t, p]
    return " ".join(parts)


def canon_decoded(cmd, kw):
    """the model's canonical output format for a decoded flat message"""
    parts = [hexs(cmd), str(len(kw))]
    for k, v in kw.items():
        t, p = scalar_tokens(v)
        parts += [hexs(k), t, p]
    return "ok " + " ".join(parts)


def impl_funcs():
    from mpf.core.bcp import bcp_socket_client as m
    return m


def roundtrip_case(ctx, m, cmd, kw, nested):
    case = {"kind": "roundtrip", "cmd": cmd, "kwargs": typed(kw), "nested": nested}
    try:
        line = m.encode_command_string(cmd, **kw)
    except Exception as e:
        ctx.fail(classify(kw, nested), case, {"stage": "encode", "error": repr(e)})
        return None
    if "\n" in line:
        ctx.fail(classify(kw, nested), case, {"stage": "encode", "error": "raw newline in encoded line", "line": line})
        return line
    try:
        cmd2, kw2 = m.decode_command_string(line)
    except Exception as e:
        ctx.fail(classify(kw, nested), case, {"stage": "decode", "line": line, "error": repr(e)})
        return line
    if cmd2 != cmd or typed(kw2) != typed(kw):
        ctx.fail(classify(kw, nested), case, {"stage": "compare", "line": line, "got": [cmd2, typed(kw2)]})
    return line


class ChunkFeeder:
    """Feeds chunks into a real StreamReader while the real read_message coroutine consumes them."""

    def __init__(self, m, which):
        self.loop = asyncio.new_event_loop()
        self.reader = asyncio.StreamReader(loop=self.loop)
        self.frames = []
        if which == "asyncio":
            self.client = m.AsyncioBcpClientSocket(None, self.reader)
            orig = m.AsyncioBcpClientSocket._process_command

            def spy(message, rawbytes=None, _o=orig):
                self.frames.append([message.hex(), (rawbytes or b"").hex()])
                return _o(message, rawbytes)
            self.client._process_command = spy
        else:
            self.client = m.BCPClientSocket.__new__(m.BCPClientSocket)
            self.client._receiver = self.reader
            self.client._debug = False
            self.client._bcp_client_socket_commands = {}
            orig = self.client._process_command

            def spy(message, rawbytes=None, _o=orig):
                self.frames.append([message.hex(), (rawbytes or b"").hex()])
                return _o(message, rawbytes)
            self.client._process_command = spy

    def run(self, chunks):
        out = []
        err = None

        async def consume():
            while True:
                out.append(await self.client.read_message())

        async def drive():
            nonlocal err
            t = self.loop.create_task(consume())
            for c in chunks:
                self.reader.feed_data(c)
                for _ in range(3):
                    await asyncio.sleep(0)
                if t.done():
                    break
            for _ in range(3):
                await asyncio.sleep(0)
            if t.done():
                err = repr(t.exception())
            else:
                t.cancel()
                try:
                    await t
                except asyncio.CancelledError:
                    pass
        self.loop.run_until_complete(drive())
        self.loop.close()
        return out, err


def chunkings(r, data, n):
    res = [[data], [bytes([b]) for b in data]]
    for _ in range(n):
        cuts = sorted(r.sample(range(1, len(data)), min(len(data) - 1, r.randint(1, 6)))) if len(data) > 1 else []
        res.append([data[i:j] for i, j in zip([0] + cuts, cuts + [len(data)])])
    return res


def stream_case(ctx, m, r, model, fixed=None):
    msgs = list(fixed or [])
    for _ in range(0 if fixed else r.randint(1, 5)):
        nested = r.random() < 0.3
        kw = gen_kwargs(r, nested)
        kw.pop("rawbytes", None)
        if nested:
            kw.pop("bytes", None)
        payload = None
        if r.random() < 0.4:
            payload = bytes(r.choice([10, 13, 38, 0, 255, 98, 61, r.randint(0, 255)]) for _ in range(r.randint(1, 12)))
        msgs.append((gen_cmd(r), kw, payload))
    data = b""
    expected = []
    for cmd, kw, payload in msgs:
        try:
            line = m.encode_command_string(cmd, **kw)
        except Exception:
            return
        if payload is not None:
            line += "&bytes=%d" % len(payload)
        data += line.encode() + b"\n" + (payload or b"")
        exp = dict(kw)
        if payload:
            exp["rawbytes"] = payload
        expected.append([cmd, typed(exp)])
    which = r.choice(["asyncio", "mpf"])
    results = []
    for chunks in chunkings(r, data, 3):
        fd = ChunkFeeder(m, which)
        out, err = fd.run(chunks)
        got = [[c, typed(k)] for c, k in out]
        results.append((chunks, got, err, fd.frames))
    case = {"kind": "stream", "client": which, "expected": expected, "data": data.hex()}
    ctx.count("stream_msgs", len(msgs))
    ctx.count("stream_payloads", sum(1 for x in msgs if x[2] is not None))
    ctx.evaluated(case, True)
    one = results[0]
    reserved = any("bytes" in kw for _, kw, _ in msgs)
    for chunks, got, err, frames in results:
        if err is not None or got != expected:
            sig = "reserved-key-bytes" if reserved else ("stream-roundtrip" if got == one[1] else "chunking")
            ctx.fail(sig, dict(case, chunks=[c.hex() for c in chunks]), {"got": got, "error": err})
            return
        if got != one[1]:
            ctx.fail("chunking", dict(case, chunks=[c.hex() for c in chunks]), {"got": got, "one_chunk": one[1]})
            return
    if model is not None:
        for chunks, got, err, frames in results[:3]:
            model.ask("reset")
            mframes = []
            for c in chunks:
                ans = model.ask("feed " + (c.hex() or "-"))
                if ans != "ok":
                    for fr in ans.split(" ")[1:]:
                        a, b = fr.split("/")
                        mframes.append([a if a != "-" else "", b if b != "-" else ""])
            ctx.compare(dict(case, chunks=[c.hex() for c in chunks], what="reader frames"), frames, mframes)


def malformed_case(ctx, m, r, model):
    q = "".join(r.choice(ALPHA) for _ in range(r.randint(0, 10)))
    line = r.choice(["c", "trigger"]) + "?" + q
    case = {"kind": "decode-raw", "line": line}
    try:
        cmd, kw = m.decode_command_string(line)
        if any("\ufffd" in str(x) for kv in kw.items() for x in kv):
            # %XX sequences that are not valid UTF-8: Python substitutes U+FFFD; the byte-level model has no such notion
            ctx.count("skipped_invalid_utf8")
            return
        impl = canon_decoded(cmd, kw)
    except (ValueError, json.JSONDecodeError):
        impl = "error"
    except Exception as e:
        impl = "crash " + type(e).__name__
    ctx.evaluated(case, True, sample=False)
    ctx.count("decode_raw")
    if model is not None:
        ans = model.ask("dec " + hexs(line))
        ctx.compare(case, impl, ans)


def run(ctx):
    m = impl_funcs()
    model = None if getattr(ctx, "model_unavailable", False) else leanproc.LeanProc(ID)
    try:
        # corpus first
        r = ctx.rng("corpus")
        for s in NASTY:
            for kw in ({"v": s}, {"a": 1, "v": s, "z": None}, {"v": [s]}, {"v": {"k": s}}):
                nested = any(isinstance(x, (list, dict)) for x in kw.values())
                one_case(ctx, m, model, "trigger", kw, nested)
        # exhaustive sub-space in thorough: every string of length <= 4 over a 10-symbol alphabet, alone and nested once
        if ctx.tier == "thorough" and not ctx.search:
            import itertools
            alpha = ["a", "%", "4", "1", ":", "&", "=", "i", "n", "t"]
            n = 0
            for L in range(0, 5):
                for tup in itertools.product(alpha, repeat=L):
                    s = "".join(tup)
                    one_case(ctx, m, model, "t", {"v": s}, False, sample=False)
                    one_case(ctx, m, None, "t", {"v": [s]}, True, sample=False)
                    n += 1
            ctx.notes["exhaustive_subspace"] = "all %d strings of length<=4 over %s, as a value alone and nested in a list" % (n, "".join(alpha))
        for i in range(ctx.n(1500, 20000)):
            r = ctx.rng("rt", i)
            nested = r.random() < 0.3
            one_case(ctx, m, model, gen_cmd(r), gen_kwargs(r, nested), nested)
        for i in range(ctx.n(600, 8000)):
            malformed_case(ctx, m, ctx.rng("mal", i), model)
        # the recorded finding's witness (Props/C19.lean reserved_key_bytes_witness), replayed on the real reader
        stream_case(ctx, m, ctx.rng("witness"), model,
                    fixed=[("t", {"a": "b", "bytes": "12"}, None), ("trigger", {"name": "after_it"}, None)])
        for i in range(ctx.n(150, 2500)):
            stream_case(ctx, m, ctx.rng("stream", i), model)
    finally:
        if model is not None:
            model.close()


def one_case(ctx, m, model, cmd, kw, nested, sample=True):
    case = {"kind": "roundtrip", "cmd": cmd, "kwargs": typed(kw), "nested": nested}
    ctx.evaluated(case, is_nontrivial_kw(kw) or nested, sample=sample)
    ctx.count("json_branch" if nested else "flat_branch")
    for v in kw.values():
        ctx.count("val_" + typed(v)[0])
    line = roundtrip_case(ctx, m, cmd, kw, nested)
    if model is not None and line is not None and not nested and kw and next(iter(kw)) != "json":
        ans = model.ask(model_line_for_kwargs(cmd, kw))
        ctx.compare(dict(case, what="encode"), "ok " + hexs(line), ans)
        ans = model.ask("dec " + hexs(line))
        try:
            c2, k2 = m.decode_command_string(line)
            impl = canon_decoded(c2, k2)
        except Exception as e:
            impl = "error"
        ctx.compare(dict(case, what="decode"), impl, ans)


def untyped(t):
    k = t[0]
    if k == "bool":
        return t[1]
    if k == "int":
        return int(t[1])
    if k == "float":
        return float(t[1])
    if k == "none":
        return None
    if k == "str":
        return t[1]
    if k == "bytes":
        return bytes.fromhex(t[1])
    if k == "list":
        return [untyped(x) for x in t[1]]
    if k == "tuple":
        return tuple(untyped(x) for x in t[1])
    if k == "dict":
        return {untyped(a): untyped(b) for a, b in t[1]}
    raise InfraError("bad typed value %r" % (t,))


def replay(ctx, rep):
    m = impl_funcs()
    case = rep["case"]
    if case["kind"] == "roundtrip":
        roundtrip_case(ctx, m, case["cmd"], untyped(case["kwargs"]), case["nested"])
    elif case["kind"] == "stream":
        data = bytes.fromhex(case["data"])
        chunks = [bytes.fromhex(c) for c in case.get("chunks", [case["data"]])]
        for ch in ([data], chunks):
            fd = ChunkFeeder(m, case["client"])
            out, err = fd.run(ch)
            got = [[c, typed(k)] for c, k in out]
            if err is not None or got != case["expected"]:
                ctx.fail("stream-roundtrip", case, {"got": got, "error": err})
                return
