"""C09 - Light hardware output equals the priority stack's colour.

Implementation side: real `Light` devices in a real machine (virtual time, 1 tick = 1/8 s), four lights per case driven
by the same generated command history: RGB and single-channel on the virtual platform (`VirtualLight` stores the fade:
the *direct* back end) and RGB and single-channel on `platform: drivers` (`DriverLight(LightPlatformSoftwareFade)`
stepping real `Driver`s whose platform driver objects are wrapped to log enable/disable(power): the *software-faded*
back end).  A third machine variant carries a batched test platform (lights deriving from the real `PlatformBatchLight`,
a real `PlatformBatchLightSystem` with an async callback that yields).
Model side: MpfVerif.Model.Light (stack, logical colour, hardware target with suppression, fade-out timers, software
fade tasks).  Scheduler choices (which fade-out delay fires / which channel's task steps first at one instant) are taken
from the implementation's log and fed to the model, which answers `not-enabled` if it does not allow them.
Oracle (model independent): see `oracle_*` below.
"""
import json

from harness.common import leanproc
from harness.common.shrink import ddmin
from harness.common.util import InfraError
from harness.common.vmachine import VMachine, BootError

ID = "C09"
LEAN_MODULES = ["MpfVerif.Props.C09"]
PROPS_FILE = "MpfVerif/Props/C09.lean"
GEN = []
MANIFEST = {
  "text": "Proof on a Lean model of the light priority stack (mpf/devices/light.py), its hardware-target computation with both suppression shortcuts, the fade-out delays, the brightness factor, the colour-correction lookup, default_on_color scaling of Light.on(), the RGBW channel mapping (min_rgb / duck_rgb / white_only), and the fade stepping of LightPlatformDirectFade both as software fade (max_fade_ms = 0) and on hardware that fades by itself (max_fade_ms > 0): for every sequence of color/on/off/remove/clear commands, delay firings and clock advances the stack stays strictly sorted by (priority, key) with unique keys; the logical colour is that of the top entry, interpolated with exact integer arithmetic and never outside its endpoints; a new fading entry starts from the colour of the entries that do not sort above it; removing a key (or all keys) restores exactly the stack without it (off when empty); the last hardware target colour sent always equals the target of the current stack (so the suppression shortcuts never lose an update) and equals the logical colour once all fades and fade-outs are over; on the device as a whole (stack + brightness factor + correction table + channel mapping + fade channels, any configuration, any history of commands, delay firings, clock advances and task resumptions) the latest set_fade command of every hardware channel targets the channel value of the CORRECTED target colour of the current stack although the shortcuts compare uncorrected colours with the remembered last target - whatever coincidences there are between a new colour and the corrected or uncorrected value of an earlier one - and hence at rest the brightness last commanded to every channel is the corrected logical colour; a channel has at most one live stepping task, it belongs to the latest command, and when none is live the last commanded brightness is the latest command's target; the stepping task of LightPlatformDirectFade._fade with any max_fade_ms hands over only pairs of the latest command, within the hardware's maximum fade and on the logical fade line, the last one carrying the target and exactly the remaining time, while set_fade as the code is starts that task only when (target_time - now)/1000.0 exceeds max_fade_ms and otherwise hands the target over at once (so the at-rest clause holds on hardware-fading lights; that the hardware is told to jump - D30 - is outside the property and only counted); the RGBW mapping keeps all four channels in 0..255 and white plus channel reproduces the colour; brightness is monotone, never brightens and maps black to black; and, on a model of PlatformBatchLightSystem (dirty set swapped out by the sender, awaited update callback, re-scheduling of running fades, hardware fades up to max_fade_ms with the target cache as the code has it (a repeated update answers fade 0 - D31, outside the property, only counted), grouping into lists of successive channels bounded by batch size and fade tolerance), for every interleaving of set_fade commands with scheduler iterations, sender computations and callback starts/completions no dirty light is ever lost, every dirty light of a round is handed to the callback exactly once whatever the grouping, the grouping function returns every queued light exactly once in lists of successive channels within the batch size, and at rest the platform has received the target brightness of every light's latest fade. The models are tied to the real Light on the direct (VirtualLight), software-faded (DriverLight on real Drivers), hardware-fading direct (a test light deriving from the real LightPlatformDirectFade with max_fade_ms > 0) and batched (real PlatformBatchLightSystem, with and without hardware fades, batch sizes 1..16, extra lights with their own commands) back ends by a correspondence run on every check, with a model-independent oracle that states what C09 states (logical colour = top entry, interpolated within its endpoints; remove restores, clear turns off; a fade-out entry stays in the stack until the end of the LATEST fade-out of its key - the remove_fade_<key> delay is re-armed when a key is faded out, set again and faded out again inside the first window (directed re-fade sequences, observed every tick between the two end times) - and while the fade-out of the top key over a stack at rest runs undisturbed the logical colour is on the line from the removed colour to the one beneath; at rest the last commanded brightness of every channel on every back end equals the corrected logical colour); the transient hardware output (pairs on the logical line, start brightness of interrupted fades, exactly-once and sequential lists per round) is compared with the model and counted as observations, not required.",
  "note": "Trusted: Lean kernel + {propext, Classical.choice, Quot.sound}; the hand-written models Model/Light.lean and Model/BatchLight.lean (validated only by differential runs); float interpolation in the implementation is compared (exact on the 1/8 s grid for the stack, 1e-9 for channel brightness), not proved; the colour-correction profile enters the model as its 3x256 lookup table (the float generator generate_from_parameters is not modelled; whether the configured table is monotone is only observed and counted); the brightness factor is modelled for the quarter values 0.25..1.0; is_successor_of is modelled as 'next channel number' (the test platform's definition); the batch system's poll sleep is abstracted (a round may start whenever something is dirty); the device-level theorems (channel_target_is_corrected_stack_target, corrected_output_at_rest) are about drun/dstep in Lemmas/LightDev.lean, which dispatch exactly as the Lean driver's driverStep does on parsed lines (same DSt.apply / stepTask calls; the string parsing itself is not part of the statement); the generator takes the correction table from a real light of a machine booted with the generated config; FASTLEDChannel's own copy of get_fade_and_brightness and the hardware platforms' serial encodings of (brightness, fade) are not exercised.",
  "technique": "Lean 4 theorems (invariants by induction over all operation sequences) on a hand model + differential correspondence with real Light devices on five real back ends + hardware-output oracle",
  "translated": False,
 }
RULE = ("a case = a machine variant (update rate 8/4/2 Hz, with or without a colour correction profile, brightness factor "
        "1.0/0.75/0.5/0.25, one of three default_on_colors, hardware maximum fade 2/8/100 ticks for the hardware-fading direct "
        "lights and 0/2/8/100 ticks for the batched lights, batch size 1/2/3/5/16) and a history of "
        "4-14 commands (color with fade 0..16 ticks incl. non-dyadic, priorities 0..3 biased to ties, keys ''/a..d, "
        "explicit past start_time; Light.on(brightness) / Light.off(); remove with/without fade-out; clear; an add-then-remove "
        "probe; bursts inside one callback; blocks of coincidences aimed at the suppression shortcuts of _schedule_update: "
        "chains X -> corrected(X) -> corrected(corrected(X)) (and reversed) computed from the lights' own correction table "
        "and brightness factor, as the new colour of the same key or of a key on top, the earlier command instant / its "
        "fade finished / just ending / running; the same colour re-issued under another key or priority; a fade to the "
        "colour already shown and a fade whose target equals its start; the same command twice at one instant (one callback "
        "or two) and again after a remove/clear; removal of a key whose colour equals the one beneath; 40% of the cases start with two or three keys removed with overlapping fade-outs "
        "(inside each other's window, same instant, exactly at a window's end) followed by a lower-priority fade; 12% start with (and further histories contain) a re-fade block: a key faded out, set "
        "again inside the fade-out's window (same callback, same instant, 1..window-1 ticks later) and faded out a second (third) "
        "time before the first fade-out's end - the second one ending later than, with, or before the first - optionally with a "
        "command of another key between the two ends, sampled every tick between the two ends and after both) at gaps of "
        "0..20 ticks biased to land inside running fades, on fade ends and on fade-out ends, applied "
        "to 7 real lights (RGB/single x direct/software-faded/hardware-fading, plus an RGBW light in one of the three white "
        "styles), and in a second stream to RGB/single lights on a batched test platform (real PlatformBatchLightSystem, slow "
        "awaited callback, three extra single-channel lights at channel numbers adjacent / not adjacent to the others with "
        "up to 6 commands of their own) whose marks, takes, scheduler iterations, computations and callback starts/ends are "
        "replayed on the batch model, which also re-derives the grouping of every round; every tick the logical colour, the "
        "stack and the channel state are compared with the model.  non-trivial = the history has a command landing inside a "
        "running fade or a fade-out, or a same-priority tie, or a refused lower-priority re-issue; distinct = canonical JSON "
        "of the case")
TRUSTED = [
    "modelled, not verified: float arithmetic of RGBColor.blend / the fade ratio (exact for the generated grid), list.sort "
    "on distinct (priority, key), DelayManager/asyncio timers (their firing order at one instant is taken from the run), "
    "Driver.enable/disable between DriverLight and the wrapped platform driver, SortedSet/SortedList of the batch system",
    "Model/Light.lean is hand-written; tied to mpf/devices/light.py, light_platform_interface.py, driver_light_platform.py, "
    "virtual.py by correspondence on every run; Model/BatchLight.lean tied to platform_batch_light_system.py the same way",
    "the hardware-fading direct light and the batched lights are test subclasses of the real LightPlatformDirectFade / "
    "PlatformBatchLight that only record what the hardware is told; the hardware itself (how a controller interpolates a "
    "(brightness, fade) command) is not modelled",
]
ASSUMPTIONS = ["priorities are non-negative ints, keys are str, colours are RGB triples 0..255; times on the 1/8 s grid",
               "the colour correction is a per-component lookup table; brightness factor in {0.25, 0.5, 0.75, 1.0}; "
               "default_on_color * (brightness / 255) is generated only where the float product is exact",
               "hardware maximum fades are whole ticks, so int()/round() of millisecond values are exact; batched lights' "
               "is_successor_of means 'next channel number'"]

TICK = 0.125
KEYS = ["", "a", "b", "c", "d", "zz"]
COLORS = [(255, 0, 0), (0, 255, 0), (0, 0, 255), (255, 255, 255), (0, 0, 0), (100, 100, 100), (230, 25, 7), (1, 2, 3),
          (254, 128, 127), (50, 200, 50)]
LIGHTS = [("d3", 3, "direct"), ("d1", 1, "direct"), ("s3", 3, "soft"), ("s1", 1, "soft"), ("w4", 4, "rgbw"),
          ("h3", 3, "hwdirect"), ("h1", 1, "hwdirect")]
STYLES = ["min_rgb", "duck_rgb", "white_only"]
ON_COLORS = [(255, 255, 255), (255, 200, 100), (128, 64, 50)]      # int(x * (b / 255)) is exact for these components
ON_BRIGHTNESS = [255, 128, 0, 1, 77, 200, 254, 64]
ORDER = {1: ["white"], 3: ["red", "green", "blue"], 4: ["red", "green", "blue", "white"]}
BATCH_LIGHTS = [("b3", 3, "batch"), ("b1", 1, "batch")]


def config_yaml(hz, profile, batch=False, rgbw="duck_rgb", onc=(255, 255, 255)):
    s = ("mpf:\n  default_light_hw_update_hz: %d\n  rgbw_white_behavior: %s\n  platforms:\n"
         "    hwfadetest: harness.common.c09_hwfade.HwFadePlatform\n" % (hz, rgbw))
    s += "hardware:\n  platform: virtual, hwfadetest\n"
    on = "%02x%02x%02x" % tuple(onc)
    if profile:
        s += ("light_settings:\n  default_color_correction_profile: p1\n  color_correction_profiles:\n    p1:\n"
              "      gamma: 2.0\n      whitepoint: [0.9, 0.8, 1.0]\n      linear_slope: 0.75\n      linear_cutoff: 0.1\n")
    s += "coils:\n"
    for i in range(1, 5):
        s += "  c%d: {number: %d, allow_enable: true, max_hold_power: 1.0}\n" % (i, i)
    s += ("lights:\n  d3: {number: 1, subtype: led, default_on_color: ON}\n"
          "  d1: {number: 2, subtype: matrix, default_on_color: ON}\n"
          "  s1: {number: c1, subtype: matrix, platform: drivers, default_on_color: ON}\n"
          "  s3:\n    type: rgb\n    default_on_color: ON\n    channels:\n      red: {number: c2, platform: drivers}\n"
          "      green: {number: c3, platform: drivers}\n      blue: {number: c4, platform: drivers}\n"
          "  w4:\n    type: rgbw\n    default_on_color: ON\n    channels:\n      red: {number: 31}\n      green: {number: 32}\n"
          "      blue: {number: 33}\n      white: {number: 34}\n"
          "  h3: {number: 40, subtype: led, platform: hwfadetest, default_on_color: ON}\n"
          "  h1: {number: 50, subtype: matrix, platform: hwfadetest, default_on_color: ON}\n").replace("ON", '"%s"' % on)
    return s


# ---------------------------------------------------------------------------------------------------------------------
# case generation
# ---------------------------------------------------------------------------------------------------------------------

def gen_overlap(r, ops):
    """two or three keys set, then removed with fade-outs that overlap (the second/third removal lands inside the
    previous fade-out window, at its start, or exactly at its end), then a later lower-priority fade"""
    keys = r.sample(KEYS[:5], r.choice([2, 2, 3]))
    prios = [r.choice([0, 1, 1, 2, 3]) for _ in keys]
    for k, p in zip(keys, prios):
        ops.append([r.choice([0, 0, 1]), "color", list(r.choice(COLORS)), r.choice([0, 0, 2]), p, k, 0])
    ops.append([r.choice([0, 1, 3]), "remove", keys[0], r.choice([2, 4, 4, 8, 12])])
    window = ops[-1][3]
    for k in keys[1:]:
        gap = r.choice([0, 0, 1, 1, 2, max(window - 1, 0), window])
        fade = r.choice([1, 2, 4, 8, 16])
        ops.append([gap, "remove", k, fade])
        window = max(window - gap, fade)
    k = r.random()
    if k < 0.5:
        ops.append([r.choice([0, 1, window, window + 2, window + 6]), "color", list(r.choice(COLORS)), r.choice([0, 4, 8]),
                    r.choice([0, 0, 1]), r.choice(KEYS[:5]), 0])
    return window


FADE_OUTS = [1, 2, 3, 4, 5, 8, 12, 16]


def blk_refade(r, dt):
    """a key faded out (F1), set again inside the fade-out's window and faded out a second time (F2) before the first
    fade-out's end: the `remove_fade_<key>` delay has to be re-armed (delay.reset), the second fade-out entry lives until ITS
    end (later or earlier than the first one's), and is observed every tick between the two ends and after both; sometimes
    a third round, a command of another key between the two ends, or the second removal exactly at the first end"""
    k = r.choice(KEYS[:5])
    pk = r.choice([1, 2, 3, 3])
    out = []
    d = dt
    if r.random() < 0.8:
        kb = r.choice([x for x in KEYS[:5] if x != k])
        out.append([d, "color", list(r.choice(COLORS)), 0, r.choice([0, 0, pk - 1, pk if kb < k else pk - 1]), kb, 0])
        d = 0
    ck = list(r.choice([c for c in COLORS if list(c) != (out[-1][2] if out else None)]))
    out.append([d, "color", ck, r.choice([0, 0, 0, 2]), pk, k, 0])
    f1 = r.choice([2, 4, 4, 8, 8, 12, 16])
    out.append([r.choice([0, 1, 3]), "remove", k, f1])
    left = f1                      # ticks until the pending (first) delay would fire
    for _ in range(r.choice([1, 1, 1, 2])):
        g1 = r.choice([0, 0, 1, 1, 2, max(left - 2, 0), max(left - 1, 0), -1])
        g1 = min(g1, max(left - 1, 0))
        c2 = ck if r.random() < 0.6 else list(r.choice(COLORS))
        out.append([g1, "color", c2, r.choice([0, 0, 0, 1, 2]), r.choice([pk, pk, pk, min(pk + 1, 3)]), k, 0])
        left -= max(g1, 0)
        g2 = r.choice([0, 1, 1, 2, max(left - 1, 0), max(left - 1, 0), left, -1])
        g2 = min(g2, left)
        left -= max(g2, 0)
        # mostly ending after the first fade-out's end (the stale delay would cut it short), sometimes before it
        # (durations of the set the other generators use: the float ratio of the code is exact for them on this grid)
        later = [x for x in FADE_OUTS if x > left] or [16]
        f2 = r.choice(later + later + [16] + [x for x in FADE_OUTS if x <= left][-2:])
        out.append([g2, "remove", k, f2])
        if r.random() < 0.3 and 0 < left < f2:
            # something else happens between the two ends
            ko = r.choice([x for x in KEYS[:5] if x != k])
            gap = r.choice([left, left, left + 1])
            gap = min(gap, f2 - 1)
            out.append([gap, "color", list(r.choice(COLORS)), r.choice([0, 0, 2]), r.choice([0, 0, 1]), ko, 0])
            f2 -= gap
        left = f2
    return out, left


def on_color(onc, b):
    """`default_on_color * (brightness / 255)`: exact integer arithmetic (the float product is exact for ON_COLORS)"""
    return [min(x * b // 255, 255) for x in onc]


# colours for the coincidence blocks: bright enough that the single-channel lights (min of the components) see them too
XS = [(255, 255, 255), (100, 100, 100), (254, 128, 127), (50, 200, 50), (230, 25, 7), (200, 120, 60), (255, 0, 0),
      (128, 128, 128), (64, 255, 192)]
_TABLE = None


def correction_table():
    """the 3 x 256 lookup table of the colour correction profile the generated machines configure (p1), read from a real
    light of a real machine booted with that config: the generator needs it to produce colours that are the corrected
    image of another colour on exactly these lights"""
    global _TABLE
    if _TABLE is None:
        try:
            vm = VMachine(config_yaml(8, True), platform=None).start()
        except BootError as e:
            raise InfraError("C09 machine does not boot: %s" % e)
        try:
            prof = vm.machine.lights["d3"]._color_correction_profile
            if prof is None:
                raise InfraError("no colour correction profile on d3")
            _TABLE = [list(prof._lookup_table[i]) for i in range(3)]
        finally:
            vm.stop()
    return _TABLE


def corr_image(c, profile, q, table):
    """what a light with brightness factor q/4 and (if `profile`) the correction table sends for the colour c"""
    c = list(c)
    if q != 4:
        c = [x * q // 4 for x in c]
    if profile:
        c = [table[i][c[i]] for i in range(3)]
    return c


def blk_corrected_chain(r, dt, cim):
    """X, then corrected(X) [, then corrected(corrected(X)) ...] as the new colour of the same key / of a key on top,
    the earlier command instant, its fade finished, just ending, or still running"""
    cand = [x for x in XS if cim(x) != list(x) and cim(cim(x)) != cim(x)] or [x for x in XS if cim(x) != list(x)] or XS
    x = list(r.choice(cand))
    if r.random() < 0.25:
        x = [r.randrange(16, 256) for _ in range(3)]
    if r.random() < 0.6:
        p, key = 3, "d"           # sorts above everything the generator uses
    else:
        p, key = r.choice([0, 1, 1, 2, 3]), r.choice(KEYS[:5])
    f = r.choice([0, 0, 0, 2, 4])
    links = r.choice([1, 2, 2, 3])
    chain = [x]
    for _ in range(links):
        chain.append(cim(chain[-1]))
    if r.random() < 0.3:
        chain.reverse()           # ... or the other way round: every new colour is a colour whose corrected image is shown
    out = [[dt, "color", chain[0], f, p, key, 0]]
    for y in chain[1:]:
        gap = r.choice([f + 1, f + 1, f + 2, f + 5, f, f - 1]) if f else r.choice([0, 0, 1, 1, 3, 8, -1])
        how = r.random()
        if how < 0.65:
            p2, k2 = p, key
        elif how < 0.85:
            p2, k2 = min(p + 1, 3), r.choice(KEYS[:5])
        else:
            p2, k2 = r.choice([0, 1, 2, 3]), r.choice(KEYS[:5])
        f = r.choice([0, 0, 0, 0, 2, 4])
        out.append([gap, "color", y, f, p2, k2, 0])
        p, key = p2, k2
    return out


def blk_same_colour(r, dt):
    """the same colour re-issued under another key / priority (or the same key): a fade to the colour already shown, a fade
    whose target equals its start; then the removal of a key whose colour equals the one beneath"""
    x = list(r.choice(XS + COLORS))
    p = r.choice([0, 1, 2])
    k1, k2 = r.sample(KEYS[:5], 2)
    if r.random() < 0.2:
        k2 = k1
    f1 = r.choice([0, 0, 0, 2, 4])
    out = [[dt, "color", x, f1, p, k1, 0]]
    gap = r.choice([0, 0, 1, -1, f1, f1 + 1, max(f1 - 1, 0)])
    p2 = r.choice([p, p, p + 1, p + 1, max(p - 1, 0)])
    f2 = r.choice([0, 0, 2, 4, 8])
    out.append([gap, "color", x, f2, p2, k2, 0])
    if r.random() < 0.7:
        out.append([r.choice([0, 1, f2, f2 + 1, 3, -1]), "remove", r.choice([k2, k2, k1]), r.choice([0, 0, 2, 4])])
        if r.random() < 0.3:
            out.append([r.choice([0, 1, 5]), "remove", k1 if out[-1][2] == k2 else k2, r.choice([0, 0, 2])])
    return out


def blk_twice(r, dt):
    """the same command twice at the same instant (in one callback, or with the loop running in between)"""
    key, p = r.choice(KEYS[:5]), r.choice([0, 1, 1, 2, 3])
    c = list(r.choice(COLORS + XS))
    f = r.choice([0, 0, 2, 4, 8])
    out = [[dt, "color", c, f, p, key, 0], [r.choice([0, -1, -1]), "color", c, f, p, key, 0]]
    k = r.random()
    if k < 0.35:
        g = r.choice([0, 2, 4])
        out += [[r.choice([0, 1, f, f + 1]), "remove", key, g], [r.choice([0, -1, -1]), "remove", key, g]]
    elif k < 0.5:
        out += [[r.choice([0, 1, f + 1]), "clear"], [r.choice([0, -1]), "clear"]]
    if k < 0.5 and r.random() < 0.6:
        # ... and the very same command again after the key is gone
        out.append([r.choice([0, 0, 1, 5, -1]), "color", c, f, p, key, 0])
    elif k >= 0.5 and r.random() < 0.3:
        # ... and again after another key was set above it and removed / after its fade is over
        k2 = r.choice([x for x in KEYS[:5] if x != key])
        out += [[r.choice([0, 1]), "color", list(r.choice(COLORS)), r.choice([0, 2]), 3, k2, 0], [r.choice([0, 1, 3]), "remove", k2, 0],
                [r.choice([0, 1, f + 1]), "color", c, f, p, key, 0]]
    return out


def gen_case(r, table=None):
    hz = r.choice([8, 8, 4, 2])
    onc = r.choice(ON_COLORS)
    profile = r.random() < 0.25
    bright = r.choice([4, 4, 4, 3, 2, 1])
    # correction changes colours on this machine: commands whose colour is the corrected image of the one before
    active = table is not None and (profile or bright != 4)

    def cim(c):
        return corr_image(c, profile, bright, table)
    ops = []
    n = r.randint(4, 14)
    pending = []      # tick offsets (relative to now) at which something interesting ends

    def emit(op):
        d = max(op[0], 0)
        pending[:] = [p - d for p in pending if p - d >= 0]
        ops.append(op)
        if op[1] == "color" and op[3]:
            pending.append(max(op[3] - op[6], 0))
        elif op[1] == "remove" and op[3]:
            pending.append(op[3])

    lead = r.random()
    if lead < 0.4:
        pending.append(gen_overlap(r, ops))
        n = r.randint(0, 6)
    elif lead < 0.52:
        blk, _ = blk_refade(r, 0)
        for op in blk:
            emit(op)
        n = r.randint(0, 5)
    elif active and lead < 0.7:
        for op in blk_corrected_chain(r, 0, cim):
            emit(op)
        n = r.randint(0, 8)
    end_chain = active and r.random() < 0.15
    i = 0
    while i < n:
        i += 1
        k = r.random()
        if pending and k < 0.45:
            dt = max(0, r.choice(pending) + r.choice([-1, 0, 0, 1]))
        elif k < 0.55:
            dt = 0
        elif k < 0.63 and ops:
            dt = -1          # same callback as the previous command: the loop does not run in between
        else:
            dt = r.choice([1, 1, 2, 3, 5, 8, 13, 20])
        kind = r.random()
        key = r.choice(KEYS[:5])
        if kind < 0.16:
            # coincidences the suppression logic of _schedule_update could confuse
            which = r.random()
            if which < 0.2:
                blk, _ = blk_refade(r, dt)
            elif active and which < 0.55:
                blk = blk_corrected_chain(r, dt, cim)
            elif which < 0.8:
                blk = blk_same_colour(r, dt)
            else:
                blk = blk_twice(r, dt)
            for op in blk:
                emit(op)
            i += 1
        elif kind < 0.66:
            fade = r.choice([0, 0, 0, 1, 2, 3, 4, 5, 6, 7, 8, 12, 16])
            st_back = r.choice([0, 0, 0, 0, 0, 1, 2]) if fade else 0
            how = r.random()
            if how < 0.12:        # Light.on(brightness): the colour is default_on_color scaled
                b = r.choice(ON_BRIGHTNESS)
                emit([dt, "color", on_color(onc, b), fade, r.choice([0, 1, 1, 2, 3]), key, 0, ["on", b]])
            elif how < 0.18:      # Light.off()
                emit([dt, "color", [0, 0, 0], fade, r.choice([0, 1, 1, 2, 3]), key, 0, ["off"]])
            else:
                emit([dt, "color", list(r.choice(COLORS)), fade, r.choice([0, 1, 1, 2, 3]), key, st_back])
        elif kind < 0.87:
            emit([dt, "remove", key, r.choice([0, 0, 1, 2, 3, 4, 5, 8, 16])])
        elif kind < 0.93:
            emit([dt, "clear"])
        else:
            emit([dt, "probe", list(r.choice(COLORS))])
    if end_chain:
        # the chain is the last thing that happens: the batched platform's transmission lag has time to pass
        for op in blk_corrected_chain(r, (max(pending) + 1) if pending and r.random() < 0.7 else r.choice([0, 1, 3]), cim):
            emit(op)
    return {"hz": hz, "profile": profile, "ops": ops, "tail": r.choice([20, 24, 40]),
            "rgbw": r.choice(["duck_rgb", "min_rgb", "white_only"]),
            # hardware-fading back ends: the longest fade the hardware does on its own, in ticks (2 and 8: longer fades are
            # stepped; 100: every fade is one command); batch: size of one list, extra lights with their own commands
            "hwm": r.choice([2, 2, 8, 8, 100]), "bhwm": r.choice([0, 0, 2, 8, 100]), "bright": bright, "onc": list(onc),
            "bsize": r.choice([1, 2, 2, 3, 5, 16]),
            "fill": [[r.randrange(0, max(len(ops), 1)), r.randrange(3), list(r.choice(COLORS)), r.choice([0, 0, 2, 4, 8, 16])]
                     for _ in range(r.randint(0, 6))]}


def rgbw_channels(style, c):
    """what an RGBW light's four channels show for the (corrected) colour c, per `rgbw_white_behavior` (independent of the
    code: min_rgb = white duplicates the common part; duck_rgb = the common part moves to white; white_only = only pure
    greys use the white channel)"""
    r, g, b = c
    m = min(c)
    if style == "min_rgb":
        return [r, g, b, m]
    if style == "duck_rgb":
        return [r - m, g - m, b - m, m]
    if r == g == b:
        return [0, 0, 0, r]
    return [r, g, b, 0]


def is_nontrivial(case):
    """a command lands inside a running fade / fade-out, or a tie / refused re-issue occurs"""
    t = 0
    busy_until = -1
    prios = {}
    for op in case["ops"]:
        t += max(op[0], 0)
        if op[1] in ("color", "remove"):
            fade = op[3]
            if t < busy_until:
                return True
            if op[1] == "color":
                key, p = op[5], op[4]
                if key in prios and p < prios[key]:
                    return True
                if any(pp == p and kk != key for kk, pp in prios.items()):
                    return True
                prios[key] = p
            else:
                prios.pop(op[2], None)
            if fade:
                busy_until = max(busy_until, t + fade)
        elif op[1] == "clear":
            prios = {}
    return False


# ---------------------------------------------------------------------------------------------------------------------
# implementation side
# ---------------------------------------------------------------------------------------------------------------------

class Run:
    """One real machine, the four (or two batched) lights, all wrappers; produces one event log per light."""

    def __init__(self, case, batch=False):
        self.case = case
        self.batch = batch
        self.lights = BATCH_LIGHTS if batch else LIGHTS
        self.logs = {name: [] for name, _, _ in self.lights}
        self.fail = []            # (signature, detail)
        self.marker = None        # name of the light whose synchronous call is running (op or fade-out delay)
        self.vm = None
        self.samples = 0

    # -- wrappers -----------------------------------------------------------------------------------------------------
    def tick(self):
        t = self.vm.now() / TICK
        if abs(t - round(t)) > 1e-9:
            raise InfraError("clock off the tick grid: %r" % self.vm.now())
        return int(round(t))

    def install(self):
        from mpf.devices.light import Light
        m = self.vm.machine
        run = self
        if not hasattr(Light, "_verif_orig_rfo"):
            Light._verif_orig_rfo = Light._remove_fade_out

        def rfo(light, key):
            r = Light._verif_run
            if r is None or light.name not in r.logs:
                return Light._verif_orig_rfo(light, key)
            ev = {"ev": "fire", "t": r.tick(), "key": key, "sets": []}
            r.logs[light.name].append(ev)
            prev, r.marker = r.marker, ev
            try:
                return Light._verif_orig_rfo(light, key)
            finally:
                r.marker = prev
        Light._remove_fade_out = rfo
        Light._verif_run = self
        self.chan_of = {}      # id(hw light object) -> (light name, channel index)
        for name, nchan, kind in self.lights:
            light = m.lights[name]
            order = ORDER[nchan]
            for i, col in enumerate(order):
                hw = light.hw_drivers[col][0]
                self.chan_of[id(hw)] = (name, i)
                self.wrap_set_fade(hw, name, i)
                if kind == "soft":
                    self.wrap_driver(hw.driver.hw_driver, name, i)
                if kind == "hwdirect":
                    hw.platform.on_cmd = self.hw_cmd

    def wrap_set_fade(self, hw, name, i):
        run = self
        cls = type(hw)
        if not hasattr(cls, "_verif_orig_set_fade"):
            cls._verif_orig_set_fade = cls.set_fade

            def set_fade(obj, sb, st, tb, tt, _cls=cls):
                r = _cls._verif_run
                w = r.chan_of.get(id(obj)) if r is not None else None
                if w is not None and r.marker is not None:
                    r.marker["sets"].append([w[1], sb, st, tb, tt])
                return _cls._verif_orig_set_fade(obj, sb, st, tb, tt)
            cls.set_fade = set_fade
        cls._verif_run = self

    def hw_cmd(self, hw, brightness, fade_ms):
        """the hardware-fading light `hw` is told: go to `brightness` within `fade_ms`"""
        name, i = self.chan_of[id(hw)]
        t = self.tick()
        self.observe_hw_cmd(name, i, hw, brightness, fade_ms)
        ft = fade_ms * 8000.0       # the model's unit for a handed fade duration: 1/8000 ms (one tick = 1000000)
        if self.marker is not None:
            self.marker.setdefault("imm", []).append([i, brightness])
            self.marker.setdefault("immf", {})[i] = ft
        else:
            self.logs[name].append({"ev": "step", "t": t, "ch": i, "power": brightness, "fade": ft})

    def observe(self, what):
        """informational observations: things outside what C09 states (transient hardware output); counted, never failed"""
        self.obs[what] = self.obs.get(what, 0) + 1

    def observe_hw_cmd(self, name, i, hw, b, fade_ms):
        """OBSERVATION, not part of the property (C09 constrains the logical colour and the hardware at rest, not the
        transient hardware output): does the (brightness, fade) pair handed to a hardware-fading light lie on the line of
        the light's latest set_fade, within the hardware's maximum fade, the last one carrying the target and the
        remaining time?  On the code as it is it does not (D30: set_fade divides by 1000); counted in the evidence."""
        now = self.vm.now()
        _, sb, st, tb, tt = hw.fades[-1]
        M = hw.max_fade_ms
        off = False
        end = now + fade_ms / 1000.0
        if not (0 <= fade_ms <= M) or not (0.0 <= b <= 1.0):
            off = True
        elif tt < 0 or tt <= now + 1e-9:
            off = abs(b - tb) > 1e-9 or fade_ms != 0
        else:
            remaining = (tt - now) * 1000.0
            if remaining <= M + 1e-6:
                off = abs(b - tb) > 1e-9 or abs(fade_ms - remaining) > 1.0
            else:
                want = min(1.0, max(0.0, sb + (tb - sb) * (end - st) / (tt - st)))
                off = abs(fade_ms - M) > 1e-6 or abs(b - want) > 1e-9
        self.observe("hw_fade_command_off_the_logical_fade" if off else "hw_fade_command_on_the_logical_fade")

    def wrap_driver(self, hd, name, i):
        run = self
        oe, od = hd.enable, hd.disable

        def rec(power):
            if run.marker is not None:
                run.marker.setdefault("imm", []).append([i, power])
            else:
                run.logs[name].append({"ev": "step", "t": run.tick(), "ch": i, "power": power})

        def en(pulse, hold):
            rec(hold.power)
            return oe(pulse, hold)

        def di():
            rec(0.0)
            return od()
        hd.enable, hd.disable = en, di

    # -- observations -------------------------------------------------------------------------------------------------
    def stack_of(self, light):
        out = []
        for e in light.stack:
            out.append("%d:%d:%s:%s:%s:%s" % (
                e.priority, KEYS.index(e.key), self.to_tick(e.start_time),
                "-" if not e.dest_time else ",".join(str(x) for x in e.start_color),
                self.to_tick(e.dest_time) if e.dest_time else 0,
                "-" if e.dest_color is None else ",".join(str(x) for x in e.dest_color)))
        return "s" + "".join(" " + x for x in out)

    @staticmethod
    def to_tick(t):
        x = t / TICK
        if abs(x - round(x)) > 1e-9:
            raise InfraError("time off the tick grid: %r" % t)
        return int(round(x))

    def hw_state(self, name, nchan, kind):
        """last commanded brightness per channel + number of live stepping tasks"""
        light = self.vm.machine.lights[name]
        order = ORDER[nchan]
        out = []
        for col in order:
            hw = light.hw_drivers[col][0]
            if kind in ("direct", "rgbw"):
                out.append((hw.current_brightness, 0))
            elif kind == "soft":
                live = 1 if (hw.task is not None and not hw.task.done()) else 0
                out.append((self.last_power.get((name, order.index(col)), 0.0), live))
            elif kind == "hwdirect":
                live = 1 if (hw.task is not None and not hw.task.done()) else 0
                out.append((self.last_power.get((name, order.index(col)), 0.0), live,
                            self.last_fade.get((name, order.index(col)), 0.0)))
            else:
                out.append((hw.sent if hw.sent is not None else 0.0, 0))
        return out

    def sample(self, tag):
        t = self.tick()
        for name, nchan, kind in self.lights:
            light = self.vm.machine.lights[name]
            try:
                col = tuple(light.get_color())
            except Exception as e:  # noqa
                self.fail.append(("crash-get_color", {"light": name, "t": t, "error": repr(e)}))
                col = None
            ev = {"ev": "sample", "t": t, "color": col, "stack": self.stack_of(light), "tag": tag,
                  "hw": self.hw_state(name, nchan, kind)}
            self.logs[name].append(ev)
            self.oracle_sample(name, nchan, kind, light, ev)
        self.samples += 1

    # -- the model-independent oracle ---------------------------------------------------------------------------------
    def corrected(self, light, col):
        """brightness factor (`int(x * q / 4)`), then the profile's lookup table (data of the configured profile)"""
        q = self.case.get("bright", 4)
        if q != 4:
            col = tuple(x * q // 4 for x in col)
        prof = light._color_correction_profile
        if prof is not None:
            col = tuple(prof._lookup_table[i][col[i]] for i in range(3))
        return tuple(col)

    @staticmethod
    def chan_vals(nchan, col):
        return [min(col)] if nchan == 1 else list(col)

    def oracle_sample(self, name, nchan, kind, light, ev):
        t, col = ev["t"], ev["color"]
        if col is None:
            return
        now = self.vm.now()
        ref = self.ref
        # every colour is inside the hull of what was ever commanded
        lo = [min(c[i] for c in self.commanded) for i in range(3)]
        hi = [max(c[i] for c in self.commanded) for i in range(3)]
        if any(not (lo[i] <= col[i] <= hi[i]) for i in range(3)):
            self.fail.append(("colour-outside-all-endpoints", {"light": name, "t": t, "color": col}))
        # a fade issued on top of everything: starts from what was visible, stays between its endpoints, ends at its target
        f = self.top_fade
        if f is not None and t <= f["end"]:
            v0, c = f["from"][name], f["to"]
            if t == f["t0"] and col != v0:
                self.fail.append(("fade-start-not-visible-colour", {"light": name, "t": t, "color": col, "visible_before": v0}))
            elif any(not (min(v0[i], c[i]) <= col[i] <= max(v0[i], c[i])) for i in range(3)):
                self.fail.append(("fade-outside-endpoints", {"light": name, "t": t, "color": col, "from": v0, "to": c}))
            elif t == f["end"] and col != c:
                self.fail.append(("fade-end-not-target", {"light": name, "t": t, "color": col, "to": c}))
        # a running fade-out: its entry stays in the stack until ITS end (not the end of an earlier fade-out of the same
        # key), and - where the key was the top entry over a stack at rest and nothing was commanded since - the logical
        # colour is on the line from the removed colour to the one beneath (int() truncation of the code: within 1)
        for gk, g in list(self.ghosts.items()):
            if t >= g["end"]:
                del self.ghosts[gk]
                continue
            ent = [e for e in light.stack if e.key == gk and e.dest_color is None]
            if len(ent) != 1 or self.to_tick(ent[0].dest_time) != g["end"]:
                self.fail.append(("fade-out-entry-not-in-stack-until-its-end",
                                  {"light": name, "t": t, "key": gk, "fade_out": [g["t0"], g["end"]],
                                   "stack": self.stack_of(light)}))
            elif g["clean"] and t > g["t0"]:
                n, d = t - g["t0"], g["end"] - g["t0"]
                want = []
                for i in range(3):
                    diff = g["to"][i] - g["from"][i]
                    want.append(g["from"][i] + (abs(diff) * n // d) * (1 if diff >= 0 else -1))
                if any(abs(col[i] - want[i]) > 1 for i in range(3)):
                    self.fail.append(("fade-out-colour-not-on-the-line-to-the-colour-beneath",
                                      {"light": name, "t": t, "key": gk, "fade_out": [g["t0"], g["end"]], "color": col,
                                       "want": want, "from": g["from"], "to": g["to"]}))
        quiet = t >= self.busy_until
        if quiet:
            # logical colour = the top (priority, key) setting of the reference stack, off when empty
            want = (0, 0, 0)
            if ref:
                k = max(ref, key=lambda kk: (ref[kk][0], kk))
                want = ref[k][1]
            if col != want:
                self.fail.append(("logical-not-top-entry", {"light": name, "t": t, "color": col, "want": want, "ref": ref}))
            # the stack itself: exactly the live settings, sorted; no fade-out entry left behind
            have = [[e.key, e.priority, None if e.dest_color is None else tuple(e.dest_color)] for e in light.stack]
            wstack = [[kk, ref[kk][0], ref[kk][1]] for kk in sorted(ref, key=lambda kk: (ref[kk][0], kk), reverse=True)]
            if have != wstack:
                self.fail.append(("stack-not-the-live-settings-at-rest", {"light": name, "t": t, "stack": have, "want": wstack}))
            # hardware = corrected logical colour, no stepping task left
            cc = self.chan_vals(nchan, self.corrected(light, col))
            if kind == "rgbw":
                cc = rgbw_channels(self.case.get("rgbw", "duck_rgb"), self.corrected(light, col))
            if kind == "batch" and t < max(self.busy_until, self.last_op_t) + self.batch_lag:
                return      # a batch may be in flight and the system polls: the transmission lags the command
            if kind == "soft" and t < self.busy_until + self.interval - 1:
                return      # the last step of a software fade comes up to one update interval after the fade's end
            for i, (b, live) in enumerate(x[:2] for x in ev["hw"]):
                if b is None or abs(b * 255 - cc[i]) > 1e-6 or live:
                    self.fail.append(("quiescent-hw-differs-" + kind,
                                      {"light": name, "t": t, "channel": i, "hw": b, "want": cc[i] / 255, "logical": col,
                                       "live_task": live}))
                    break

    def oracle_fade_start(self, name, nchan, kind, light, ev):
        """OBSERVATION (transient hardware output, outside the property): a fade handed to the hardware channels that
        starts now starts from the channel values of the (corrected) logical colour at this instant"""
        now = self.vm.now()
        for i, sb, st, tb, tt in ev["sets"]:
            if tt > now and abs(st - now) < 1e-9:
                try:
                    col = tuple(light.get_color())
                except Exception:  # noqa: reported by sample()
                    return
                cc = self.corrected(light, col)
                want = rgbw_channels(self.case.get("rgbw", "duck_rgb"), cc) if kind == "rgbw" else self.chan_vals(nchan, cc)
                self.observe("hw_fade_start_is_current_brightness" if abs(sb * 255 - want[i]) <= 1e-6
                             else "hw_fade_start_not_current_brightness")

    def set_brightness(self):
        q = self.case.get("bright", 4)
        if q == 4:
            return
        m = self.vm.machine
        m.variables.set_machine_var("brightness", q / 4)
        self.vm.advance(TICK)
        if m.light_controller.brightness_factor != q / 4:
            raise InfraError("brightness factor not taken: %r" % m.light_controller.brightness_factor)

    # -- driving ------------------------------------------------------------------------------------------------------
    def do_op(self, op):
        from mpf.core.rgb_color import RGBColor
        kind = op[1]
        t = self.tick()
        self.last_op_t = t
        subs = [op]
        if kind == "probe":
            subs = [[0, "color", op[2], 0, 9, "zz", 0], [0, "remove", "zz", 0]]
            before = {name: tuple(self.vm.machine.lights[name].get_color()) for name, _, _ in self.lights}
        for sub in subs:
            # reference bookkeeping (12-line stack model of the oracle)
            if sub[1] == "color":
                _, _, c, fade, p, key, stb = sub[:7]
                self.commanded.append(tuple(c))
                accepted = not (key in self.ref and p < self.ref[key][0])
                self.note_coincidence(sub, t, accepted)
                for g in self.ghosts.values():
                    g["clean"] = False
                if accepted:
                    self.ghosts.pop(key, None)      # setting a key again replaces its fade-out entry
                    self.ref[key] = (p, tuple(c))
                    pk = (p, key)
                    if fade and t - stb + fade > t:
                        self.busy_until = max(self.busy_until, t - stb + fade)
                    on_top = all(pk >= (pp, kk) for kk, (pp, _) in self.ref.items())
                    if self.top_fade is not None and pk >= self.top_fade["pk"]:
                        self.top_fade = None
                    if on_top and fade and stb == 0 and t >= self.ghost_until:
                        self.top_fade = {"t0": t, "end": t + fade, "to": tuple(c), "pk": pk,
                                         "from": {name: tuple(self.vm.machine.lights[name].get_color())
                                                  for name, _, _ in self.lights}}
            elif sub[1] == "remove":
                key, fade = sub[2], sub[3]
                self.since_prev_color.add("remove")
                for g in self.ghosts.values():
                    g["clean"] = False
                # removing a key that is only a fade-out entry removes that entry at once (a fade-out is not faded out)
                self.ghosts.pop(key, None)
                if key in self.ref:
                    was_top = key == self.ref_top()
                    gone = self.ref[key][1]
                    at_rest = t >= self.busy_until
                    del self.ref[key]
                    if fade:
                        # the fade-out entry lives until t + fade, whatever earlier fade-outs of this key were running; if
                        # the key was the top entry and nothing was fading, the logical colour is the line gone -> beneath
                        if self.fo_window.get(key, -1) > t:
                            self.coincide("second_fade_out_of_a_key_inside_its_first_fade_out_window" +
                                          ("_ending_later" if t + fade > self.fo_window[key] else "_ending_earlier_or_with_it"))
                        self.fo_window[key] = max(self.fo_window.get(key, -1), t + fade)
                        beneath = self.ref[self.ref_top()][1] if self.ref else (0, 0, 0)
                        self.ghosts[key] = {"t0": t, "end": t + fade, "from": gone, "to": beneath,
                                            "clean": was_top and at_rest and kind != "probe"}
                    if was_top and self.ref and self.ref[self.ref_top()][1] == gone and kind != "probe":
                        self.coincide("remove_of_top_key_whose_colour_equals_the_one_beneath")
                    if fade:
                        self.busy_until = max(self.busy_until, t + fade)
                        self.ghost_until = max(self.ghost_until, t + fade)
                    if self.top_fade is not None and self.top_fade["pk"][1] == key:
                        self.top_fade = None
            elif sub[1] == "clear":
                self.since_prev_color.add("clear")
                self.ghosts = {}
                self.ref = {}
                self.top_fade = None
            for name, nchan, lk in self.lights:
                light = self.vm.machine.lights[name]
                ev = {"ev": "op", "t": t, "op": sub, "sets": []}
                self.logs[name].append(ev)
                self.marker = ev
                try:
                    if sub[1] == "color":
                        _, _, c, fade, p, key, stb = sub[:7]
                        kw = {}
                        if stb:
                            kw["start_time"] = self.vm.now() - stb * TICK
                        if len(sub) > 7 and sub[7][0] == "on":
                            light.on(brightness=sub[7][1], fade_ms=fade * 125, priority=p, key=key)
                        elif len(sub) > 7 and sub[7][0] == "off":
                            light.off(fade_ms=fade * 125, priority=p, key=key)
                        else:
                            light.color(RGBColor(c), fade_ms=fade * 125, priority=p, key=key, **kw)
                    elif sub[1] == "remove":
                        light.remove_from_stack_by_key(sub[2], fade_ms=sub[3] * 125)
                    elif sub[1] == "clear":
                        light.clear_stack()
                except Exception as e:  # noqa: an exception out of the real code is an observation
                    ev["crash"] = repr(e)
                    self.fail.append(("crash-" + sub[1], {"light": name, "t": t, "op": sub, "error": repr(e)}))
                finally:
                    self.marker = None
                for i, power in ev.get("imm", []):
                    self.last_power[(name, i)] = power
                for i, ft in ev.get("immf", {}).items():
                    self.last_fade[(name, i)] = ft
                self.oracle_fade_start(name, nchan, lk, light, ev)
        if kind == "probe":
            for name, _, _ in self.lights:
                after = tuple(self.vm.machine.lights[name].get_color())
                if after != before[name]:
                    self.fail.append(("remove-does-not-restore", {"light": name, "t": t, "before": before[name], "after": after}))

    def ref_top(self):
        return max(self.ref, key=lambda kk: (self.ref[kk][0], kk)) if self.ref else None

    def coincide(self, what):
        self.coin[what] = self.coin.get(what, 0) + 1

    def note_coincidence(self, sub, t, accepted):
        """COUNTERS only: which of the coincidences the suppression logic of _schedule_update could confuse this colour
        command is (judged on the oracle's reference stack and the light's own correction, not on the code's state)"""
        _, _, c, fade, p, key, stb = sub[:7]
        c = tuple(c)
        light = self.vm.machine.lights[self.lights[0][0]]
        prev = self.prev_color_op
        self.prev_color_op = (t, sub[1:7], self.loop_runs)
        if prev is not None and prev[0] != t and prev[1] == sub[1:7] and self.since_prev_color:
            self.coincide("same_command_again_after_" + "_".join(sorted(self.since_prev_color)))
        self.since_prev_color = set()
        if prev is not None and prev[0] == t and prev[1] == sub[1:7]:
            self.coincide("same_command_twice_at_one_instant" + ("_in_one_callback" if prev[2] == self.loop_runs else ""))
        if not accepted or key == "zz":
            return
        top = self.ref_top()
        shown = self.ref[top][1] if top is not None else (0, 0, 0)
        on_top = top is None or (p, key) >= (self.ref[top][0], top)
        rest = "at_rest" if t >= self.busy_until else "during_a_fade"
        if on_top and c != shown and c == self.corrected(light, shown):
            self.coincide("new_top_colour_is_corrected_image_of_the_shown_one_" + rest + ("_instant" if not fade else "_faded"))
            if top is not None and key != top:
                self.coincide("new_top_colour_is_corrected_image_of_the_shown_one_other_key")
        if on_top and c != shown and tuple(shown) == self.corrected(light, c):
            self.coincide("new_top_colour_has_the_shown_one_as_its_corrected_image_" + rest)
        if on_top and c == shown and top is not None:
            self.coincide("new_top_colour_equals_the_shown_one_" + ("same_key" if key == top else "other_key") +
                          ("_faded" if fade else "_instant"))
        if not on_top and any(c == cc for kk, (pp, cc) in self.ref.items() if kk != key):
            self.coincide("same_colour_under_another_key_below_the_top")
        if fade and stb == 0:
            try:
                below = tuple(light.get_color_below(p, key))
            except Exception:  # noqa: counted only
                return
            if below == c:
                self.coincide("fade_whose_target_equals_its_start")

    def advance_one(self):
        try:
            self.vm.advance(TICK)
        except Exception as e:  # noqa: raised by an MPF callback (e.g. a fade task)
            self.fail.append(("crash-in-callback", {"t": self.tick(), "error": repr(e)}))
        self.collect_steps()
        self.sample("tick")

    def collect_steps(self):
        for name, _, kind in self.lights:
            for ev in self.logs[name]:
                if ev["ev"] == "step" and "seen" not in ev:
                    ev["seen"] = 1
                    self.last_power[(name, ev["ch"])] = ev["power"]
                    if "fade" in ev:
                        self.last_fade[(name, ev["ch"])] = ev["fade"]
                elif ev["ev"] == "fire" and "seen" not in ev:
                    ev["seen"] = 1
                    for i, power in ev.get("imm", []):
                        self.last_power[(name, i)] = power
                    for i, ft in ev.get("immf", {}).items():
                        self.last_fade[(name, i)] = ft

    def execute(self):
        case = self.case
        self.ref = {}
        self.commanded = [(0, 0, 0)]
        self.busy_until = -1
        self.ghost_until = -1
        self.ghosts = {}          # key -> the running fade-out of that key (oracle bookkeeping)
        self.fo_window = {}       # key -> latest end of any fade-out ever started for that key
        self.top_fade = None
        self.last_power = {}
        self.last_fade = {}
        self.obs = {}
        self.batch_lag = 0
        self.last_op_t = -1
        self.coin = {}
        self.prev_color_op = None
        self.since_prev_color = set()
        self.loop_runs = 0
        self.interval = {8: 1, 4: 2, 2: 4}[case["hz"]]
        cfg = config_yaml(case["hz"], case["profile"], rgbw=case.get("rgbw", "duck_rgb"), onc=case.get("onc", (255, 255, 255)))
        extra = None
        from harness.common import c09_hwfade
        c09_hwfade.MAX_FADE_MS = 125 * case.get("hwm", 2)
        if self.batch:
            from harness.common import c09_batch
            cfg, extra = c09_batch.config(case)
        try:
            self.vm = VMachine(cfg, extra_files=extra, platform=None).start()
        except BootError as e:
            raise InfraError("C09 machine does not boot: %s" % e)
        try:
            if self.batch:
                c09_batch.attach(self)
            self.vm.align()
            self.vm.advance(1.0 - self.vm.now() if self.vm.now() < 1.0 else 0)
            self.install()
            self.set_brightness()
            self.t0 = self.tick()
            ops = case["ops"]
            for n, op in enumerate(ops):
                for _ in range(max(op[0], 0)):
                    self.advance_one()
                self.do_op(op)
                if self.batch:
                    c09_batch.fill_ops(self, n)
                if n + 1 < len(ops) and ops[n + 1][0] < 0:
                    continue
                self.loop_runs += 1
                try:
                    self.vm.advance(0)
                except Exception as e:  # noqa
                    self.fail.append(("crash-in-callback", {"t": self.tick(), "error": repr(e)}))
                self.collect_steps()
                self.sample("after-op")
            for _ in range(max(case["tail"], self.batch_lag + 8) if self.batch else case["tail"]):
                self.advance_one()
            if self.batch:
                self.rounds = c09_batch.oracle(self)
                self.batch_log = list(self.batch_platform.log)
        finally:
            from mpf.devices.light import Light
            Light._verif_run = None
            self.vm.stop()
        return self


# ---------------------------------------------------------------------------------------------------------------------
# correspondence with the Lean model
# ---------------------------------------------------------------------------------------------------------------------

def model_check(ctx, model, run, case):
    """Feed each light's log to the model; compare every observation."""
    for name, nchan, kind in run.lights:
        if kind == "batch":
            continue
        log = run.logs[name]
        interval = {8: 1, 4: 2, 2: 4}[case["hz"]]
        maxfade = 0
        if kind == "hwdirect":
            maxfade = interval = case.get("hwm", 2)      # get_fade_interval_ms() defaults to get_max_fade_ms()
        onc = case.get("onc", [255, 255, 255])
        style = STYLES.index(case.get("rgbw", "duck_rgb"))
        if model.ask("init %d %d %d %d %d %d %d %d" % (nchan, interval, maxfade, style, case.get("bright", 4),
                                                      onc[0], onc[1], onc[2])) != "ok":
            raise InfraError("model init failed")
        if case["profile"]:
            tab = run.profile_table.get(name)
            if tab is None or len(tab) != 768:
                raise InfraError("no colour correction table for %s" % name)
            if model.ask("corr " + " ".join(str(x) for x in tab)) != "ok":
                raise InfraError("model corr failed")
        now = None
        what = {"light": name, "backend": kind}
        for ev in log:
            if ev["t"] != now:
                ans = model.ask("adv %d" % ev["t"])
                if ans != "ok":
                    ctx.compare(dict(case, **what, at=ev["t"]), "time advances", ans)
                    return
                now = ev["t"]
            if ev["ev"] == "op":
                op = ev["op"]
                if op[1] == "color":
                    _, _, c, fade, p, key, stb = op[:7]
                    if len(op) > 7 and op[7][0] == "on":
                        line = "on %d %d %d %d %d" % (op[7][1], fade, p, KEYS.index(key), now)
                    elif len(op) > 7 and op[7][0] == "off":
                        line = "off %d %d %d %d" % (fade, p, KEYS.index(key), now)
                    else:
                        line = "color %d %d %d %d %d %d %d" % (c[0], c[1], c[2], fade, p, KEYS.index(key), now - stb)
                elif op[1] == "remove":
                    line = "remove %d %d" % (KEYS.index(op[2]), op[3])
                else:
                    line = "clear"
                ans = model.ask(line)
                if "crash" in ev:
                    ctx.compare(dict(case, **what, at=now, op=op), "crash", ans)
                    return
                if not cmp_update(ctx, run, case, what, name, nchan, kind, ev, ans, line):
                    return
            elif ev["ev"] == "fire":
                line = "fire %d" % KEYS.index(ev["key"])
                ans = model.ask(line)
                if not cmp_update(ctx, run, case, what, name, nchan, kind, ev, ans, line):
                    return
            elif ev["ev"] == "step":
                ans = model.ask("step %d" % ev["ch"])
                parts = ans.split(" ")
                ok = parts[0] == "b" and abs(int(parts[1]) / int(parts[2]) - ev["power"]) < 1e-9
                if not ctx.compare(dict(case, **what, at=now, what="task step", channel=ev["ch"]),
                                   "b" if ok else ["b", ev["power"]], "b" if ok else ans):
                    return
                if "fade" in ev:
                    # the fade duration handed to the hardware with this step
                    ans = model.ask("hw").split(" ")[1:][ev["ch"]].split("/")[3]
                    if not ctx.compare(dict(case, **what, at=now, what="hardware fade of the step", channel=ev["ch"]),
                                       round(float(ev["fade"]), 3), float(ans)):
                        return
            elif ev["ev"] == "sample":
                ans = model.ask("get")
                if not ctx.compare(dict(case, **what, at=now, what="logical colour"),
                                   "c %d %d %d" % ev["color"] if ev["color"] else "crash", ans):
                    return
                ans = model.ask("stack")
                if not ctx.compare(dict(case, **what, at=now, what="stack"), ev["stack"], ans):
                    return
                if ev["tag"] == "tick":
                    # everything due has run in the implementation: the model must have no fade-out delay left overdue
                    ans = model.ask("overdue")
                    if not ctx.compare(dict(case, **what, at=now, what="fade-out delays overdue"), "t", ans):
                        return
                if kind in ("soft", "hwdirect"):
                    ans = model.ask("hw")
                    ok = True
                    parts = ans.split(" ")[1:]
                    for obs, p in zip(ev["hw"], parts):
                        num, den, n, lf = p.split("/")
                        if abs(int(num) / int(den) - obs[0]) > 1e-9 or int(n) != obs[1]:
                            ok = False
                        if kind == "hwdirect" and abs(int(lf) - obs[2]) > 1e-3:
                            ok = False
                    if not ctx.compare(dict(case, **what, at=now, what="channel brightness / live tasks / hardware fade"),
                                       "h" if ok else ["h", ev["hw"]], "h" if ok else ans):
                        return


def cmp_update(ctx, run, case, what, name, nchan, kind, ev, ans, line):
    """`ans` = 'upd -' | 'upd sr sg sb st tr tg tb tt tokens | sb:tb per channel' | 'not-enabled'; ev['sets'] = the real
    set_fade calls.  The per-channel brightness pairs are the model's own (brightness factor, correction table, RGBW
    channel mapping are inside the model)."""
    impl = sorted([[i, round(sb * 255, 6), Run.to_tick(st) if st >= 0 else -1, round(tb * 255, 6),
                    Run.to_tick(tt) if tt >= 0 else -1] for i, sb, st, tb, tt in ev["sets"]])
    imm = {i for i, _ in ev.get("imm", [])}
    if kind in ("soft", "hwdirect"):
        impl = [x + ["i" if x[0] in imm else "t"] for x in impl]
    head, _, per = ans.partition(" |")
    parts = head.split(" ")
    if parts[0] != "upd":
        ctx.compare(dict(case, **what, at=ev["t"], line=line), impl, ans)
        return False
    mod = []
    if parts[1] != "-":
        v = [int(x) for x in parts[1:9]]
        pairs = [[int(y) for y in x.split(":")] for x in per.split()]
        for i in range(nchan):
            row = [i, float(pairs[i][0]), v[3], float(pairs[i][1]), v[7]]
            if kind in ("soft", "hwdirect"):
                row.append(parts[9][i])
            mod.append(row)
    return ctx.compare(dict(case, **what, at=ev["t"], line=line, what="hardware update"), impl, mod)


# ---------------------------------------------------------------------------------------------------------------------
# check entry points
# ---------------------------------------------------------------------------------------------------------------------

def execute_case(case, batch=False):
    run = Run(case, batch=batch)
    # the lookup table of each light's colour correction profile (plain data), captured while the machine lives
    run.profile_table = {}
    orig_install = run.install

    def install():
        orig_install()
        for name, _, _ in run.lights:
            prof = run.vm.machine.lights[name]._color_correction_profile
            if prof is not None:
                run.profile_table[name] = [v for ch in range(3) for v in prof._lookup_table[ch]]
                tab = prof._lookup_table
                run.profile_monotone = all(t[0] == 0 and all(a <= b for a, b in zip(t, t[1:])) for t in tab)
    run.install = install
    run.execute()
    run.vm_lights = None
    return run


def fails_with(sig, batch=False):
    def f(ops_case):
        run = execute_case(ops_case, batch=batch)
        return any(s == sig for s, _ in run.fail)
    return f


def report_failures(ctx, case, run, batch=False):
    seen = set()
    for sig, detail in run.fail:
        if sig in seen:
            continue
        seen.add(sig)
        small = dict(case)
        try:
            ops = ddmin(case["ops"], lambda ops: fails_with(sig, batch)(dict(case, ops=ops)), max_tests=60)
            small = dict(case, ops=ops)
            run2 = execute_case(small, batch=batch)
            d2 = [d for s, d in run2.fail if s == sig]
            if d2:
                detail = d2[0]
            else:
                small = dict(case)
        except InfraError:
            raise
        small["batch"] = batch
        ctx.fail(sig, small, detail)


def one_case(ctx, model, case, batch=False):
    run = execute_case(case, batch=batch)
    ctx.evaluated(dict(case, batch=batch), is_nontrivial(case))
    for op in case["ops"]:
        ctx.count("op_" + op[1])
        if op[1] == "color" and op[3]:
            ctx.count("color_with_fade")
        if op[1] == "color" and len(op) > 7:
            ctx.count("op_light_" + op[7][0])
        if op[1] == "remove" and op[3]:
            ctx.count("remove_with_fade_out")
    for name, _, kind in run.lights:
        for ev in run.logs[name]:
            if ev["ev"] == "fire":
                ctx.count("fade_out_delay_fired")
            elif ev["ev"] == "step" and "fade" in ev:
                ctx.count("hw_fade_task_steps")
            elif ev["ev"] == "step":
                ctx.count("soft_task_steps")
            elif ev["ev"] == "op" and ev["sets"]:
                ctx.count("hw_updates_sent")
            elif ev["ev"] == "op":
                ctx.count("hw_updates_suppressed_or_skipped")
    ctx.count("samples", run.samples)
    for k, v in run.obs.items():
        ctx.count("observed_outside_property_" + k, v)
    for k, v in run.coin.items():
        ctx.count("coincidence_" + k, v)
    if run.coin:
        ctx.count("cases_with_a_dedupe_coincidence" + ("_batch" if batch else ""))
    if getattr(run, "profile_monotone", None) is not None:
        # observation only (not part of the property): the configured correction table is monotone and maps 0 to 0
        ctx.count("profile_table_monotone" if run.profile_monotone else "profile_table_not_monotone")
    ctx.count("cases_batch" if batch else "cases_direct_soft")
    if not batch:
        ctx.count("rgbw_" + case.get("rgbw", "duck_rgb"))
        ctx.count("hw_max_fade_ticks_%d" % case.get("hwm", 2))
        ctx.count("brightness_quarters_%d" % case.get("bright", 4))
    else:
        ctx.count("batch_hw_max_fade_ticks_%d" % case.get("bhwm", 0))
        ctx.count("batch_size_%d" % case.get("bsize", 2))
        ctx.count("batch_rounds", getattr(run, "rounds", 0))
        plog = run.batch_log
        ctx.count("batch_lists_sent", sum(1 for e in plog if e[0] == "flush"))
        ctx.count("batch_lists_longer_than_one", sum(1 for e in plog if e[0] == "flush" and len(e[2]) > 1))
        ctx.count("batch_hw_intermediate_steps", sum(1 for e in plog if e[0] == "compute" and not e[4] and e[5] > 0))
        ctx.count("batch_hw_final_commands_with_fade", sum(1 for e in plog if e[0] == "compute" and e[4] and e[5] > 0))
    if run.fail:
        report_failures(ctx, case, run, batch)
    if model is not None and not batch:
        model_check(ctx, model, run, case)
    if model is not None and batch:
        from harness.common import c09_batch
        c09_batch.model_check(ctx, model, run, case)
    return run


CORPUS = [
    # two keys fading out at the same time: the second removal lands inside the first fade-out; then a lower fade
    {"hz": 8, "profile": False, "tail": 24, "rgbw": "min_rgb",
     "ops": [[0, "color", [255, 0, 0], 0, 1, "a", 0], [0, "color", [0, 255, 0], 0, 2, "b", 0], [1, "remove", "b", 8],
             [2, "remove", "a", 4], [12, "color", [0, 0, 255], 8, 0, "c", 0]]},
    # three keys, removals at the same instant and exactly at the end of a fade-out window
    {"hz": 4, "profile": False, "tail": 24, "rgbw": "white_only",
     "ops": [[0, "color", [1, 2, 3], 0, 1, "a", 0], [0, "color", [230, 25, 7], 0, 1, "b", 0], [0, "color", [50, 200, 50], 2, 3, "d", 0],
             [3, "remove", "d", 4], [0, "remove", "a", 8], [4, "remove", "b", 2], [10, "color", [100, 100, 100], 4, 0, "", 0]]},
    # D17: software fade up, then an immediate colour: the old task must not keep stepping
    {"hz": 8, "profile": False, "tail": 24, "ops": [[0, "color", [255, 255, 255], 16, 0, "a", 0], [4, "color", [0, 0, 0], 0, 0, "a", 0]]},
    # D21: fade over a static entry whose key sorts after the fading key
    {"hz": 8, "profile": False, "tail": 20, "ops": [[0, "color", [255, 0, 0], 0, 1, "d", 0], [0, "color", [0, 0, 255], 8, 3, "a", 0]]},
    # D25: re-issue of a key at lower priority while its fade-out is running
    {"hz": 4, "profile": False, "tail": 24, "ops": [[0, "color", [255, 255, 255], 0, 3, "d", 0], [0, "color", [100, 100, 100], 0, 1, "c", 0],
                                                   [0, "remove", "d", 8], [2, "color", [50, 200, 50], 0, 2, "d", 0]]},
    # fade-out above a shorter fade below (the `start < lower_dest < dest` branch)
    {"hz": 8, "profile": True, "tail": 24, "ops": [[0, "color", [255, 0, 0], 0, 2, "b", 0], [1, "color", [0, 255, 0], 4, 1, "a", 0],
                                                  [1, "remove", "b", 8]]},
    # a key faded out (16 ticks), set again 4 ticks later, faded out again 4 ticks after that for 32 ticks: the removal delay
    # is re-armed, the second fade-out runs to tick 40 and not to tick 16 (the seeded change fade-out-timer-not-rearmed)
    {"hz": 8, "profile": False, "tail": 40, "rgbw": "min_rgb",
     "ops": [[0, "color", [0, 0, 255], 0, 1, "a", 0], [0, "color", [255, 0, 0], 0, 3, "d", 0], [8, "remove", "d", 16],
             [4, "color", [255, 0, 0], 0, 3, "d", 0], [4, "remove", "d", 32]]},
    # ... the second fade-out ends before the first one would have; then a third round in the same callback
    {"hz": 4, "profile": False, "tail": 32, "rgbw": "duck_rgb",
     "ops": [[0, "color", [100, 100, 100], 0, 0, "", 0], [0, "color", [50, 200, 50], 0, 2, "b", 0], [1, "remove", "b", 12],
             [2, "color", [230, 25, 7], 0, 2, "b", 0], [1, "remove", "b", 2], [1, "color", [0, 255, 0], 0, 2, "b", 0],
             [-1, "remove", "b", 16], [9, "color", [1, 2, 3], 0, 0, "c", 0]]},
    # same priority, different keys; remove the upper one; clear
    {"hz": 2, "profile": False, "tail": 20, "ops": [[0, "color", [1, 2, 3], 0, 1, "a", 0], [0, "color", [230, 25, 7], 5, 1, "b", 0],
                                                   [2, "remove", "b", 3], [1, "probe", [0, 255, 0]], [9, "clear"]]},
]


CORPUS_BATCH = [
    # D31 (observed, outside the property): a channel re-dirtied while its round is in progress is computed twice; the second
    # answer comes from the cache with fade 0 while the hardware fade (12.5 s maximum) is still running
    {"bhwm": 100, "bright": 4, "bsize": 3, "fill": [[0, 2, [0, 255, 0], 0], [2, 0, [0, 0, 0], 8], [1, 0, [0, 0, 0], 8], [4, 1, [0, 0, 0], 8], [11, 1, [255, 255, 255], 2], [4, 1, [0, 0, 255], 2]], "hwm": 2, "hz": 8, "onc": [255, 255, 255], "ops": [[0, "color", [255, 255, 255], 6, 2, "", 0], [1, "probe", [0, 255, 0]], [-1, "color", [64, 64, 64], 12, 2, "b", 0, ["on", 64]]], "profile": False, "rgbw": "min_rgb", "tail": 24},
]


CORPUS_DEDUPE = [
    # brightness 0.5: white, then corrected(white) = (127,127,127) under the same key, then corrected of that under a key on
    # top, which is removed again
    {"hz": 8, "profile": False, "bright": 2, "tail": 24, "rgbw": "min_rgb",
     "ops": [[0, "color", [255, 255, 255], 0, 1, "a", 0], [1, "color", [127, 127, 127], 0, 1, "a", 0],
             [2, "color", [63, 63, 63], 0, 2, "b", 0], [3, "remove", "b", 0]]},
    # brightness 0.75: a fade to X, finished; then corrected(X) instantly; the same with the fade just ending
    {"hz": 4, "profile": False, "bright": 3, "tail": 24, "rgbw": "duck_rgb",
     "ops": [[0, "color", [200, 120, 60], 4, 1, "a", 0], [6, "color", [150, 90, 45], 0, 1, "a", 0],
             [2, "color", [200, 120, 60], 4, 3, "d", 0], [4, "color", [150, 90, 45], 2, 3, "d", 0]]},
    # the profile p1: (255,255,255) -> (192,149,242) -> (103,43,216), last link inside one callback
    {"hz": 8, "profile": True, "bright": 4, "tail": 24, "rgbw": "white_only",
     "ops": [[0, "color", [255, 255, 255], 0, 3, "d", 0], [1, "color", [192, 149, 242], 0, 3, "d", 0],
             [0, "color", [103, 43, 216], 0, 3, "d", 0], [-1, "color", [103, 43, 216], 0, 3, "d", 0]]},
    # the same colour under another key above (fade whose target equals its start), the upper key removed (the colour
    # beneath equals the removed one), the same command twice, a fade to the colour already shown
    {"hz": 8, "profile": False, "bright": 4, "tail": 24, "rgbw": "min_rgb",
     "ops": [[0, "color", [100, 100, 100], 0, 1, "a", 0], [0, "color", [100, 100, 100], 4, 2, "b", 0], [5, "remove", "b", 0],
             [1, "color", [100, 100, 100], 0, 1, "a", 0], [-1, "color", [100, 100, 100], 0, 1, "a", 0],
             [1, "color", [100, 100, 100], 8, 1, "a", 0], [2, "remove", "a", 4], [0, "remove", "a", 4]]},
]


def run(ctx):
    model = None if getattr(ctx, "model_unavailable", False) else leanproc.LeanProc(ID)
    try:
        for case in CORPUS:
            one_case(ctx, model, case)
        table = correction_table()
        for case in CORPUS_DEDUPE:
            one_case(ctx, model, case)
        for i in range(ctx.n(250, 2000)):
            one_case(ctx, model, gen_case(ctx.rng("case", i), table))
        try:
            from harness.common import c09_batch  # noqa
            have_batch = True
        except ImportError:
            have_batch = False
        if have_batch:
            for case in CORPUS + CORPUS_BATCH + CORPUS_DEDUPE:
                one_case(ctx, model, case, batch=True)
            for i in range(ctx.n(120, 1000)):
                one_case(ctx, model, gen_case(ctx.rng("batch", i), table), batch=True)
    finally:
        if model is not None:
            model.close()


def replay(ctx, rep):
    case = rep["case"]
    batch = bool(case.get("batch"))
    run = execute_case({k: v for k, v in case.items() if k != "batch"}, batch=batch)
    for sig, detail in run.fail:
        if sig == rep.get("signature") or rep.get("signature") is None:
            ctx.fail(sig, case, detail)
            return
    for sig, detail in run.fail[:1]:
        ctx.fail(sig, case, detail)
